"""C07 - match-file lines survive format/parse round trips in every version.

Reading of the property (what the oracle demands; chosen so that minimally repaired code is right):

* "every field value its format version allows" = the values the field tables declare, with
  identifiers / attribute words made of letters, digits and `_ . # + -` (no `, ( ) [ ] :`, no blank at
  either end, never the bare token `-`), free-text info strings without leading/trailing blanks and
  non-empty, note names as the classes store them (upper-case step, or `R` with no modifier and no
  octave for a rest), alterations None/-2..2, non-negative durations, time signatures with extra
  components only where the version's formatter prints a list (0.4.0, 0.5.0), and floats that are
  representable with the number of decimals the version's formatter prints ("four-decimal beat
  times").  For floats that are NOT representable that way only the fixpoint clause is demanded
  ("formatting is a fixpoint after one round"): parse(format(x)) must format to format(x) again.
* "equal fields" = every name in `field_names` has an equal value (FractionalSymbolicDuration,
  key/time signature compared by their own attributes, lists element-wise, a list field of length 0
  is the empty list).
* to_v1: the kind of the result is the version-1.0.0 counterpart of the input's kind (variants of
  deletion/insertion collapse to deletion/insertion, trill -> ornament, meta/info(score attribute) ->
  scoreprop; the words of a pre-1.0 tempo indication stay, in order, the blank-separated words of the 1.0.0 tempo
  text) and pitch, times, velocity, pedal values, anchors/ids are unchanged (tick times of
  versions < 0.3.0, which are floats, are rounded to the nearest integer).  Info attributes with no
  1.0.0 counterpart may be rejected.
* files (load_matchfile): a file of version V made of written lines is read as version V, every distinct
  non-empty written line once, in file order, with its kind and (for exactly representable floats) equal
  fields; lines no parser accepts and empty lines are dropped.  The version is the one stated by the first
  non-empty line when that is a matchFileVersion line (either spelling), 0.1.0 otherwise (get_version's
  documented fallback).  When ids repeat, validate_match_ids' documented contract applies: the deletions whose score
  id stands in more than one line with a score note are dropped, then the insertions whose performed-note id stands
  in more than one remaining line with a performed note; every other line is read.
* FractionalSymbolicDuration: a duration built from / read as integers n, d <= 1024 (the bound of the class, 1024
  itself included) holds exactly n and d; value(a+b) = value(a)+value(b) exactly while the common denominator and
  the summed numerator stay <= 1024 (beyond that the class deliberately approximates: nothing is demanded of the
  value there, the approximation itself is modelled and compared).
* histories: what a line object writes is a function of that object: it is the same text whether the object is
  the only one ever created or other line objects (of any class and format version) were constructed, parsed,
  dispatched, converted or written before.
"""
import io
import contextlib
import glob
import json
import os
import re
from fractions import Fraction

import wire as W
from core import Eval

PROPERTY = "C07"
DRIVER = "drv_c07"
PROPS = ["PartituraModel.Props.C07", "PartituraModel.Props.C07Codecs", "PartituraModel.Props.C07Lines",
         "PartituraModel.Props.C07Files", "PartituraModel.Props.C07Bound",
         "PartituraModel.Props.C07Hist", "PartituraModel.Props.C07Dispatch",
         "PartituraModel.Props.C07ToV1", "PartituraModel.Props.C07Keys", "PartituraModel.Props.C07Validate",
         "PartituraModel.Props.C07Alpha"]
TRUSTED = [
    "Python `re` for the pattern sub-language of the match modules (literals, named groups over "
    "[^,] . [0-9,] [a-z,] [^)] with + or *): leftmost match, greedy quantifiers with backtracking - "
    "modelled by Model/Template.lean `matchSegs`/`search`",
    "harness/translate_match.py (regex/out_pattern mini-parser, identification of the (interpret, format) "
    "pairs by function identity and of lambdas by tabulating them over probe values)",
    "binary64 <-> decimal conversion: float(s) is the correctly rounded value of the decimal s and '%.kf' "
    "is the correctly rounded k-decimal rendering of the exact binary value (modelled exactly with Rat: "
    "`toBinary64`, `roundHalfEven`); repr(float) of a decimal with <= 15 significant digits in [1e-4,1e16) "
    "is that decimal normalised (opaque: the model carries the decimal)",
    "bound_integers: np.int64 / np.int64 is the correctly rounded binary64 quotient, float * int and float - float "
    "are correctly rounded, np.round is half-to-even, np.argmin returns the first minimum (modelled exactly with Rat "
    "by `boundInts`; integers below 2^40); harness/translate_c07.py reads the bound and the candidate denominators "
    "off the live class by probing (a candidate table that is not ascending would only show in the comparison)",
    "int(), str.strip/split/upper/lower, numpy lcm/dot/sign/abs on small integers",
    "load_matchfile: open()/splitlines() on ASCII text, np.unique(return_index) = first occurrences in file order "
    "(modelled by List.eraseDups); np.unique(return_counts) / np.delete in validate_match_ids (modelled by counting in "
    "lists: `validateIds`)",
    "histories: Python object identity - a line object is modelled as (version, kind, field values); that the "
    "classes keep no other state is exactly what the `hist` stream compares",
]
PARTIAL = [
    "side condition on written texts: line_roundtrip / pitch_line_roundtrip / line_roundtrip_adm / "
    "pitch_line_roundtrip_adm carry the decidable condition FieldsOKGen on the written texts (a field text must not "
    "contain the literal that terminates it).  It is now DERIVED (Props/C07Alpha.lean) from the output alphabets of the "
    "codecs (alpha_text: int, '%.kf', repr, identifier, identifier list, duration, version, time signature, quoted "
    "text, the 30 keys / 900 double keys by kernel evaluation; note name and accidental tabulated over all steps and "
    "accidentals) and kernel-decided checks of the generated templates (alpha_table_ok, pitch_alpha_ok, info_alpha_ok, "
    "affix_alpha_ok) for 39 of the 43 templates: score notes and performed notes of all versions, pedal lines, trill "
    "heads, section, info lines of all six versions and meta lines for every attribute of their tables "
    "(line_roundtrip_values, pitch_line_roundtrip_values, info_line_roundtrip_values), and composed with the "
    "composite-line theorems for all 32 deletion-like and insertion-like lines (deletion_roundtrip_values, "
    "insertion_roundtrip_values, insertion_roundtrip_values_v1): there the only hypotheses are on the VALUES "
    "(admissible for the codec, identifiers of letters, digits and _ . # + -, quoted text without line break).  NOT "
    "derived, i.e. FieldsOKGen stays a condition checked on every generated line by the comparison: the 1.0.0 "
    "scoreprop line (free-text Value followed by commas), stime and ptime (groups with a positive character class "
    "[a-z,] / [0-9,]), the ornament head (the anchor may swallow the commas of the type list), and the FIRST component "
    "of note pairs / trill / ornament / stime-ptime lines (the window of the attribute list runs into the second "
    "component, a two-character literal would have to be tracked)",
    "composite lines: composite_pair / _pair0 / _suffix / _prefix give the round trip of all 45 generated composites "
    "from the component round trips and the STRUCTURAL check composites_struct_ok (kernel-decided for the whole "
    "table), under the value condition that no field text of the first component contains '(' and the fields the "
    "comma count walks over contain neither ',' nor ')' (identifiers without separators); lines violating it are "
    "only compared.  For the 32 deletion-like / insertion-like lines the component round trips themselves are now "
    "derived (see the first item), for the 13 two-component lines (note pair, trill, ornament, stime-ptime) the "
    "component round trips stay hypotheses of composite_pair / _pair0",
    "floats: fixed_decimal_roundtrip (a k-decimal number with fewer than 2^52 units in the last place is written by "
    "'%.kf' as its own numeral and read back: the binary64 rounding step is proved to stay within relative error "
    "2^-53), fixed_decimal_fixpoint (any float: one formatting round, then a fixpoint), repr_roundtrip (the decimal "
    "the model carries); not covered: negative zero (the model carries no sign of zero; never generated), "
    "subnormal / overflowing values, nan / inf, and that Python's repr prints the shortest decimal (TRUSTED)",
    "durations: frac_string_roundtrip / frac_string_fixpoint / frac_string_roundtrip_total cover simple, tuplet and "
    "additive durations whose numbers and running sums stay within the bound 1024 (1024 included: bound_identity) and "
    "whose parts are non-zero; a zero part is dropped by the class (same text and value afterwards, different object "
    "- shown by an example).  bound_integers beyond the bound is MODELLED exactly and compared (fracmk / fracparse / "
    "fracadd and every line field), and proved to be np.argmin over the candidate table (bound_approx, "
    "bound_first_minimum); that the approximated duration is a fixpoint of a second string round trip is compared "
    "(oracle + model), not proved (binary64 products of different candidates are not comparable in general)",
    "keys: 30 keys x 4 spellings and 900 double keys x 2 spellings by kernel evaluation; key lists of ANY length in "
    "the 0.3.0 list spelling (key_list_roundtrip, all 930 keys per component); keys outside the 930 (fifths beyond "
    "+-7) are rejected by the code and not generated",
    "dispatch: dispatch_table_ok + dispatch_written / dispatch_template_line / dispatch_composite_line prove for all "
    "68 (version, kind) pairs that every parser tried before the line's own rejects the written line, under the value "
    "conditions: no field text holds '(' , the score-note fields of a deletion hold no ',' ')' and no field text "
    "contains one of the identifier literals that alone tell the variants of deletion / insertion apart "
    "('-deletion.', 'insertion-', ...) - free-text info values with '(' are only compared; loadFile_written composes "
    "it to whole files of the six versions with distinct non-empty lines; validate_match_ids is modelled (`validateIds`, "
    "`loadFileV`) and specified by validate_mem / validate_keeps_others / validate_distinct / validate_deletion_unique / "
    "loadFileV_distinct; files with repeated ids are generated and compared",
    "to_v1: kind preservation and the content of every conversion are proved (toV1_pedal, _deletion, _snote_note, "
    "_insertion_content, _trill_content, _meta_content, _info_content, _info_signatures); for subtitle and "
    "tempoIndication the VALUE changes by design (list of words -> one text): toV1_tempo_words (the words joined by "
    "single blanks, an admissible 1.0.0 tempo text, when that text has no comma, no blank at either end and no '[' in "
    "front) and toV1_subtitle_words (the text Python prints for the list); word lists whose joined text violates these "
    "conditions (the model takes the first comma-free run, as the code does) are compared, outside the theorem",
    "histories: history_write_independent / write_after_history / slot_stable hold in the model by construction (a "
    "functional heap); their content is the tie: the `hist` stream runs the same histories on the real classes",
]
RULE = ("for every line class x supported version, field values drawn from the field tables: identifiers, every "
        "step x accidental, octaves, rests, measures/beats, fractional durations with/without tuplet divisor and "
        "additive components, durations AT THE BOUND of the class (numerators / denominators 1023, 1024, 1025, far "
        "beyond; sums whose common denominator or summed numerator is exactly 1024) alone, added, and inside every "
        "line kind / version that carries a duration, boundary floats (x.00005, exact ties k/32), attribute lists of "
        "length 0-6, all 30 keys in every spelling, ticks, controller values; every line of tests/data/match/*.match; "
        "complete SYNTHESISED files of versions 0.1.0-0.5.0 and 1.0.0 (version line in both spellings or absent, 2-6 "
        "info lines, meta / scoreprop lines, 12-28 body lines of all top-level kinds with distinct ids, empty / "
        "unparseable / repeated lines, in 40 % of the files repeated score-note / performed-note ids) read through "
        "load_matchfile; HISTORIES of 3-7 line objects (one kind in 2-4 "
        "format versions plus other kinds) created by constructor / from_matchline / parse_matchline / to_v1 in one "
        "order and written in another, every object at least once; distinct = distinct formatted line per "
        "class/version (distinct file text, distinct history); non-trivial = the line was formatted and parsed (the "
        "file was loaded, the history was run)")
LEVEL_TEXT = ("Lean 4 theorems about an executable model of template formatting and regular-expression search "
              "(greedy with backtracking) over the GENERATED table of all match-line templates: for every template "
              "satisfying decidable well-formedness / dependency predicates (checked for the whole table by kernel "
              "decision on every run) parse(format x) = x and the formatting fixpoint hold for every field assignment "
              "that satisfies a decidable side condition - including lines whose value codec is chosen by the "
              "Attribute, lines with pitch post-processing (every step, accidental, octave) and composite lines, whose "
              "'no early match' condition follows from a structural check of the generated composite table; for 39 of the 43 "
              "line templates (score and performed notes, pedal, section, trill heads, info and meta lines with every "
              "attribute) and all deletion-like and insertion-like composite lines that side condition is derived from "
              "the output alphabets of the codecs and checks of the generated templates, so their round trip holds "
              "for all admissible values with identifiers free of separators, with no condition on the written text; every "
              "codec of the field tables is a round trip on its admissible values (durations with tuplet divisor and "
              "additive components, time signatures, quoted strings, tempo, lists, versions, 30 keys x 4 spellings, key "
              "lists of any length); the bound of symbolic durations (bound_integers, binary64 arithmetic modelled "
              "exactly, bound and candidate table re-read from the live class): identity up to and including 1024, "
              "np.argmin over the table beyond, exact and total duration addition; ordered dispatch: for all 68 "
              "(version, kind) pairs every parser tried before a written line's own rejects it, composed to whole "
              "files; to_v1 content for every kind; version detection for every written version line; independence "
              "of a line's text from the history of other line objects.  The model is tied to the code by regenerating "
              "the templates and the bound from the live classes and by a differential run of construct / format / "
              "parse (values and match offsets) / re-format / to_v1 / dispatch / histories on generated field values, "
              "on the repository's match files and on complete synthesised files read through load_matchfile.")
SEARCH_LIMIT = 6000

VERS0 = [(0, 1, 0), (0, 2, 0), (0, 3, 0), (0, 4, 0), (0, 5, 0)]
V1 = (1, 0, 0)
STEPS = "CDEFGAB"
MAJ = ["Cb", "Gb", "Db", "Ab", "Eb", "Bb", "F", "C", "G", "D", "A", "E", "B", "F#", "C#"]
MIN = ["Ab", "Eb", "Bb", "F", "C", "G", "D", "A", "E", "B", "F#", "C#", "G#", "D#", "A#"]
BASE = {"C": 0, "D": 2, "E": 4, "F": 5, "G": 7, "A": 9, "B": 11}
ATTR_POOL = ["staff1", "staff2", "s", "v1", "v5", "voice1", "voice2", "grace", "fermata", "m", "accent", "stacc",
             "arp", "trill", "leftOutTied", "diminuendo", "fingering3", "sop", "alt", "bass", "ten"]
ANNOT_POOL = ["beat", "downbeat", "bar", "b", "db", "onset", "tap"]
IDCH = "abcdefghijklmnopqrstuvwxyzABCDEFGHIJKLMNOPQRSTUVWXYZ0123456789"
DENS = [1, 2, 3, 4, 5, 6, 8, 12, 16, 24, 32, 48, 64, 96, 128]

# kinds: name -> (module, class name, versions)
KINDS0 = {
    "info": "MatchInfo", "meta": "MatchMeta", "snote": "MatchSnote", "note": "MatchNote",
    "snote_note": "MatchSnoteNote", "deletion": "MatchSnoteDeletion", "trailing_score": "MatchSnoteTrailingScore",
    "no_played": "MatchSnoteNoPlayedNote", "insertion": "MatchInsertionNote", "hammer_bounce": "MatchHammerBounceNote",
    "trailing_played": "MatchTrailingPlayedNote", "trill": "MatchTrillNote", "sustain": "MatchSustainPedal",
    "soft": "MatchSoftPedal",
}
KINDS1 = {
    "info": "MatchInfo", "scoreprop": "MatchScoreProp", "section": "MatchSection", "stime": "MatchStime",
    "ptime": "MatchPtime", "stime_ptime": "MatchStimePtime", "snote": "MatchSnote", "note": "MatchNote",
    "snote_note": "MatchSnoteNote", "deletion": "MatchSnoteDeletion", "insertion": "MatchInsertionNote",
    "ornament": "MatchOrnamentNote", "sustain": "MatchSustainPedal", "soft": "MatchSoftPedal",
}
V1KIND = {"info": ("info", "scoreprop"), "meta": ("scoreprop",), "snote_note": ("snote_note",),
          "deletion": ("deletion",), "trailing_score": ("deletion",), "no_played": ("deletion",),
          "insertion": ("insertion",), "hammer_bounce": ("insertion",), "trailing_played": ("insertion",),
          "trill": ("ornament",), "sustain": ("sustain",), "soft": ("soft",)}


def ws(x):
    """percent-encoded string token (ASCII-only variant of wire.s; `encS` of Driver/C07.lean)"""
    x = str(x)
    if x == "":
        return "%"
    out = []
    for ch in x:
        if (ch.isascii() and ch.isalnum()) or ch in "_.#:+=<>!?@^&*;'\"|~`$":
            out.append(ch)
        elif ord(ch) < 256:
            out.append("%%%02x" % ord(ch))
        else:
            raise ValueError("non-latin1 char in wire string")
    r = "".join(out)
    return "%2d" if r == "-" else r


def tplname(kind, ver):
    return "v%d.%d.%d/%s" % (ver[0], ver[1], ver[2], kind)


# ------------------------------------------------------------------ modules (lazy: workers import partitura)
_M = {}


def mods():
    if not _M:
        import partitura.io.matchlines_v0 as M0
        import partitura.io.matchlines_v1 as M1
        import partitura.io.matchfile_utils as U
        import partitura.io.matchfile_base as B
        import partitura.io.importmatch as IM
        _M.update(M0=M0, M1=M1, U=U, B=B, IM=IM)
    return _M


def kind_of(obj):
    """kind name of a live line object"""
    m = mods()
    mod = m["M1"] if type(obj).__module__.endswith("_v1") else m["M0"]
    table = KINDS1 if mod is m["M1"] else KINDS0
    for k, cn in table.items():
        if type(obj) is getattr(mod, cn):
            return k
    return type(obj).__name__


# ------------------------------------------------------------------ value <-> JSON <-> python objects
def mk_frac(j):
    U = mods()["U"]
    if isinstance(j, dict):
        parts = [U.FractionalSymbolicDuration(*c) for c in j["add"]]
        return sum(parts)
    return U.FractionalSymbolicDuration(*j)


def mk_key(j):
    U = mods()["U"]
    return U.MatchKeySignature(fifths=j["f"], mode=j["m"], fifths_alt=j.get("fa"), mode_alt=j.get("ma"),
                               other_components=[mk_key(o) for o in j.get("others", [])])


def mk_tsig(j):
    U = mods()["U"]
    return U.MatchTimeSignature(j["n"], j["d"], [mk_frac(o) for o in j.get("others", [])])


def mk_value(codec, j):
    U = mods()["U"]
    if codec == "frac":
        return mk_frac(j)
    if codec == "key":
        return mk_key(j)
    if codec == "tsig":
        return mk_tsig(j)
    if codec == "version":
        return U.Version(*j)
    if codec == "tempo":
        return U.MatchTempoIndication(j)
    return j


def frac_tuple(c):
    return (int(c[0]), int(c[1]), None if c[2] is None else int(c[2]))


def canon(x):
    """canonical text of a field value (the Lean driver prints the same)"""
    import numpy as np
    U = mods()["U"]
    if x is None:
        return "-"
    if isinstance(x, U.Version):
        return "V(%d,%d,%d)" % tuple(x)
    if isinstance(x, (bool, np.bool_)):
        return "B%d" % int(x)
    if isinstance(x, (int, np.integer)):
        return "%d" % int(x)
    if isinstance(x, (float, np.floating)):
        x = float(x)
        if x != x or x in (float("inf"), float("-inf")):
            return "nan"
        return "D" + W.q(Fraction(repr(x)))
    if isinstance(x, str):
        return "S" + ws(x)
    if isinstance(x, U.FractionalSymbolicDuration):
        ac = x.add_components
        return "F(%d,%d,%s,%s)" % (
            int(x.numerator), int(x.denominator), "-" if x.tuple_div is None else "%d" % int(x.tuple_div),
            "-" if ac is None else "[" + ",".join("(%d,%d,%s)" % (c[0], c[1], "-" if c[2] is None else "%d" % c[2])
                                                  for c in map(frac_tuple, ac)) + "]")
    if isinstance(x, U.MatchKeySignature):
        return "K(%s,%s,%s,%s,[%s])" % (canon_i(x.fifths), x.mode, canon_i(x.fifths_alt), x.mode_alt or "-",
                                        ",".join(canon(o) for o in x.other_components))
    if isinstance(x, U.MatchTimeSignature):
        return "T(%d,%d,[%s])" % (int(x.numerator), int(x.denominator), ",".join(canon(o) for o in x.other_components))
    if isinstance(x, U.MatchTempoIndication):
        return "P" + ws(x.value)
    if isinstance(x, (list, tuple)):
        return "[" + ",".join(canon(v) for v in x) + "]"
    return "?" + type(x).__name__


def canon_i(x):
    return "-" if x is None else "%d" % int(x)


def wire_frac(x):
    """request tokens of a FractionalSymbolicDuration object"""
    ac = x.add_components
    t = ["%d" % int(x.numerator), "%d" % int(x.denominator), "-" if x.tuple_div is None else "%d" % int(x.tuple_div)]
    if ac is None:
        t.append("-")
    else:
        t.append("%d" % len(ac))
        for c in map(frac_tuple, ac):
            t += ["%d" % c[0], "%d" % c[1], "-" if c[2] is None else "%d" % c[2]]
    return t


def wire_key1(x):
    return ["%d" % int(x.fifths), x.mode, canon_i(x.fifths_alt), x.mode_alt or "-"]


def wire_val(x):
    """request tokens of a python field value (self-describing)"""
    import numpy as np
    U = mods()["U"]
    if x is None:
        return ["N"]
    if isinstance(x, U.Version):
        return ["V"] + ["%d" % v for v in x]
    if isinstance(x, (int, np.integer)):
        return ["I", "%d" % int(x)]
    if isinstance(x, (float, np.floating)):
        return ["D", W.q(Fraction(repr(float(x))))]
    if isinstance(x, str):
        return ["S", ws(x)]
    if isinstance(x, U.FractionalSymbolicDuration):
        return ["F"] + wire_frac(x)
    if isinstance(x, U.MatchKeySignature):
        t = ["K"] + wire_key1(x) + ["%d" % len(x.other_components)]
        for o in x.other_components:
            t += wire_key1(o)
        return t
    if isinstance(x, U.MatchTimeSignature):
        t = ["T", "%d" % int(x.numerator), "%d" % int(x.denominator), "%d" % len(x.other_components)]
        for o in x.other_components:
            t += wire_frac(o)
        return t
    if isinstance(x, U.MatchTempoIndication):
        return ["P", ws(x.value)]
    if isinstance(x, (list, tuple)):
        if all(isinstance(v, (int, np.integer)) for v in x) and len(x) > 0:
            return ["J", "%d" % len(x)] + ["%d" % int(v) for v in x]
        if all(isinstance(v, str) for v in x):
            return ["L", "%d" % len(x)] + [ws(v) for v in x]
    raise ValueError("no wire form for %r" % (x,))


def model_ok_value(x):
    """values the model covers: every duration whose integers are exactly representable in binary64 and whose
    denominators are non-zero (bound_integers itself is modelled), decimals with at most 15 significant digits"""
    U = mods()["U"]
    if isinstance(x, U.FractionalSymbolicDuration):
        comps = [frac_tuple(c) for c in (x.add_components or [])]
        nums = [int(x.numerator), int(x.denominator)] + [v for c in comps for v in c[:2]]
        if any(v < 0 or v >= 2 ** 40 for v in nums):
            return False
        if int(x.denominator) == 0 or x.tuple_div == 0 or any(c[1] == 0 or c[2] == 0 for c in comps):
            return False
        return True
    if isinstance(x, U.MatchTimeSignature):
        return all(model_ok_value(o) for o in x.other_components)
    if isinstance(x, float):
        ax = abs(float(x))  # float(): a numpy scalar has another repr
        return x == x and ax < 1e15 and (ax == 0 or ax >= 1e-4) and len(repr(ax).replace(".", "").lstrip("0")) <= 15
    return True


# ------------------------------------------------------------------ the bound of symbolic durations (independent reading)
FBOUND = 1024  # the documented bound: numerators and denominators up to AND INCLUDING 1024 are kept as they are


def expected_frac(j):
    """what the class must hold for the JSON description `j` of a duration, computed with plain integers, or None
    where the class deliberately approximates (some number or partial sum beyond the bound): canonical text"""
    from math import lcm
    if isinstance(j, dict):
        comps = [tuple(c) for c in j["add"]]
        if any(c[0] > FBOUND or c[1] > FBOUND or c[1] == 0 or c[2] == 0 for c in comps):
            return None
        n, dd = 0, 1
        for c in comps:  # sum(parts) = ((0 + p1) + p2) + ...
            dc = c[1] * (c[2] if c[2] is not None else 1)
            L = lcm(dd, dc)
            n = n * (L // dd) + c[0] * (L // dc)
            dd = L
            if n > FBOUND or dd > FBOUND:
                return None
        kept = [c for c in comps if c[0] != 0]
        return "F(%d,%d,-,[%s])" % (n, dd, ",".join("(%d,%d,%s)" % (c[0], c[1], "-" if c[2] is None else "%d" % c[2])
                                                  for c in kept))
    n, dd, t = j
    if n > FBOUND or dd > FBOUND:
        return None
    return "F(%d,%d,%s,-)" % (n, dd, "-" if t is None else "%d" % t)


def frac_descs(f, pre=""):
    """(field name, JSON description) of every duration in the JSON field values of a line"""
    for k, v in f.items():
        if k in ("snote", "stime") and isinstance(v, dict):
            yield from frac_descs(v, k + ".")
        elif k in ("Offset", "Duration") and (isinstance(v, dict) or (isinstance(v, list) and len(v) == 3)):
            yield pre + k, v


# ------------------------------------------------------------------ building line objects
def codec_of_info(ver, attr, v1):
    """logical value type of an info/scoreprop/meta attribute (for building values from JSON)"""
    m = mods()
    U = m["U"]
    if v1 == "info1":
        tab = m["M1"].INFO_LINE[U.Version(*ver)]
    elif v1 == "scoreprop":
        tab = m["M1"].SCOREPROP_LINE[U.Version(*ver)]
    elif v1 == "meta":
        tab = m["M0"].META_LINE[U.Version(*ver)]
    else:
        tab = m["M0"].INFO_LINE[U.Version(*ver)]
    interp, fmt, typ = tab[attr]
    name = {U.interpret_version: "version", U.interpret_as_key_signature: "key",
            U.interpret_as_time_signature: "tsig", U.interpret_as_tempo_indication: "tempo"}.get(interp, "plain")
    return name, fmt, typ


def build(kind, ver, f):
    """construct the live line object of `kind`/`ver` from JSON field values"""
    m = mods()
    U = m["U"]
    v = U.Version(*ver)
    one = tuple(ver) >= (1, 0, 0)
    M = m["M1"] if one else m["M0"]
    if kind == "info":
        codec, fmt, typ = codec_of_info(ver, f["Attribute"], "info1" if one else "info0")
        return M.MatchInfo(version=v, attribute=f["Attribute"], value=mk_value(codec, f["Value"]), value_type=typ,
                           format_fun=fmt)
    if kind == "meta":
        codec, fmt, typ = codec_of_info(ver, f["Attribute"], "meta")
        return M.MatchMeta(version=v, attribute=f["Attribute"], value=mk_value(codec, f["Value"]), value_type=typ,
                           format_fun=fmt, measure=f["Measure"], time_in_beats=f["TimeInBeats"])
    if kind == "scoreprop":
        codec, fmt, typ = codec_of_info(ver, f["Attribute"], "scoreprop")
        return M.MatchScoreProp(version=v, attribute=f["Attribute"], value=mk_value(codec, f["Value"]), value_type=typ,
                                format_fun=fmt, measure=f["Measure"], beat=f["Beat"], offset=mk_frac(f["Offset"]),
                                time_in_beats=f["TimeInBeats"])
    if kind == "section":
        return M.MatchSection(version=v, start_in_beats_unfolded=f["StartInBeatsUnfolded"],
                              end_in_beats_unfolded=f["EndInBeatsUnfolded"],
                              start_in_beats_original=f["StartInBeatsOriginal"],
                              end_in_beats_original=f["EndInBeatsOriginal"], repeat_end_type=f["RepeatEndType"])
    if kind == "stime":
        return M.MatchStime(version=v, measure=f["Measure"], beat=f["Beat"], offset=mk_frac(f["Offset"]),
                            onset_in_beats=f["OnsetInBeats"], annotation_type=f["AnnotationType"])
    if kind == "ptime":
        return M.MatchPtime(version=v, onsets=f["Onsets"])
    if kind == "stime_ptime":
        return M.MatchStimePtime(version=v, stime=build("stime", ver, f["stime"]), ptime=build("ptime", ver, f["ptime"]))
    if kind == "snote":
        return M.MatchSnote(version=v, anchor=f["Anchor"], note_name=f["NoteName"], modifier=f["Modifier"],
                            octave=f["Octave"], measure=f["Measure"], beat=f["Beat"], offset=mk_frac(f["Offset"]),
                            duration=mk_frac(f["Duration"]), onset_in_beats=f["OnsetInBeats"],
                            offset_in_beats=f["OffsetInBeats"], score_attributes_list=f["ScoreAttributesList"])
    if kind == "note":
        if one:
            return M.MatchNote(version=v, id=f["Id"], midi_pitch=f["MidiPitch"], onset=f["Onset"], offset=f["Offset"],
                               velocity=f["Velocity"], channel=f["Channel"], track=f["Track"])
        kw = {}
        if "AdjOffset" in f:
            kw["adj_offset"] = f["AdjOffset"]
        return M.MatchNote(version=v, id=f["Id"], note_name=f["NoteName"], modifier=f["Modifier"], octave=f["Octave"],
                           onset=f["Onset"], offset=f["Offset"], velocity=f["Velocity"], **kw)
    if kind == "snote_note":
        return M.MatchSnoteNote(version=v, snote=build("snote", ver, f["snote"]), note=build("note", ver, f["note"]))
    if kind in ("deletion", "trailing_score", "no_played"):
        cls = getattr(M, (KINDS1 if one else KINDS0)[kind])
        return cls(version=v, snote=build("snote", ver, f["snote"]))
    if kind in ("insertion", "hammer_bounce", "trailing_played"):
        cls = getattr(M, (KINDS1 if one else KINDS0)[kind])
        return cls(version=v, note=build("note", ver, f["note"]))
    if kind == "trill":
        return M.MatchTrillNote(version=v, anchor=f["Anchor"], note=build("note", ver, f["note"]))
    if kind == "ornament":
        return M.MatchOrnamentNote(version=v, anchor=f["Anchor"], ornament_type=f["OrnamentType"],
                                   note=build("note", ver, f["note"]))
    if kind in ("sustain", "soft"):
        cls = getattr(M, (KINDS1 if one else KINDS0)[kind])
        return cls(version=v, time=f["Time"], value=f["Value"])
    raise ValueError(kind)


def has_float(f):
    if isinstance(f, dict):
        return any(has_float(v) for v in f.values())
    if isinstance(f, list):
        return any(has_float(v) for v in f)
    return isinstance(f, float)


def npify(f):
    """the same JSON field values with every Python float replaced by the equal numpy.float64 scalar"""
    import numpy as np
    if isinstance(f, dict):
        return {k: npify(v) for k, v in f.items()}
    if isinstance(f, list):
        return [npify(v) for v in f]
    if isinstance(f, float):
        return np.float64(f)
    return f


def given_leaves(kind, f, pre=""):
    """(field name, given plain value) of the JSON field values a line is constructed from: numbers, strings, None and
    flat lists of them (durations and interpreted info values have their own clauses)"""
    fr = set(n for n, _ in frac_descs(f))
    for k, v in f.items():
        if k in ("snote", "note", "stime", "ptime") and isinstance(v, dict):
            for n, x in given_leaves(k, v, k + "."):
                yield n, x
        elif isinstance(v, dict) or k in fr or (k == "Value" and kind in ("info", "meta", "scoreprop")):
            continue
        elif isinstance(v, list) and any(isinstance(x, (list, dict)) for x in v):
            continue
        else:
            yield pre + k, v


OLD_ALTER = {None: "-", 0: "n", 1: "#", -1: "b", 2: "x", -2: "bb"}


def note_text_v0(f):
    """the 0.3.0-0.5.0 performed-note text of the given field values, written from the format's definition:
    note(Id,[Name,accidental],octave,onset,offset,adjusted offset,velocity) - seven independent fields"""
    return "note(%s,[%s,%s],%s,%d,%d,%d,%d)." % (
        f["Id"], f["NoteName"].upper(), OLD_ALTER[f["Modifier"]], "-" if f["Octave"] is None else "%d" % f["Octave"],
        f["Onset"], f["Offset"], f["AdjOffset"], f["Velocity"])


def cls_of(kind, ver):
    m = mods()
    one = tuple(ver) >= (1, 0, 0)
    return getattr(m["M1"] if one else m["M0"], (KINDS1 if one else KINDS0)[kind])


def parts_of(obj):
    """[(prefix, component object)] in field order; a plain line is its own single part"""
    k = kind_of(obj)
    if k == "snote_note":
        return [("snote.", obj.snote), ("note.", obj.note)]
    if k == "stime_ptime":
        return [("stime.", obj.stime), ("ptime.", obj.ptime)]
    if k in ("deletion", "trailing_score", "no_played"):
        return [("snote.", obj.snote)]
    if k in ("insertion", "hammer_bounce", "trailing_played"):
        return [("note.", obj.note)]
    if k in ("trill", "ornament"):
        return [("", _Head(obj)), ("note.", obj.note)]
    return [("", obj)]


class _Head:
    """the ornament(...)- head of an ornament / trill line seen as a component"""

    def __init__(self, o):
        self.field_names = tuple(fn for fn in ("Anchor", "OrnamentType") if hasattr(o, fn) and fn in o.field_names)
        for fn in self.field_names:
            setattr(self, fn, getattr(o, fn))


def fields_of(obj):
    """ordered [(name, value)] of all fields of a line object (components prefixed)"""
    out = []
    for pre, o in parts_of(obj):
        for fn in o.field_names:
            out.append((pre + fn, getattr(o, fn)))
    return out


def canon_fields(obj):
    return " ".join(canon(v) for _, v in fields_of(obj))


def values_equal(a, b):
    import numpy as np
    U = mods()["U"]
    if isinstance(a, (list, tuple)) and isinstance(b, (list, tuple)):
        return len(a) == len(b) and all(values_equal(x, y) for x, y in zip(a, b))
    if isinstance(a, (float, np.floating)) and isinstance(b, (float, np.floating)):
        return float(a) == float(b)
    if type(a) in (U.FractionalSymbolicDuration, U.MatchKeySignature, U.MatchTimeSignature):
        return type(a) is type(b) and canon(a) == canon(b)
    if isinstance(a, U.MatchTempoIndication):
        return isinstance(b, U.MatchTempoIndication) and a.value == b.value
    if a is None or b is None:
        return a is None and b is None
    if isinstance(a, (list, tuple)) or isinstance(b, (list, tuple)):
        return False
    try:
        return bool(a == b) and (isinstance(a, str) == isinstance(b, str))
    except Exception:
        return False


def rational_total(obj, name, a, b):
    """versions < 0.3.0 write durations as one rational ("a/b"): an additive duration whose total is an
    integer is written as `total/1`, which is all that version's notation can hold - equal value suffices"""
    U = mods()["U"]
    if not isinstance(a, U.FractionalSymbolicDuration) or not isinstance(b, U.FractionalSymbolicDuration):
        return False
    part = obj
    if "." in name:
        part = getattr(obj, name.split(".")[0])
        name = name.split(".")[1]
    if getattr(part, "format_fun", {}).get(name) is not U.format_fractional_rational:
        return False
    return (a.add_components is not None and int(a.denominator) == 1 and a.tuple_div is None
            and frac_value(a) == frac_value(b))


def call(fn, *a, **kw):
    buf = io.StringIO()
    try:
        with contextlib.redirect_stdout(buf):
            return fn(*a, **kw), None
    except BaseException as e:
        if isinstance(e, (KeyboardInterrupt, SystemExit)):
            raise
        return None, e


def errtok(e):
    return "err:match" if type(e).__name__ == "MatchError" else "err:value"


# ------------------------------------------------------------------ generators
def g_ident(rng):
    r = rng.random()
    if r < 0.25:
        return "n%d" % rng.randint(0, 9999)
    if r < 0.4:
        return "%d-%d" % (rng.randint(1, 300), rng.randint(1, 9))
    if r < 0.5:
        return "%d" % rng.randint(0, 5000)
    n = rng.randint(1, 8)
    s = "".join(rng.choice(IDCH + "_.#+") for _ in range(n))
    if rng.random() < 0.2 and n > 1:
        i = rng.randint(1, n - 1)
        s = s[:i] + "-" + s[i:]
    if s == "-":
        s = "a"
    return s


def g_simple(rng, allow_div=True):
    if rng.random() < 0.05:
        return g_bsimple(rng, allow_div)
    d = rng.choice(DENS)
    n = rng.choice([0, 1, 1, 1, 2, 3, 5, 7, rng.randint(0, 64)])
    t = rng.choice([None, None, None, 3, 5, 6, 7]) if allow_div else None
    return [n, d, t]


BNDS = [1023, 1024, 1025]


def g_bsimple(rng, allow_div=True):
    """a simple duration at the bound of the class (1024): numerator or denominator 1023 / 1024 / 1025, or far beyond"""
    t = rng.choice([None, None, 3]) if allow_div else None
    r = rng.random()
    if r < 0.4:
        return [rng.choice([1, 3, 5, 7] + BNDS), rng.choice([512, 2048] + BNDS * 2), t]
    if r < 0.7:
        return [rng.choice(BNDS), rng.choice([1, 3, 236, 1024]), t]
    if r < 0.85:
        return [rng.randint(1, 3000), rng.randint(1, 3000), t]
    return [rng.randint(1000, 50000), rng.choice([3, 7, 960, 2048, 4000, rng.randint(1, 10 ** 6)]), t]


def g_bfrac(rng):
    """durations at the bound: simple ones, and sums whose common denominator / summed numerator is exactly 1024,
    just below or just beyond"""
    r = rng.random()
    if r < 0.5:
        return g_bsimple(rng)
    if r < 0.75:
        d2 = rng.choice(BNDS)
        comps = [[rng.choice([1, 3]), rng.choice([256, 512, 2, 4]), None], [rng.choice([1, 3, 5]), d2, None]]
        if rng.random() < 0.3:
            comps.append([1, rng.choice([2, 4, 1024]), None])
        return {"add": comps}
    if r < 0.9:
        a = rng.randint(1, 1022)
        d = rng.choice([1, 3, 7])
        return {"add": [[a, d, None], [rng.choice(BNDS) - a, d, None]]}
    c = g_simple(rng)
    c[0] = c[0] or 1  # (a zero part is dropped by the class: the sum would be re-read as a simple duration)
    return {"add": [g_bsimple(rng), c]}


def g_frac(rng, big=False):
    r = rng.random()
    if big and r < 0.5:
        return [rng.randint(1000, 5000), rng.choice([3, 7, 960, 1024, 1025, 2048, 4000]), rng.choice([None, 3])]
    if rng.random() < 0.06:
        return g_bfrac(rng)
    if r < 0.25:
        comps = []
        for _ in range(rng.randint(2, 4)):
            c = g_simple(rng)
            if c[0] == 0:
                c[0] = 1
            comps.append(c)
        return {"add": comps}
    return g_simple(rng)


def g_float(rng, dec):
    return _g_float(rng, dec) + 0.0  # never -0.0 (its sign is not part of the value the model carries)


def _g_float(rng, dec):
    """float for a field formatted with `dec` decimals (dec None = repr): mostly representable, some boundaries"""
    r = rng.random()
    sign = rng.choice([1, 1, 1, -1])
    if dec is None:
        if r < 0.5:
            return sign * rng.randint(0, 4000) / rng.choice([1, 2, 4, 8, 16, 3, 6, 12, 5, 10, 1000])
        if r < 0.8:
            return float("%s%d.%0*d" % ("-" if sign < 0 else "", rng.randint(0, 999), rng.randint(1, 6),
                                        rng.randint(0, 999)))
        return float(sign * rng.randint(0, 500))
    if r < 0.55:
        return float("%s%d.%0*d" % ("-" if sign < 0 else "", rng.randint(0, 2000), dec, rng.randint(0, 10 ** dec - 1)))
    if r < 0.7:
        # boundary: representable value +/- half a unit in the last place (x.00005)
        k = rng.randint(0, 10 ** (dec + 2))
        return sign * (k + 0.5) / 10 ** dec
    if r < 0.8:
        # exact binary ties: odd multiples of 2^-(dec+1) are ties at `dec` decimals
        return sign * (2 * rng.randint(0, 4000) + 1) / 2 ** (dec + 1)
    if r < 0.9:
        return sign * rng.randint(0, 4000) / rng.choice([3, 6, 7, 12, 24])
    return float(sign * rng.randint(0, 500))


def g_attrs(rng, pool=ATTR_POOL, minlen=0):
    n = rng.choice([0, 1, 1, 2, 2, 3, 4, 5, 6])
    n = max(n, minlen)
    return [rng.choice(pool) if rng.random() < 0.85 else g_word(rng) for _ in range(n)]


def g_word(rng):
    return "".join(rng.choice("abcdefghijklmnopqrstuvwxyz") for _ in range(rng.randint(1, 7)))


def snote_dec(ver):
    ver = tuple(ver)
    if ver >= (1, 0, 0):
        return 4
    if ver < (0, 3, 0):
        return 5
    return None


def g_snote(rng, ver):
    dec = snote_dec(ver)
    rest = rng.random() < 0.12
    on = g_float(rng, dec)
    f = {"Anchor": g_ident(rng),
         "NoteName": "R" if rest else rng.choice(STEPS),
         "Modifier": None if rest else rng.choice([None, 0, 0, 1, -1, 2, -2]),
         "Octave": None if rest else rng.choice([-1, 0, 1, 2, 3, 4, 5, 6, 7, 8, 9]),
         "Measure": rng.choice([0, 1, 2, rng.randint(0, 400)]),
         "Beat": rng.randint(1, 12),
         "Offset": g_frac(rng), "Duration": g_frac(rng, big=rng.random() < 0.04),
         "OnsetInBeats": on, "OffsetInBeats": g_float(rng, dec),
         "ScoreAttributesList": g_attrs(rng)}
    return f


def g_note(rng, ver):
    ver = tuple(ver)
    if ver >= (1, 0, 0):
        on = rng.randint(0, 10 ** rng.randint(2, 7))
        return {"Id": g_ident(rng), "MidiPitch": rng.randint(0, 127), "Onset": on, "Offset": on + rng.randint(0, 5000),
                "Velocity": rng.randint(0, 127), "Channel": rng.randint(0, 16), "Track": rng.randint(0, 8)}
    f = {"Id": g_ident(rng), "NoteName": rng.choice(STEPS), "Modifier": rng.choice([None, 0, 0, 1, -1, 2, -2]),
         "Octave": rng.choice([-1, 0, 1, 2, 3, 4, 5, 6, 7, 8, 9])}
    if ver < (0, 3, 0):
        f["Onset"] = g_float(rng, 2)
        f["Offset"] = g_float(rng, 2)
    else:
        on = rng.randint(0, 10 ** rng.randint(2, 7))
        f["Onset"] = on
        f["Offset"] = on + rng.randint(0, 5000)
        # AdjOffset is an INDEPENDENT tick field of the line: equal, later (pedal) and EARLIER than Offset, even than Onset
        f["AdjOffset"] = rng.choice([f["Offset"], f["Offset"] + rng.randint(0, 3000), f["Offset"] + rng.randint(0, 3000),
                                     max(0, f["Offset"] - rng.randint(1, 5000)), max(0, f["Offset"] - 1),
                                     rng.randint(0, 10 ** rng.randint(1, 7))])
    f["Velocity"] = rng.randint(0, 127)
    return f


def g_key(rng, fmt, others_ok):
    def one(alt_ok):
        k = {"f": rng.randint(-7, 7), "m": rng.choice(["major", "minor"])}
        if alt_ok and rng.random() < 0.5:
            k["fa"] = rng.randint(-7, 7)
            k["ma"] = rng.choice(["major", "minor"])
        return k

    alt_ok = fmt != "v0.1.0"
    k = one(alt_ok)
    if others_ok and rng.random() < 0.3:
        k["others"] = [one(alt_ok) for _ in range(rng.randint(1, 3))]
    return k


def g_tsig(rng, others_ok):
    t = {"n": rng.choice([1, 2, 3, 4, 5, 6, 7, 9, 12, rng.randint(1, 32)]), "d": rng.choice([1, 2, 4, 8, 16, 32])}
    if others_ok and rng.random() < 0.3:
        t["others"] = [[rng.choice([2, 3, 4, 6]), rng.choice([2, 4, 8]), None] if rng.random() < 0.9 else g_bsimple(rng, False)
                       for _ in range(rng.randint(1, 4))]
    return t


def g_text(rng):
    r = rng.random()
    if r < 0.4:
        return g_ident(rng)
    words = [rng.choice(["Sonata", "K.", "331", "op10", "no3", "W. A. Mozart", "(live)", "a,b", "x.mid", "it's",
                         "Frèdéryk", "[take 2]", "1:2", "p01"]) for _ in range(rng.randint(1, 4))]
    return " ".join(words)


INFO_STR = ["piece", "scoreFileName", "scoreFilePath", "midiFileName", "midiFilePath", "audioFileName", "audioFilePath",
            "performer", "composer"]
INFO_FLOAT = ["audioFirstNote", "audioLastNote", "approximateTempo"]
INFO_INT = ["midiClockUnits", "midiClockRate"]


def g_info(rng, ver, attr=None):
    ver = tuple(ver)
    one = ver >= (1, 0, 0)
    m = mods()
    tab = (m["M1"].INFO_LINE if one else m["M0"].INFO_LINE)[m["U"].Version(*ver)]
    attr = attr or rng.choice(sorted(tab))
    if attr == "matchFileVersion":
        val = list(ver)
    elif attr in INFO_STR or attr in ("midiFilename", "partSequence") or (attr == "subtitle" and one):
        val = g_text(rng)
    elif attr in INFO_FLOAT:
        val = abs(g_float(rng, 4 if one else None))
    elif attr in INFO_INT:
        val = rng.choice([480, 4000, 500000, rng.randint(1, 10 ** 6)])
    elif attr == "keySignature":
        fmt = "v0.1.0" if ver < (0, 3, 0) else "v0.3.0"
        val = g_key(rng, fmt, others_ok=ver >= (0, 3, 0))
    elif attr == "timeSignature":
        val = g_tsig(rng, others_ok=ver >= (0, 4, 0))
    elif attr in ("beatSubDivision", "beatSubdivision"):
        val = ["%d" % rng.choice([1, 2, 3, 4, 6]) for _ in range(rng.randint(1, 3))]
    else:  # subtitle (v0), tempoIndication, mergedFrom: list of words
        val = g_attrs(rng, pool=["lento", "ma", "non", "troppo", "allegro", "a1", "b2"])
    return {"Attribute": attr, "Value": val}


def g_scoreprop(rng, attr=None):
    attr = attr or rng.choice(["timeSignature", "keySignature", "tempoIndication", "beatSubDivision", "directions"])
    if attr == "timeSignature":
        val = g_tsig(rng, False)
    elif attr == "keySignature":
        val = g_key(rng, "v1.0.0", False)
    elif attr == "tempoIndication":
        val = rng.choice(["Allegro", "Lento ma non troppo", "Andante", g_word(rng)])
    elif attr == "beatSubDivision":
        val = [rng.choice([1, 2, 3, 4, 6]) for _ in range(rng.randint(1, 3))]
    else:
        val = g_attrs(rng, pool=["Allegro", "rit", "p", "ff", "cresc", "a tempo"], minlen=1)
    return {"Attribute": attr, "Value": val, "Measure": rng.randint(0, 300), "Beat": rng.randint(1, 12),
            "Offset": g_simple(rng), "TimeInBeats": g_float(rng, 4)}


def g_fields(rng, kind, ver):
    ver = tuple(ver)
    if kind == "info":
        return g_info(rng, ver)
    if kind == "meta":
        attr = rng.choice(["timeSignature", "keySignature"])
        val = g_tsig(rng, False) if attr == "timeSignature" else g_key(rng, "v0.3.0", False)
        return {"Attribute": attr, "Value": val, "Measure": rng.randint(0, 300), "TimeInBeats": g_float(rng, None)}
    if kind == "scoreprop":
        return g_scoreprop(rng)
    if kind == "section":
        return {"StartInBeatsUnfolded": g_float(rng, 4), "EndInBeatsUnfolded": g_float(rng, 4),
                "StartInBeatsOriginal": g_float(rng, 4), "EndInBeatsOriginal": g_float(rng, 4),
                "RepeatEndType": g_attrs(rng, pool=["end", "repeat", "volta", "fine", "dacapo"])}
    if kind == "stime":
        return {"Measure": rng.randint(0, 300), "Beat": rng.randint(1, 12), "Offset": g_frac(rng),
                "OnsetInBeats": g_float(rng, 4), "AnnotationType": g_attrs(rng, pool=ANNOT_POOL)}
    if kind == "ptime":
        return {"Onsets": [rng.randint(0, 10 ** 6) for _ in range(rng.randint(1, 5))]}
    if kind == "stime_ptime":
        return {"stime": g_fields(rng, "stime", ver), "ptime": g_fields(rng, "ptime", ver)}
    if kind == "snote":
        return g_snote(rng, ver)
    if kind == "note":
        return g_note(rng, ver)
    if kind == "snote_note":
        return {"snote": g_snote(rng, ver), "note": g_note(rng, ver)}
    if kind in ("deletion", "trailing_score", "no_played"):
        return {"snote": g_snote(rng, ver)}
    if kind in ("insertion", "hammer_bounce", "trailing_played"):
        return {"note": g_note(rng, ver)}
    if kind == "trill":
        return {"Anchor": g_ident(rng), "note": g_note(rng, ver)}
    if kind == "ornament":
        return {"Anchor": g_ident(rng), "OrnamentType": g_attrs(rng, pool=["trill", "mordent", "turn", "grace"]),
                "note": g_note(rng, ver)}
    if kind in ("sustain", "soft"):
        return {"Time": rng.randint(0, 10 ** 7), "Value": rng.randint(0, 127)}
    raise ValueError(kind)


TOP0 = ["snote_note", "deletion", "trailing_score", "no_played", "insertion", "hammer_bounce", "trailing_played", "trill",
        "sustain", "soft"]
TOP1 = ["snote_note", "deletion", "insertion", "ornament", "sustain", "soft", "section", "stime_ptime"]
JUNK = ["", "wrong_line", "snote(", "note(a,b)", "% comment", "info(a)", "xyz(1,2).", "", "sustain(1)"]


def uniq_ids(f, kind, i):
    """distinct anchors / ids per file (load_matchfile prunes deletions / insertions with repeated ids)"""
    f = dict(f)
    if "snote" in f:
        f["snote"] = dict(f["snote"], Anchor="s%d-%d" % (i, i % 7 + 1))
    if "note" in f:
        f["note"] = dict(f["note"], Id="p%d" % i)
    return f


def g_mfile(rng, ver):
    """a complete match file of version `ver`: header info lines, then a shuffled body of all top-level kinds,
    with some empty, unparseable and repeated lines thrown in"""
    ver = tuple(ver)
    one = ver >= (1, 0, 0)
    m = mods()
    tab = (m["M1"].INFO_LINE if one else m["M0"].INFO_LINE)[m["U"].Version(*ver)]
    head = []
    # the version line: versions < 0.2.0 may lack it; pre-1.0 files also spell it "minor.patch"
    vmode = rng.choice(["full", "full", "short"]) if not one else "full"
    if ver == (0, 1, 0) and rng.random() < 0.5:
        vmode = "none"
    if vmode != "none":
        head.append({"kind": "info", "f": {"Attribute": "matchFileVersion", "Value": list(ver)}, "short": vmode == "short"})
    attrs = [a for a in sorted(tab) if a != "matchFileVersion"]
    rng.shuffle(attrs)
    for a in attrs[:rng.randint(2, 6)]:
        head.append({"kind": "info", "f": g_info(rng, ver, a)})
    if vmode == "none" and rng.random() < 0.5:
        rng.shuffle(head)  # any info line of the version may come first
    body = []
    if one:
        for a in ["timeSignature", "keySignature"] + rng.sample(["tempoIndication", "beatSubDivision", "directions"], 1):
            body.append({"kind": "scoreprop", "f": g_scoreprop(rng, a)})
    elif ver >= (0, 3, 0):
        for _ in range(2):
            body.append({"kind": "meta", "f": g_fields(rng, "meta", ver)})
    kinds = TOP1 if one else TOP0
    i = 0
    for _ in range(rng.randint(12, 28)):
        k = rng.choice(kinds + ["snote_note"] * 3)
        i += 1
        body.append({"kind": k, "f": uniq_ids(g_fields(rng, k, ver), k, i)})
    if rng.random() < 0.4:
        # repeated ids (validate_match_ids): a deletion / insertion shares its score-note / performed-note id with a
        # note pair, with another deletion / insertion, with an ornament
        with_s = [l for l in body if "snote" in l.get("f", {})]
        with_n = [l for l in body if "note" in l.get("f", {})]
        for pool, part, fld in ((with_s, "snote", "Anchor"), (with_n, "note", "Id")):
            for _ in range(rng.randint(1, 3)):
                if len(pool) >= 2:
                    a, b = rng.sample(pool, 2)
                    b["f"] = dict(b["f"], **{part: dict(b["f"][part], **{fld: a["f"][part][fld]})})
    for _ in range(rng.randint(0, 3)):
        body.append({"raw": rng.choice(JUNK)})
    for _ in range(rng.randint(0, 2)):
        body.append(dict(rng.choice(body)))  # a repeated line
    rng.shuffle(body)
    lines = head + body
    if rng.random() < 0.2:
        lines = [{"raw": ""}] + lines  # an empty first line
    return {"k": "mfile", "ver": list(ver), "lines": lines}


HIST_T = ("snote_note", "deletion", "trailing_score", "no_played", "insertion", "hammer_bounce", "trailing_played", "trill",
          "sustain", "soft")


def g_hist(rng):
    """a HISTORY over several line objects alive in one process: 3-7 lines - one kind in two to four different format
    versions plus lines of other kinds / versions -, created by the constructor, by from_matchline or by
    parse_matchline in one order, some converted with to_v1, and written in another order (an earlier-built line
    written after a line of another version was constructed; every line written twice)"""
    classes = all_classes()
    focus = rng.choice(["snote", "snote", "snote_note", "deletion", "note", "insertion", "info", "sustain", "trill",
                        "no_played", "trailing_score", "meta", "soft"])
    vers = [v for k, v in classes if k == focus]
    rng.shuffle(vers)
    lines = [{"kind": focus, "ver": list(v)} for v in vers[:rng.randint(2, 4)]]
    if rng.random() < 0.5 and focus in KINDS1:
        lines.append({"kind": focus, "ver": list(V1)})
    for _ in range(rng.randint(1, 3)):
        k, v = rng.choice(classes)
        lines.append({"kind": k, "ver": list(v)})
    rng.shuffle(lines)
    for l in lines:
        l["f"] = g_fields(rng, l["kind"], tuple(l["ver"]))
    ops, slots = [], 0
    for i, l in enumerate(lines):
        top = l["kind"] not in ("snote", "note", "stime", "ptime")
        ops.append([rng.choice(["B", "B", "P", "D"] if top else ["B", "B", "P"]), i])
        slots += 1
        if rng.random() < 0.25 and slots > 1:
            ops.append(["W", rng.randrange(slots)])
    for i, l in enumerate(lines):
        if tuple(l["ver"]) < V1 and l["kind"] in HIST_T and rng.random() < 0.3:
            ops.append(["T", i])
            slots += 1
    order = list(range(slots)) + [rng.randrange(slots) for _ in range(rng.randint(1, 4))]
    rng.shuffle(order)
    ops += [["W", j] for j in order]
    return {"k": "hist", "lines": lines, "ops": ops}


def all_classes():
    out = []
    for ver in VERS0:
        for k in KINDS0:
            if k == "meta" and ver < (0, 3, 0):
                continue
            out.append((k, ver))
    for k in KINDS1:
        out.append((k, V1))
    return out


def match_files():
    repo = os.environ.get("VERIF_REPO", "/repo")
    return sorted(glob.glob(os.path.join(repo, "tests", "data", "match", "*.match")))


def cases(rng, tier):
    n = {"quick": 50, "thorough": 2000, "search": 400}.get(tier, 50)
    # exhaustive small domains first
    for ver in VERS0 + [V1]:
        for fmt in (["v0.1.0", "v0.3.0", "v1.0.0"]):
            for f in range(-7, 8):
                for mode in ("major", "minor"):
                    yield {"k": "key", "f": f, "m": mode, "fmt": fmt}
        break
    for ver in VERS0 + [V1]:
        for st in STEPS:
            for al in (None, 0, 1, -1, 2, -2):
                for oc in (-1, 0, 4, 9):
                    f = g_snote(rng, ver)
                    f.update(NoteName=st, Modifier=al, Octave=oc)
                    yield {"k": "line", "kind": "snote", "ver": list(ver), "f": f}
        m = mods()
        one = ver >= (1, 0, 0)
        tab = (m["M1"].INFO_LINE if one else m["M0"].INFO_LINE)[m["U"].Version(*ver)]
        for attr in sorted(tab):
            for _ in range(3):
                yield {"k": "line", "kind": "info", "ver": list(ver), "f": g_info(rng, ver, attr)}
    for attr in ["timeSignature", "keySignature", "tempoIndication", "beatSubDivision", "directions"]:
        for _ in range(4):
            yield {"k": "line", "kind": "scoreprop", "ver": list(V1), "f": g_scoreprop(rng, attr)}
    for kind, ver in all_classes():
        for i in range(n):
            d = {"k": "line", "kind": kind, "ver": list(ver), "f": g_fields(rng, kind, ver)}
            if i % 5 == 4 and has_float(d["f"]):
                # the same line CONSTRUCTED from numpy floating scalars (a beat time taken from an array): np.float64 is
                # a float, the constructors accept it, and the written text must be the one of the equal Python float
                d["np"] = 1
            yield d
    # the bound of symbolic durations: every numerator / denominator at 1023, 1024, 1025 (and beyond), sums whose
    # common denominator or summed numerator is exactly the bound - alone, added, and inside every line kind / version
    # that carries a duration
    BN = [1, 3, 1023, 1024, 1025, 2048]
    BD = [1, 3, 512, 1023, 1024, 1025, 2048]
    for bn in BN:
        for bd in BD:
            for bt in (None, 3):
                yield {"k": "frac", "a": [bn, bd, bt], "b": rng.choice([[1, 1024, None], [1, 512, None], [3, 1024, None],
                                                                        [1, 1023, None], [1, 3, None], [1, 1025, None]])}
    for a_, b_ in [([1, 512, None], [1, 1024, None]), ([3, 1024, None], [5, 1024, None]), ([1, 256, None], [1, 512, None]),
                   ([1000, 3, None], [24, 3, None]), ([1000, 3, None], [25, 3, None]), ([1, 1024, None], [1, 1025, None]),
                   ([1, 513, None], [1, 2, None]), ([1, 512, 2], [1, 4, None]), ([512, 1, None], [512, 1, None]),
                   ([2000, 0, None], [1, 4, None]), ([0, 2048, None], [1, 4, None]), ([0, 1, None], [0, 4, 3])]:
        yield {"k": "frac", "a": a_, "b": b_}
    bfr = [[1, 1024, None], [3, 1024, None], [5, 1024, 3], [1024, 3, None], [1023, 1024, None], [1, 1025, None],
           {"add": [[1, 512, None], [1, 1024, None]]}, {"add": [[3, 1024, None], [5, 1024, None]]},
           {"add": [[1000, 3, None], [24, 3, None]]}]
    for ver in VERS0 + [V1]:
        for i, bf in enumerate(bfr):
            f = g_snote(rng, ver)
            f.update(Duration=bf, Offset=bfr[(i + 3) % len(bfr)])
            yield {"k": "line", "kind": "snote", "ver": list(ver), "f": f}
            f = g_fields(rng, "snote_note" if i % 2 else "deletion", ver)
            f["snote"].update(Duration=bfr[(i + 1) % len(bfr)], Offset=bf)
            yield {"k": "line", "kind": "snote_note" if i % 2 else "deletion", "ver": list(ver), "f": f}
    for bf in bfr:
        f = g_fields(rng, "stime", V1)
        f["Offset"] = bf
        yield {"k": "line", "kind": "stime", "ver": list(V1), "f": f}
        if isinstance(bf, list):
            f = g_scoreprop(rng)
            f["Offset"] = bf
            yield {"k": "line", "kind": "scoreprop", "ver": list(V1), "f": f}
            for ver in ((0, 4, 0), (0, 5, 0)):
                yield {"k": "line", "kind": "info", "ver": list(ver),
                       "f": {"Attribute": "timeSignature", "Value": {"n": 3, "d": 4, "others": [[2, 4, None], bf]}}}
    # fractional durations: strings and addition
    for _ in range(n * 6):
        yield {"k": "frac", "a": g_frac(rng, big=rng.random() < 0.05), "b": g_frac(rng, big=rng.random() < 0.03)}
    # file lines
    for fn in match_files():
        lines = [l for l in open(fn, encoding="utf-8").read().splitlines() if l]
        step = 1 if tier != "quick" else max(1, len(lines) // 120)
        keep = [l for i, l in enumerate(lines) if i < 14 or i % step == 0]
        for l in keep:
            yield {"k": "file", "file": os.path.basename(fn), "first": lines[0], "line": l}
    # complete synthesised files of every version through load_matchfile
    nf = {"quick": 5, "thorough": 40, "search": 8}.get(tier, 5)
    for ver in VERS0 + [V1]:
        for _ in range(nf):
            yield g_mfile(rng, ver)
    # histories over several line objects of different versions alive at the same time
    for _ in range({"quick": 60, "thorough": 2000, "search": 200}.get(tier, 60)):
        yield g_hist(rng)
    # version strings (current "major.minor.patch" and the pre-1.0 "minor.patch")
    for vs in ["1.0.0", "0.5.0", "0.4.0", "0.3.0", "0.1.0", "5.0", "4.0", "3.0", "2.0", "1.0", "0.3", "10.2.33", "1.0.0rc1",
               "5.0 ", "x", "", "1", "1.", "1.a"]:
        yield {"k": "ver", "s": vs}
    # dispatch of malformed / foreign lines
    for l in ["", "wrong_line", "snote(", "note(a,b)", "info(a)", "info(piece,x)", "sustain(1,2)", "soft(a,b).",
              "snote(n1,[B,n],3,0:1,0,1/8,-0.5,0.0,[v1])-note(n0,59,1,2,44,1,0).",
              "insertion-note(n1,[c,n],4,1,2,3,4).", "xxinfo(piece,a).yy", "meta(a,b,c,d)."]:
        for ver in ((0, 5, 0), (0, 1, 0), V1):
            yield {"k": "dispatch", "ver": list(ver), "line": l}


# ------------------------------------------------------------------ evaluation
def float_dec(obj_part, fn):
    """number of decimals the part's formatter prints for float field fn (None: repr / not a float)"""
    try:
        ff = obj_part.format_fun[fn]
    except Exception:
        return None
    try:
        s = ff(0.123456789)
    except Exception:
        return None
    m_ = re.fullmatch(r"0\.(\d+)", s)
    if m_ and len(m_.group(1)) < 9:
        return len(m_.group(1))
    return None


def spec_dec(ver, part, fn):
    """decimals the FORMAT prescribes for a float field (from the format's definition, not from the code):
    1.0.0 writes every beat time / second value with four decimals; versions < 0.3.0 write score beats with
    five and performed times with two decimals; the other pre-1.0 floats are written in full (None)"""
    ver = tuple(ver)
    if ver >= (1, 0, 0):
        return 4
    if ver < (0, 3, 0):
        if part == "snote." or (part == "" and fn in ("OnsetInBeats", "OffsetInBeats")):
            return 5
        if part == "note." or (part == "" and fn in ("Onset", "Offset")):
            return 2
    return None


def representable(x, dec):
    if dec is None:
        return True
    return float("%.*f" % (dec, x)) == x


def eval_line(d):
    ev = Eval()
    kind, ver, f = d["kind"], tuple(d["ver"]), d["f"]
    m = mods()
    U = m["U"]
    obj, e = call(build, kind, ver, npify(f) if d.get("np") else f)
    if e is not None:
        raise e  # generator bug: the case does not describe a constructible object
    tpl = tplname(kind, ver)
    flds = fields_of(obj)
    # ---- the object holds the plain values it was constructed from (every field is independent of the others)
    held0 = dict(flds)
    for name, x in given_leaves(kind, f):
        if name in held0 and not values_equal(held0[name], x):
            ev.oracle.append("construct: %s %s: field %s constructed from %s holds %s" % (
                kind, ver, name, canon(x), canon(held0[name])))
    # ---- the text of a tick-valued performed note, read and written against the format's definition
    if (0, 3, 0) <= ver < (1, 0, 0):
        for nk, nf in (("note", f if kind == "note" else f.get("note")),):
            if not isinstance(nf, dict) or "AdjOffset" not in nf:
                continue
            text = note_text_v0(nf)
            ncls = cls_of("note", ver)
            nb, ne = call(ncls.from_matchline, text, version=U.Version(*ver))
            if ne is not None:
                ev.oracle.append("text: note %s: %r is not read: %s" % (ver, text, ne))
                continue
            for fn in nb.field_names:
                if fn in nf and not values_equal(getattr(nb, fn), nf[fn]):
                    ev.oracle.append("text: note %s: field %s of %r read as %s" % (ver, fn, text, canon(getattr(nb, fn))))
            t2, ne2 = call(lambda: nb.matchline)
            # (the case of the note-name letter is a convention of the version, not a field: either is the same text)
            low = text.replace("[" + nf["NoteName"].upper() + ",", "[" + nf["NoteName"].lower() + ",", 1)
            if ne2 is not None or t2 not in (text, low):
                ev.oracle.append("text: note %s: %r is written back as %r" % (ver, text, ne2 or t2))
    modelled = all(model_ok_value(v) for _, v in flds)
    # ---- the durations the line was built from (independent reading of the bound, model of the constructor)
    held = dict(flds)
    for name, j in frac_descs(f):
        if name in held:
            check_construct(ev, "%s %s field %s" % (kind, ver, name), j, held[name])
    if kind in ("info", "meta", "scoreprop") and isinstance(f.get("Value"), dict) and "others" in f["Value"] and "n" in f["Value"]:
        for j, o in zip(f["Value"]["others"], obj.Value.other_components):
            check_construct(ev, "%s %s time signature component" % (kind, ver), j, o)
    line, e1 = call(lambda: obj.matchline)
    # ---- model: formatting
    if modelled:
        toks = []
        for _, v in flds:
            toks += wire_val(v)
        ev.requests.append("fmt %s %d %s" % (tpl, len(flds), " ".join(toks)))
        ev.impl.append("err" if e1 else ws(line))
    if e1 is not None:
        ev.oracle.append("format: %s %s: writing the line raised %s: %s" % (kind, ver, type(e1).__name__, e1))
        ev.key = None
        return ev
    cls = cls_of(kind, ver)
    back, e2 = call(cls.from_matchline, line, version=U.Version(*ver))
    if modelled:
        ev.requests.append("parse %s %s" % (tpl, ws(line)))
        ev.impl.append(errtok(e2) if e2 else canon_fields(back))
        # where every component's own pattern.search(line) starts (m.start())
        ev.requests.append("offsets %s %s" % (tpl, ws(line)))
        ev.impl.append(" ".join("-" if k is None else "%d" % k for k in search_offsets(obj, line)))
    # which float fields are exactly representable with the decimals printed
    exact = True
    for pre, o in parts_of(obj):
        for fn in o.field_names:
            v = getattr(o, fn)
            if isinstance(v, float) and not representable(v, spec_dec(ver, pre, fn)):
                exact = False
    if e2 is not None:
        ev.oracle.append("parse: %s %s: parsing the written line %r raised %s: %s" % (kind, ver, line, type(e2).__name__, e2))
    else:
        if kind_of(back) != kind:
            ev.oracle.append("kind: %s %s: %r parsed as %s" % (kind, ver, line, kind_of(back)))
        line2, e3 = call(lambda: back.matchline)
        if modelled:
            ev.requests.append("refmt %s %s" % (tpl, ws(line)))
            ev.impl.append("err" if e3 else ws(line2))
        if e3 is not None:
            ev.oracle.append("reformat: %s %s: writing the parsed line of %r raised %s: %s" % (kind, ver, line, type(e3).__name__, e3))
        else:
            if exact:
                bf = fields_of(back)
                if [n for n, _ in bf] != [n for n, _ in flds]:
                    ev.oracle.append("fields: %s %s: field names differ after parsing %r" % (kind, ver, line))
                else:
                    for (n, a), (_, b) in zip(flds, bf):
                        if not values_equal(a, b) and not rational_total(obj, n, a, b):
                            ev.oracle.append("fields: %s %s: field %s = %s parsed back from %r as %s" % (
                                kind, ver, n, canon(a), line, canon(b)))
                if line2 != line:
                    ev.oracle.append("fixpoint: %s %s: %r re-formats to %r" % (kind, ver, line, line2))
            else:
                # one formatting round allowed: the second and third formatting must coincide
                b2, e4 = call(cls.from_matchline, line2, version=U.Version(*ver))
                l3, e5 = (None, e4) if e4 else call(lambda: b2.matchline)
                if e5 is not None or l3 != line2:
                    ev.oracle.append("fixpoint: %s %s: second formatting %r is not a fixpoint (%r)" % (kind, ver, line2, e5 or l3))
    # ---- to_v1
    if ver < (1, 0, 0) and kind in V1KIND:
        eval_tov1(ev, d, obj, tpl, flds, modelled)
    # ---- dispatch through importmatch.parse_matchline
    methods = m["IM"].FROM_MATCHLINE_METHODSV1 if ver >= (1, 0, 0) else m["IM"].FROM_MATCHLINE_METHODSV0
    top = kind not in ("snote", "note", "stime", "ptime")
    if top:
        got, e6 = call(m["IM"].parse_matchline, line, methods, U.Version(*ver))
        if modelled:
            ev.requests.append("dispatch %d.%d.%d %s" % (ver + (ws(line),)))
            ev.impl.append("none" if got is None else kind_of(got) + " " + canon_fields(got))
        if got is None or kind_of(got) != kind:
            ev.oracle.append("dispatch: %s %s: parse_matchline(%r) gives %s" % (
                kind, ver, line, "None" if got is None else kind_of(got)))
    ev.key = tpl + "|" + line
    return ev


def component_patterns(obj):
    """the compiled patterns the class searches the line with, in component order"""
    k = kind_of(obj)
    if k in ("snote_note", "stime_ptime", "trill", "ornament"):
        return list(obj.pattern)
    if k in ("deletion", "trailing_score", "no_played"):
        return [obj.snote.pattern]
    if k in ("insertion", "hammer_bounce", "trailing_played"):
        return [obj.note.pattern]
    return [obj.pattern]


def search_offsets(obj, line):
    out = []
    for pat in component_patterns(obj):
        m_ = pat.search(line)
        out.append(None if m_ is None else m_.start())
    return out


def pitch_of(step, alter, octave):
    if octave is None or step == "R":
        return None
    return (octave + 1) * 12 + BASE[step.upper()] + (alter or 0)


def eval_tov1(ev, d, obj, tpl, flds, modelled):
    import numpy as np
    m = mods()
    kind, ver = d["kind"], tuple(d["ver"])
    new, e = call(m["M1"].to_v1, obj)
    line, e2 = (None, e) if e else call(lambda: new.matchline)
    if modelled:
        toks = []
        for _, v in flds:
            toks += wire_val(v)
        ev.requests.append("tov1 %s %d %s" % (tpl, len(flds), " ".join(toks)))
        ev.impl.append("none" if e2 else kind_of(new) + " " + ws(line))
    if kind == "info":
        attr = d["f"]["Attribute"]
        has = (attr in m["M1"].INFO_LINE[m["U"].Version(1, 0, 0)] or attr in m["M1"].INFO_ATTRIBUTE_EQUIVALENCES
               or attr in m["M1"].SCOREPROP_LINE[m["U"].Version(1, 0, 0)] or attr in m["M1"].SCOREPROP_ATTRIBUTE_EQUIVALENCES)
        if not has:
            return
        if attr == "tempoIndication" and len(obj.Value) == 0:
            return  # a tempo indication is a non-empty text: the empty pre-1.0 list has no 1.0.0 counterpart
    if e2 is not None:
        ev.oracle.append("to_v1: %s %s: converting %r raised %s: %s" % (kind, ver, obj.matchline, type(e2).__name__, e2))
        return
    nk = kind_of(new)
    if nk not in V1KIND[kind]:
        ev.oracle.append("to_v1 kind: %s %s: %r became a %s line %r" % (kind, ver, obj.matchline, nk, line))
        return
    # content
    bad = []
    if hasattr(obj, "snote"):
        for fn in obj.snote.field_names:
            if not values_equal(getattr(obj.snote, fn), getattr(new.snote, fn)):
                bad.append("snote." + fn)
    if hasattr(obj, "note") and kind != "snote":
        o, n = obj.note, new.note
        if n.Id != o.Id:
            bad.append("note.Id")
        if n.MidiPitch != pitch_of(o.NoteName, o.Modifier, o.Octave):
            bad.append("note.MidiPitch")
        for fn in ("Onset", "Offset"):
            a, b = getattr(o, fn), getattr(n, fn)
            if isinstance(a, float):
                if abs(a - b) > 0.5 or not isinstance(b, (int, np.integer)):
                    bad.append("note." + fn)
            elif a != b:
                bad.append("note." + fn)
        if n.Velocity != o.Velocity:
            bad.append("note.Velocity")
    if kind == "trill" and new.Anchor != obj.Anchor:
        bad.append("Anchor")
    if kind in ("sustain", "soft"):
        if (new.Time, new.Value) != (obj.Time, obj.Value):
            bad.append("Time/Value")
    if kind in ("meta", "info") and nk == "scoreprop":
        if attr_of(obj) != "tempoIndication" and not values_equal(new.Value, obj.Value):
            bad.append("Value")
        if attr_of(obj) == "tempoIndication" and isinstance(obj.Value, list) and len(obj.Value) > 0 \
                and all(isinstance(w, str) and w and w.split() == [w] and "," not in w and "[" not in w
                        for w in obj.Value):
            # the words of a pre-1.0 tempo indication are kept, in order, as blank-separated text
            if str(new.Value).split() != list(obj.Value):
                bad.append("tempo words")
        if kind == "meta" and (new.Measure != obj.Measure or new.TimeInBeats != obj.TimeInBeats):
            bad.append("Measure/TimeInBeats")
    if kind == "info" and nk == "info":
        if attr != "subtitle" and not values_equal(new.Value, obj.Value):
            bad.append("Value")
    if bad:
        ev.oracle.append("to_v1 content: %s %s: %r -> %r changes %s" % (kind, ver, obj.matchline, line, ",".join(bad)))
    # the converted line must itself be writable and readable as the same kind
    back, e3 = call(type(new).from_matchline, line, version=m["U"].Version(1, 0, 0))
    if e3 is not None:
        if not (kind == "info" and (line.endswith(",).") )):
            ev.oracle.append("to_v1 reparse: %s %s: converted line %r raised %s: %s" % (kind, ver, line, type(e3).__name__, e3))
    else:
        # the converted line is a line object like any other: writing the parsed object again gives the identical text
        line2, e4 = call(lambda: back.matchline)
        if e4 is None and line2 != line:
            ev.oracle.append("to_v1 fixpoint: %s %s: converted line %r is written again as %r" % (kind, ver, line, line2))


def attr_of(obj):
    return getattr(obj, "Attribute", None)


def frac_value(fr):
    return Fraction(int(fr.numerator), int(fr.denominator) * (int(fr.tuple_div) if fr.tuple_div is not None else 1))


def fold_fits(comps):
    """re-reading the components left to right (what from_string does) never exceeds the 1024 bound"""
    from math import lcm
    n, dd = 0, 1
    for c in map(frac_tuple, comps):
        dc = c[1] * (c[2] if c[2] is not None else 1)
        L = lcm(dd, dc)
        n = n * (L // dd) + c[0] * (L // dc)
        dd = L
        if n > 1024 or dd > 1024:
            return False
    return True


def check_construct(ev, what, j, x):
    """the duration object `x` built from the JSON description `j`: within the bound (1024 included) it holds exactly
    the integers it was given (oracle); a simple one is also compared with the model of the constructor"""
    exp = expected_frac(j)
    got = canon(x)
    if exp is not None and got != exp:
        ev.oracle.append("frac construct: %s: a duration built from %s holds %s, expected %s (numbers up to 1024 are kept)" % (
            what, json.dumps(j), got, exp))
    if isinstance(j, list) and all(v is None or 0 <= v < 2 ** 40 for v in j):
        ev.requests.append("fracmk %d %d %s" % (j[0], j[1], "-" if j[2] is None else "%d" % j[2]))
        ev.impl.append(got)


def eval_frac(d):
    ev = Eval()
    U = mods()["U"]
    a, ea = call(mk_frac, d["a"])
    b, eb = call(mk_frac, d["b"])
    if ea is not None or eb is not None:
        for j, e in ((d["a"], ea), (d["b"], eb)):
            if e is not None:
                if isinstance(j, list) and j[1] != 0:
                    ev.oracle.append("frac construct: building %s raised %s: %s" % (json.dumps(j), type(e).__name__, e))
                if isinstance(j, list):
                    ev.requests.append("fracmk %d %d %s" % (j[0], j[1], "-" if j[2] is None else "%d" % j[2]))
                    ev.impl.append("err:value")
        return ev
    check_construct(ev, "a", d["a"], a)
    check_construct(ev, "b", d["b"], b)
    for x in (a, b):
        s = str(x)
        y, e = call(U.FractionalSymbolicDuration.from_string, s)
        ok = model_ok_value(x)
        if ok:
            ev.requests.append("fracstr %s" % " ".join(wire_frac(x)))
            ev.impl.append(ws(s))
            if s != "":
                ev.requests.append("fracparse %s" % ws(s))
                ev.impl.append("err:value" if e else canon(y))
        if e is not None:
            ev.oracle.append("frac string: %r (from %s) does not parse: %s" % (s, canon(x), e))
        else:
            if str(y) != s:
                ev.oracle.append("frac string: %r re-formats to %r" % (s, str(y)))
            if frac_value(y) != frac_value(x):
                ev.oracle.append("frac string: %s -> %r -> %s changes the value" % (canon(x), s, canon(y)))
    ca0, cb0 = canon(a), canon(b)
    c, e = call(lambda: a + b)
    # addition is a function of its operands: it must leave them as they were (a duration that is the left operand
    # of one sum is used again in the next one) and give the same result when repeated
    if canon(a) != ca0 or canon(b) != cb0:
        ev.oracle.append("frac add operands: computing %s + %s changed an operand to %s / %s" % (ca0, cb0, canon(a), canon(b)))
    elif e is None:
        c2, e2_ = call(lambda: a + b)
        if e2_ is not None or canon(c2) != canon(c):
            ev.oracle.append("frac add repeat: %s + %s gives %s the first time and %s the second" % (ca0, cb0, canon(c), e2_ or canon(c2)))
    ok = model_ok_value(a) and model_ok_value(b)
    va, vb = frac_value(a), frac_value(b)
    exact = va + vb
    if ok:
        ev.requests.append("fracadd %s %s" % (" ".join(wire_frac(a)), " ".join(wire_frac(b))))
        ev.impl.append("err:value" if e is not None else canon(c))
    if e is not None:
        ev.oracle.append("frac add: %s + %s raised %s" % (canon(a), canon(b), e))
    else:
        from math import lcm
        da = int(a.denominator) * (int(a.tuple_div) if a.tuple_div is not None else 1)
        db = int(b.denominator) * (int(b.tuple_div) if b.tuple_div is not None else 1)
        L = lcm(da, db)
        # exact while the common denominator and the summed numerator stay within the bound, 1024 included
        fits = L <= FBOUND and exact * L <= FBOUND
        if fits and frac_value(c) != exact:
            ev.oracle.append("frac add: value(%s + %s) = %s, exact sum is %s" % (canon(a), canon(b), frac_value(c), exact))
        if fits and (int(c.numerator), int(c.denominator)) != (int(exact * L), L):
            ev.oracle.append("frac add: %s + %s holds %d/%d, the sum over the common denominator is %d/%d" % (
                canon(a), canon(b), int(c.numerator), int(c.denominator), int(exact * L), L))
        if fits and fold_fits(c.add_components or []) and len(c.add_components or []) > 0:
            s = str(c)  # (a sum of zero durations has no components left and is written as the empty text)
            y, e2 = call(U.FractionalSymbolicDuration.from_string, s)
            if e2 is not None or frac_value(y) != frac_value(c) or str(y) != s:
                ev.oracle.append("frac add string: %s -> %r -> %s" % (canon(c), s, e2 or canon(y)))
    ev.key = "frac|%s|%s" % (canon(a), canon(b))
    return ev


def key_name(f, mode, fmt):
    """expected spelling (independent of the implementation)"""
    name = (MIN if mode == "minor" else MAJ)[f + 7]
    if fmt == "v1.0.0":
        return name + ("m" if mode == "minor" else "")
    if fmt == "v0.3.0":
        return name + (" min" if mode == "minor" else " Maj")
    acc = {"": "n", "#": "#", "b": "b"}[name[1:]]
    return "[%s%s,%s]" % (name[0].lower(), acc, mode)


def eval_key(d):
    ev = Eval()
    U = mods()["U"]
    f, mode, fmt = d["f"], d["m"], d["fmt"]
    ks = U.MatchKeySignature(f, mode)
    fn = {"v1.0.0": U.format_key_signature_v1_0_0, "v0.3.0": U.format_key_signature_v0_3_0,
          "v0.1.0": U.format_key_signature_v0_1_0}[fmt]
    s, e = call(fn, ks)
    ev.requests.append("keystr %s %d %s" % (fmt, f, mode))
    ev.impl.append("err" if e else ws(s))
    exp = key_name(f, mode, fmt)
    if e is not None or s != exp:
        ev.oracle.append("key name: (%d,%s) in %s spelling is written %r, expected %r" % (f, mode, fmt, e or s, exp))
        return ev
    back, e2 = call(U.MatchKeySignature.from_string, s)
    ev.requests.append("keyparse %s" % ws(s))
    ev.impl.append("err:value" if e2 else canon(back))
    if e2 is not None:
        ev.oracle.append("key name: %r (%d,%s) does not parse: %s" % (s, f, mode, e2))
    else:
        if (back.fifths, back.mode) != (f, mode):
            ev.oracle.append("key name: %r parses to (%s,%s), expected (%d,%s)" % (s, back.fifths, back.mode, f, mode))
        s2, e3 = call(fn, back)
        if e3 is not None or s2 != s:
            ev.oracle.append("key name: %r re-formats to %r" % (s, e3 or s2))
    ev.key = "key|%s|%d|%s" % (fmt, f, mode)
    return ev


def eval_file(d):
    ev = Eval()
    m = mods()
    U, IM = m["U"], m["IM"]
    ver = IM.get_version(d["first"])
    ev.requests.append("version %s" % ws(d["first"]))
    ev.impl.append(canon(ver))
    mv = re.match(r"info\(matchFileVersion,([^)]*)\)\.", d["first"])
    if mv and expected_version(mv.group(1)) is not None and tuple(ver) != expected_version(mv.group(1)):
        ev.oracle.append("version: first line %r gives version %s" % (d["first"], tuple(ver)))
    methods = IM.FROM_MATCHLINE_METHODSV1 if ver >= U.Version(1, 0, 0) else IM.FROM_MATCHLINE_METHODSV0
    line = d["line"]
    obj, e = call(IM.parse_matchline, line, methods, ver)
    latin = all(ord(c) < 256 for c in line)
    vs = "%d.%d.%d" % tuple(ver)
    if obj is None:
        if latin:
            ev.requests.append("dispatch %s %s" % (vs, ws(line)))
            ev.impl.append("none")
        # a line no parser accepts is not a line object: nothing to demand (the model must agree that it is rejected)
        return ev
    kind = kind_of(obj)
    modelled = latin and all(model_ok_value(v) for _, v in fields_of(obj))
    if modelled:
        ev.requests.append("dispatch %s %s" % (vs, ws(line)))
        ev.impl.append(kind + " " + canon_fields(obj))
    l1, e1 = call(lambda: obj.matchline)
    if e1 is not None:
        ev.oracle.append("file: %s line %r cannot be written again: %s" % (kind, line, e1))
        return ev
    if modelled:
        ev.requests.append("refmt %s %s" % (tplname(kind, tuple(ver)), ws(line)))
        ev.impl.append(ws(l1))
    o2, e2 = call(IM.parse_matchline, l1, methods, ver)
    if o2 is None or kind_of(o2) != kind:
        ev.oracle.append("file: %r written as %r is read back as %s" % (line, l1, None if o2 is None else kind_of(o2)))
        return ev
    l2, e3 = call(lambda: o2.matchline)
    if e3 is not None or l2 != l1:
        ev.oracle.append("file fixpoint: %r -> %r -> %r" % (line, l1, e3 or l2))
    a, b = fields_of(obj), fields_of(o2)
    for (n, x), (_, y) in zip(a, b):
        if not values_equal(x, y):
            ev.oracle.append("file fields: %r: %s = %s read back as %s from %r" % (line, n, canon(x), canon(y), l1))
    if ver < U.Version(1, 0, 0) and kind in V1KIND:
        d2 = {"kind": kind, "ver": list(ver), "f": {"Attribute": getattr(obj, "Attribute", None)}}
        eval_tov1(ev, d2, obj, tplname(kind, tuple(ver)), a, modelled)
    ev.key = "file|" + line
    return ev


def eval_mfile(d):
    """write the synthesised lines to a file, read it with load_matchfile"""
    import tempfile
    ev = Eval()
    m = mods()
    U, IM = m["U"], m["IM"]
    ver = tuple(d["ver"])
    texts, objs = [], []
    for l in d["lines"]:
        if "raw" in l:
            texts.append(l["raw"])
            objs.append(None)
            continue
        obj, e = call(build, l["kind"], ver, l["f"])
        if e is not None:
            raise e
        t, e = call(lambda: obj.matchline)
        if e is not None:
            ev.oracle.append("file format: %s %s: writing the line raised %s: %s" % (l["kind"], ver, type(e).__name__, e))
            return ev
        if l.get("short"):
            t = "info(matchFileVersion,%d.%d)." % (ver[1], ver[2])
        texts.append(t)
        objs.append(obj)
    with tempfile.NamedTemporaryFile("w", suffix=".match", delete=False, encoding="utf-8") as fh:
        fh.write("\n".join(texts) + "\n")
        path = fh.name
    try:
        mf, e = call(IM.load_matchfile, path)
    finally:
        os.unlink(path)
    latin = all(ord(c) < 128 for t in texts for c in t)
    modelled = latin and all(o is None or all(model_ok_value(v) for _, v in fields_of(o)) for o in objs)
    if modelled:
        ev.requests.append("loadfile " + " ".join(ws(t) for t in texts))
        if e is not None:
            ev.impl.append("err")
        else:
            vs = sorted({tuple(l.version) for l in mf.lines})
            ev.impl.append(" | ".join(["V(%d,%d,%d)" % (vs[0] if vs else ver)] +
                                      [kind_of(l) + " " + canon_fields(l) for l in mf.lines]))
    if e is not None:
        ev.oracle.append("file load: a version %s file of written lines (first line %r) raised %s: %s" % (
            ver, next((t for t in texts if t), ""), type(e).__name__, e))
        return ev
    # expected: every distinct written line once, in order of first occurrence, with its kind and fields
    exp, seen = [], set()
    for t, o in zip(texts, objs):
        if t == "" or t in seen:
            continue
        seen.add(t)
        if o is not None:
            exp.append((t, o))
    got = list(mf.lines)
    for l in got:
        if tuple(l.version) != ver:
            ev.oracle.append("file version: a line of the version %s file was read as version %s" % (ver, tuple(l.version)))
            break
    DELK = ("deletion", "trailing_score", "no_played")
    INSK = ("insertion", "hammer_bounce", "trailing_played")

    def ids_of(o):
        return (getattr(getattr(o, "snote", None), "Anchor", None), getattr(getattr(o, "note", None), "Id", None))

    sids = [ids_of(o)[0] for _, o in exp if ids_of(o)[0] is not None]
    pids = [ids_of(o)[1] for _, o in exp if ids_of(o)[1] is not None]
    distinct = len(set(sids)) == len(sids) and len(set(pids)) == len(pids)
    # repeated ids: validate_match_ids' documented contract - the deletions whose score id stands in more than one
    # line with a score note go, then the insertions whose performed-note id stands in more than one remaining line with
    # a performed note; every other line is read, nothing is invented, the order is the file's
    if not distinct:
        from collections import Counter
        cs_ = Counter(sids)
        exp = [(t, o) for t, o in exp if not (kind_of(o) in DELK and cs_[ids_of(o)[0]] > 1)]
        cp_ = Counter(ids_of(o)[1] for _, o in exp if ids_of(o)[1] is not None)
        exp = [(t, o) for t, o in exp if not (kind_of(o) in INSK and cp_[ids_of(o)[1]] > 1)]
    pairs, gi, bad = [], 0, None
    for t, o in exp:
        if gi < len(got) and kind_of(got[gi]) == kind_of(o) and ids_of(got[gi]) == ids_of(o):
            pairs.append((t, o, got[gi]))
            gi += 1
        else:
            bad = "the written %s line %r is expected next%s, read next: %s" % (
                kind_of(o), t, "" if distinct else " (ids repeat in the file: validate_match_ids' contract applied)",
                "nothing" if gi >= len(got) else "%s %r" % (kind_of(got[gi]), call(lambda: got[gi].matchline)[0]))
            break
    if bad is None and gi != len(got):
        bad = "the read %s line %r was not written there" % (kind_of(got[gi]), call(lambda: got[gi].matchline)[0])
    if bad is not None:
        ev.oracle.append("file lines: version %s file: %s (written kinds %s, read kinds %s)" % (
            ver, bad, [kind_of(o) for _, o in exp], [kind_of(l) for l in got]))
    else:
        for t, o, l in pairs:
            exact = all(not isinstance(getattr(p, fn), float) or representable(getattr(p, fn), spec_dec(ver, pre, fn))
                        for pre, p in parts_of(o) for fn in p.field_names)
            if not exact:
                continue
            for (n, a), (_, b) in zip(fields_of(o), fields_of(l)):
                if not values_equal(a, b) and not rational_total(o, n, a, b):
                    ev.oracle.append("file fields: version %s: %r: field %s = %s read as %s" % (ver, t, n, canon(a), canon(b)))
    ev.key = "mfile|%s|%d" % (ver, hash(tuple(texts)) & 0xffffffff)
    return ev


# ------------------------------------------------------------------ pristine evaluations
# "What a line writes when it is the only object ever created" cannot be observed in a process that has created other
# line objects (class attributes, module-level memos and mutable defaults keep whatever they were given first or
# last).  Every process that evaluates cases therefore forks, BEFORE it creates its first line object, a zygote that
# never creates one itself; a request is answered by a child forked from the zygote, i.e. in a state in which the
# partitura modules are imported and no line object ever existed.
_ZYG = {}
_IN_PRISTINE = [False]


def _zygote():
    if _ZYG.get("pid") == os.getpid():
        return _ZYG
    mods()
    import numpy  # noqa: F401  (imported before the fork, never re-imported in the children)
    r1, w1 = os.pipe()
    r2, w2 = os.pipe()
    pid = os.fork()
    if pid == 0:
        try:
            os.close(w1)
            os.close(r2)
            dn = os.open(os.devnull, os.O_RDWR)
            os.dup2(dn, 0)
            os.dup2(dn, 1)
            os.dup2(dn, 2)
            _IN_PRISTINE[0] = True
            _serve(r1, w2)
        finally:
            os._exit(0)
    os.close(r1)
    os.close(w2)
    _ZYG.clear()
    _ZYG.update(pid=os.getpid(), w=os.fdopen(w1, "w"), r=os.fdopen(r2, "r"))
    return _ZYG


def _serve(rfd, wfd):
    rf = os.fdopen(rfd, "r")
    wf = os.fdopen(wfd, "w")
    for line in rf:
        r, w = os.pipe()
        pid = os.fork()
        if pid == 0:
            try:
                os.close(r)
                try:
                    out = _pristine(json.loads(line))
                except BaseException as e:  # the parent treats it as "no pristine answer"
                    out = {"error": "%s: %s" % (type(e).__name__, e)}
                with os.fdopen(w, "w") as f:
                    f.write(json.dumps(out))
            finally:
                os._exit(0)
        os.close(w)
        with os.fdopen(r, "r") as f:
            data = f.read()
        os.waitpid(pid, 0)
        wf.write((data.replace("\n", " ") or "null") + "\n")
        wf.flush()


def pristine(req):
    """answer of a process in which no line object was ever created (None when the machinery fails)"""
    if _IN_PRISTINE[0]:
        return None
    try:
        z = _zygote()
        z["w"].write(json.dumps(req) + "\n")
        z["w"].flush()
        line = z["r"].readline()
        return json.loads(line) if line.strip() else None
    except (OSError, ValueError):
        return None


def hist_create(how, l, ref):
    """the line object of description `l` created by the constructor / from_matchline(ref) / parse_matchline(ref)"""
    m = mods()
    U, IM = m["U"], m["IM"]
    ver = tuple(l["ver"])
    if how == "B":
        obj, e = call(build, l["kind"], ver, l["f"])
        if e is not None:
            raise e
        return obj
    if ref is None:
        return None
    if how == "P":
        obj, e = call(cls_of(l["kind"], ver).from_matchline, ref, version=U.Version(*ver))
        return None if e is not None else obj
    methods = IM.FROM_MATCHLINE_METHODSV1 if ver >= (1, 0, 0) else IM.FROM_MATCHLINE_METHODSV0
    obj, e = call(IM.parse_matchline, ref, methods, U.Version(*ver))
    return None if e is not None else obj


def _pristine(req):
    if req["op"] == "text":
        o = hist_create(req["how"], req["line"], req.get("ref"))
        if o is not None and req.get("t"):
            o, e = call(mods()["M1"].to_v1, o)
            if e is not None:
                o = None
        if o is None:
            return {"text": None}
        t, e = call(lambda: o.matchline)
        return {"text": None if e is not None else t}
    if req["op"] == "hist":
        return run_hist(req["case"], req["refs"])
    if req["op"] == "eval":
        return {"oracle": list(_evaluate(req["case"]).oracle)}
    return None


def run_hist(d, refs):
    """the history itself on the real classes: request tokens, observations, and for every text written the creation
    chain of the object, the text (None = writing raised) and the number of objects alive"""
    m = mods()
    lines = d["lines"]
    heap, srcs, obs, toks, writes = [], [], [], [], []
    modelled = all(r is not None and all(ord(c) < 128 for c in r) for r in refs)
    for op, j in d["ops"]:
        if op in ("B", "P", "D"):
            l = lines[j]
            ver = tuple(l["ver"])
            vs = "%d.%d.%d" % ver
            o = hist_create(op, l, refs[j])
            if op == "B":
                flds = fields_of(o)
                if not all(model_ok_value(v) for _, v in flds):
                    modelled = False
                else:
                    vt = []
                    for _, v in flds:
                        vt += wire_val(v)
                    toks.append("B %s %s %d %s" % (vs, l["kind"], len(flds), " ".join(vt)))
            elif op == "P":
                toks.append("P %s %s %s" % (vs, l["kind"], ws(refs[j] or "")))
            else:
                toks.append("D %s %s" % (vs, ws(refs[j] or "")))
            if o is None:
                obs.append("x")
            else:
                if not all(model_ok_value(v) for _, v in fields_of(o)):
                    modelled = False
                obs.append("+%d" % len(heap))
                heap.append(o)
                srcs.append([op, j])
        elif op == "T":
            toks.append("T %d" % j)
            o, e = (None, True) if j >= len(heap) else call(m["M1"].to_v1, heap[j])
            if e is not None or o is None:
                obs.append("x")
            else:
                obs.append("+%d" % len(heap))
                heap.append(o)
                srcs.append(srcs[j] + ["T"])
        else:
            toks.append("W %d" % j)
            if j >= len(heap):
                obs.append("err")
                continue
            t, e = call(lambda: heap[j].matchline)
            obs.append("err" if e is not None else ws(t))
            if e is None and not all(ord(c) < 128 for c in t):
                modelled = False
            writes.append([srcs[j], None if e is not None else t, len(heap), None if e is None else "%s: %s" % (type(e).__name__, e)])
    return {"toks": toks, "obs": obs, "modelled": modelled, "writes": writes}


def eval_hist(d):
    """run the history on the real classes, in a process in which no other line object ever existed; every text written
    must be the text the same line writes when it is created (the same way) as the only line object of a process"""
    ev = Eval()
    lines = d["lines"]
    # ---- every line alone
    refs = []
    for l in lines:
        a = pristine({"op": "text", "how": "B", "line": l})
        if a is None:  # no fork available: the line written at once in this process
            o = hist_create("B", l, None)
            t, e = call(lambda: o.matchline)
            a = {"text": None if e is not None else t}
        refs.append(a.get("text"))
    # ---- the history (only the objects of this history exist)
    r = pristine({"op": "hist", "case": d, "refs": refs})
    if r is None or "toks" not in r:
        r = run_hist(d, refs)
    memo = {}
    for src, t, alive, err in r["writes"]:
        if len(src) > 3:
            continue
        key = tuple(src)
        if key not in memo:
            if len(src) == 2 and src[0] == "B":
                memo[key] = refs[src[1]]
            else:
                a = pristine({"op": "text", "how": src[0], "line": lines[src[1]], "ref": refs[src[1]], "t": len(src) > 2})
                memo[key] = None if not a else a.get("text")
        alone = memo[key]
        if alone is not None and t != alone:
            l = lines[src[1]]
            ev.oracle.append("history: the %s %s line created by %s and written when %d line objects existed gives %r; "
                             "created the same way as the only line object of the process it gives %r" % (
                                 l["kind"], tuple(l["ver"]), "+".join(src[::2]), alive, err if t is None else t, alone))
    if r["modelled"]:
        ev.requests.append("hist %d %s" % (len(r["toks"]), " ".join(r["toks"])))
        ev.impl.append(" ".join(r["obs"]))
    ev.key = "hist|" + "|".join(x or "" for x in refs) + "|" + " ".join("%s%d" % (o, j) for o, j in d["ops"])
    return ev


def eval_dispatch(d):
    ev = Eval()
    m = mods()
    U, IM = m["U"], m["IM"]
    ver = tuple(d["ver"])
    methods = IM.FROM_MATCHLINE_METHODSV1 if ver >= (1, 0, 0) else IM.FROM_MATCHLINE_METHODSV0
    got, e = call(IM.parse_matchline, d["line"], methods, U.Version(*ver))
    ev.requests.append("dispatch %d.%d.%d %s" % (ver + (ws(d["line"]),)))
    ev.impl.append("none" if got is None else kind_of(got) + " " + canon_fields(got))
    ev.key = None
    return ev


def expected_version(s):
    """the version a version string denotes, read independently of the implementation"""
    m3 = re.match(r"(\d+)\.(\d+)\.(\d+)", s)
    if m3:
        return tuple(int(x) for x in m3.groups())
    m2 = re.match(r"(\d+)\.(\d+)", s)
    if m2:
        return (0, int(m2.group(1)), int(m2.group(2)))
    return None


def eval_ver(d):
    ev = Eval()
    U = mods()["U"]
    got, e = call(U.interpret_version, d["s"])
    ev.requests.append("verparse %s" % ws(d["s"]))
    ev.impl.append("err:value" if e else canon(got))
    exp = expected_version(d["s"])
    if exp is not None:
        if e is not None or tuple(got) != exp:
            ev.oracle.append("version: %r is read as %s, it denotes %s" % (d["s"], e or tuple(got), exp))
        else:
            s2 = U.format_version(got)
            back, e2 = call(U.interpret_version, s2)
            if e2 is not None or tuple(back) != exp:
                ev.oracle.append("version: %r written as %r is read back as %s" % (d["s"], s2, e2 or tuple(back)))
        ev.key = "ver|" + d["s"]
    return ev


def _evaluate(d):
    k = d["k"]
    if k == "ver":
        return eval_ver(d)
    if k == "line":
        ev = eval_line(d)
    elif k == "frac":
        ev = eval_frac(d)
    elif k == "key":
        ev = eval_key(d)
    elif k == "file":
        ev = eval_file(d)
    elif k == "dispatch":
        ev = eval_dispatch(d)
    elif k == "mfile":
        ev = eval_mfile(d)
    elif k == "hist":
        ev = eval_hist(d)
    else:
        raise ValueError(k)
    ev.impl = [x for x in ev.impl]
    return ev


def evaluate(d):
    _zygote()  # before this process creates its first line object
    ev = _evaluate(d)
    if ev.oracle and d["k"] != "hist":
        # a failure of a single-object case that does not show in a process that never created another line object
        # is the trace of an EARLIER case of this worker (state kept across objects): it is reported - reproducibly -
        # by the history cases, not by this one
        a = pristine({"op": "eval", "case": d})
        if a is not None and a.get("oracle") == []:
            ev.info = dict(ev.info or {}, history_induced=list(ev.oracle))
            ev.oracle = []
    return ev


def finding_key(d, f):
    head = f.split(":")[0]
    if d["k"] == "line":
        extra = d["kind"]
        if d["kind"] in ("info", "scoreprop", "meta"):
            extra += "/" + str(d["f"].get("Attribute"))
        return "line:%s:%s" % (head, extra)
    return "%s:%s" % (d["k"], head)


def shrink(d):
    """smaller candidates: shorten lists, simplify fractions, zero numbers"""
    if d.get("k") == "hist":
        ops = d["ops"]
        for i in range(len(ops) - 1, -1, -1):  # drop one observation (creations and conversions keep the slot numbers)
            if ops[i][0] == "W":
                yield dict(d, ops=ops[:i] + ops[i + 1:])
        return
    if d.get("k") != "line":
        return

    def walk(f):
        for k, v in f.items():
            if isinstance(v, dict) and "add" not in v and k in ("snote", "note", "stime", "ptime"):
                for g in walk(v):
                    yield dict(f, **{k: g})
            elif isinstance(v, list) and k not in ("Offset", "Duration") and len(v) > 0 and k != "Onsets":
                yield dict(f, **{k: v[:-1]})
            elif isinstance(v, dict) and "add" in v:
                yield dict(f, **{k: v["add"][0]})
                if len(v["add"]) > 2:
                    yield dict(f, **{k: {"add": v["add"][:-1]}})
            elif isinstance(v, list) and k in ("Offset", "Duration") and v != [1, 4, None]:
                yield dict(f, **{k: [1, 4, None]})
            elif isinstance(v, float) and v != 0.5:
                yield dict(f, **{k: 0.5})
            elif isinstance(v, str) and k in ("Anchor", "Id") and v != "n1":
                yield dict(f, **{k: "n1"})

    for g in walk(d["f"]):
        yield dict(d, f=g)


def distribution(descs, results):
    from collections import Counter

    c = Counter()
    for d in descs:
        if d["k"] == "line":
            c["%s %s" % (d["kind"], ".".join(map(str, d["ver"])))] += 1
        else:
            c[d["k"]] += 1
    reqs = Counter(q.split(" ")[0] for r in results for q in r.get("requests", []))
    errs = sum(1 for r in results for x in r.get("impl", []) if isinstance(x, str) and x.startswith("err"))
    return {"cases_by_class_version": dict(c), "requests_by_kind": dict(reqs), "error_observations": errs,
            "unmodelled_templates": unmodelled_templates()}


def unmodelled_templates():
    p = os.path.join(os.path.dirname(os.path.dirname(os.path.abspath(__file__))), "..", "lean", "PartituraModel", "Gen",
                     "MatchTemplates.lean")
    try:
        src = open(p).read()
    except OSError:
        return "Gen/MatchTemplates.lean missing"
    m_ = re.search(r"unmodelled templates: (.*?)(?: -/)?$", src, re.M)
    return m_.group(1) if m_ else "?"
