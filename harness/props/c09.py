"""C09 - unfolding repeats concatenates segments along a valid path and nothing else.

Readings (where the property text leaves room):
* "permitted path": a walk in the segment graph `add_segments` builds, starting at the first segment,
  following the ordered destinations with the jump-consumption rule of `Path`, ending at END.
* "length": last minus first time point of the unfolded part, in divisions.  It equals the sum of the
  visited segments' lengths when no copied object reaches beyond the end of its segment and something
  (a measure, a note) ends at the end of the last visited segment; the oracle checks the clause under
  exactly these conditions (otherwise the code keeps the overhanging end, which the text does not exclude).
* "unchanged duration": the same number of divisions AND the same quarter duration in force at the onset
  (so the musical duration is unchanged as well; repaired by fixes/C09-5).
* "references between copied objects stay inside the copy": a reference whose source and target are
  copied in the same visit points to the copy of the target made in that visit; a reference to an
  object outside the visited segment becomes None; nothing refers to an object of the original part.
  Checked for the referential attributes the text lists (ties, slurs, tuplets, grace chains, prev/next).
* "a part without repeat structure unfolds to an equal part": equal in everything that belongs to a
  segment, i.e. every object starting in [first point, last point), shifted so that the part starts at 0;
  objects that start at the final time point (a final barline) belong to no segment `[s, e)` and are not
  copied, except the fermatas the code takes from a segment's end; Page/System objects are dropped.
* ending numbers are one decimal digit (1..9).
* "the maximal unfolding plays each repeated section the notated number of times" in a part with a da capo / dal segno
  (round 3, clause `blocks-navigation`): everything in full up to the jump instruction, the jump is obeyed once, and from
  its destination to the Fine / To Coda (and from the Coda to the end) again in full when `ignore_leaps=True` ("repetitions
  after a leap are unfolded fully", docstring of unfold_part_maximal), once with the last endings when `ignore_leaps=False`;
  the minimal unfolding goes straight through.  Checked only where the notation leaves no doubt: disjoint simple repeats and
  bracket groups, one standard navigation form, its marks outside the repeated sections; NOT when the jump instruction ends
  a repeated section and leaps are ignored (twice or once on the way through after the jump?), nor where the code's
  recognition of a leap by segment types is known to be fooled (see PARTIAL).
* "ids suffixed with the visit number on request" (round 5): with update_ids every Note (GraceNotes included; rests and unpitched
  notes are not listed by `part.notes` and keep their ids) whose id is not None carries `<original id>-<k>`, k = 1 + the number of earlier
  visits of its segment in the path - WHATEVER the original id looks like ('m3-2', 'a' / 'a-1' / 'a-1-1', '7', '-5', 'x--2' ...); a note
  without an id keeps None.  The clause is judged by the oracle for unique original ids; duplicate ids in the original are invalid input
  (the code numbers all notes that share an id together, in the order of `part.notes`; modelled, compared and proved to give pairwise
  different ids - `suffixed_ids_distinct` - but not judged).  "on request": the signature default of update_ids is True (the docstrings
  say False); the oracle never judges a call that omits update_ids.
* Fermata.ref / Note.fermata / Note.beam / Beam.notes are not among "(ties, slurs, tuplets, grace chains, neighbouring time points)", the
  explicit list of the property, and are not remapped by the code (a copy keeps pointing at the original's fermata / beam): not judged.
* signatures and clefs (round 6): "copies of the original's segments" - a TimeSignature / KeySignature / Clef that starts inside a visited
  segment must be in force at its shifted time in the unfolded part (clause `signatures`: the code may leave the copy out when the previous
  object of the class says the same, with ALL fields of the object - octave change of a clef included, fixes/C09-9).  Whether the signature
  in force at the START of a visited segment (no object starting there) must be restored after a jump back is the proposed open finding
  `C09/signatures-at-start` (see PARTIAL); the clause is dormant until the coordinator accepts it.
* unfold_part_alignment (round 6): judged only for an alignment the function accepts (at least one "match" / "deletion" entry, each with a
  score_id); what it writes into the caller's alignment is compared with the model, not judged (the property does not speak about it).
* segment ids: the property does not speak about them; that they are `chr(65 + i)` is compared with the model (`ids`,
  `segstr`), because three places of the code order segments by the string order of their ids (Props/C09Many).
"""
import copy as _copy
import json
import os
import sys
from collections import Counter, defaultdict

import wire as W
from core import Eval
from cpulimit import run_limited, CpuTimeout

import gen_score as G

# every heavy import happens here, before any CPU limit is armed (a limit that fires inside an import leaves half-initialised
# modules behind)
import numpy  # noqa: F401,E402
import partitura  # noqa: F401,E402
import partitura.score  # noqa: F401,E402
import partitura.utils.music  # noqa: F401,E402
import partitura.utils.generic  # noqa: F401,E402

PROPERTY = "C09"
DRIVER = "drv_c09"
PROPS = ["PartituraModel.Props.C09", "PartituraModel.Props.C09Ext", "PartituraModel.Props.C09Many", "PartituraModel.Props.C09Entry",
         "PartituraModel.Props.C09Compose", "PartituraModel.Props.C09Align", "PartituraModel.Props.C09Sig"]
TRUSTED = [
    "Python dict insertion order; str comparison = lexicographic on code points, `in` = substring, list.sort stable, "
    "list(set(x)).sort() = the sorted distinct elements (Model/UnfoldIds.lean: pyLt, pyContains, insStr, insStrStable); that the "
    "numeric order / (digit, id) sort key of Model/Unfold.lean is this string algorithm on ids chr(65+i) is PROVED "
    "(Props/C09Many.segment_table_is_string_algorithm), that the real ids are chr(65+i) is compared on every case (`ids`, `segstr`)",
    "copy.copy of score objects (shallow: attributes other than start/end/references are carried unchanged)",
    "`destinations * 100` in list_of_destinations_from_last_segment is modelled as unbounded cyclic repetition",
    "recursion depth: unfold_paths recurses once per visited segment, Python gives up (RecursionError) at about 990 visits - e.g. 500 "
    "consecutive repeated sections in the maximal unfolding (480 still unfold correctly, in 0.5 s; no quadratic or exponential cost "
    "was found in the maximal / minimal enumeration: 0.2 s for 200 doubled segments); the model enumerates with fuel 1000 and the "
    "generator keeps the longest path below 800 visits",
    "the abstract part sent to the model is read from the real objects by this module (kind by isinstance, start/end, referential attributes)",
    "the entry-point model (Model/UnfoldEntry.lean) takes its defaults and the flags each entry point hands to get_paths / new_part_from_path "
    "from Gen/C09Lits.lean, which harness/translate_c09.py regenerates on every run by CALLING the live functions (recording wrappers "
    "around get_paths / new_part_from_path on a one-repeat probe part, inspect.signature, probes of create_variant_part with one "
    "instance of 21 classes, update_note_ids_after_unfolding on 12 id shapes, add_segments for the id base): that the probes are "
    "representative is trusted, the `entry …` streams compare the result on every generated case",
    "deepcopy of a Score (the Score branch of unfold_part_maximal / minimal) is modelled as the identity on the abstract parts",
    "`notes_tied` reads the first referential attribute of a note as tie_prev (the order of GenericNote._ref_attrs, read live by this "
    "module); np.mean / == / argmin in unfold_part_alignment are modelled as count, equality, first minimum (alignPick); the labels that "
    "count, the KeyError, the suffix written into the caller's alignment and when it is suppressed (Model/UnfoldAlign.lean) are "
    "regenerated on every run by CALLING the live function on probe alignments (Gen/C09Align.lean, harness/translate_c09.py "
    "gen_c09align; 8 probed labels): that the probes are representative is trusted, the `entry alignx` stream compares part and "
    "alignment on every generated case",
    "signature_in_force assumes the object list follows the timeline (TimeOrdered): it is read that way (ordered_objects: time points "
    "in order, the order create_variant_part meets the objects) and re-checked on every case (`object_lists_not_in_time_order` = 0)",
    "that a real part is an instance of a layout family of the theorems (chainLayout, mvLayout, dcFineLayout, dcCodaLayout, dsCodaLayout) is "
    "decided twice, by the model (`fam` request: equality with the family's layout plus every hypothesis of the layout theorem) and by "
    "family_of() in this module from the musical description; the two answers are compared on every case, not proved equal",
]
PARTIAL = [
    "layout theorems (simple_repeats_layout, voltas_numbers_layout, voltas_layout, dacapo_al_fine, dacapo_al_coda, dalsegno_al_coda) hold for "
    "symbolic boundary times of the stated families; other layouts (nested repeats with endings, several volta groups, marks combined with "
    "repeats) have the general theorems (walks, copies, references, termination for repeat-only parts) and the correspondence only",
    "voltas_numbers_layout: the numbers on a bracket are written in increasing order, every bracket carries a number, the last number is on the "
    "last bracket, at most 9 numbers (one decimal digit), the repeat starts at a time >= 0 (the code initialises current_volta_repeat_start "
    "with 0 and takes max()), a repeat sign after every bracket but the last",
    "termination: proved for every table of the class RepForm (successor preceded by at most one destination that is not ahead) - which is what "
    "add_segments builds for ANY set of repeats (repeats_terminate) - in all three modes with fuel 2^(n+1), and for the volta and navigation "
    "families in maximal/minimal mode with explicit fuel; not proved for arbitrary tables: enumeration_may_not_terminate exhibits a table "
    "(built by the unrepaired code for a da capo in the middle of a part) on which the minimal enumeration fails for every fuel",
    "ids: ids_are_visit_numbers (suffix = visit number, end to end from add_segments, no hypothesis on offsets / lengths / disjointness) needs "
    "unique note ids in the original part; with duplicate ids the code ranks all same-id notes together in the order of part.notes "
    "(noteBefore: onset, Note before GraceNote, registration) - modelled, compared on every `dup` case, proved to give pairwise different "
    "ids for ANY list of copies (suffixed_ids_distinct, ids_rank_order), not related to visit numbers (it is not one)",
    "entry points: unfold_part_maximal_sound / ids_are_visit_numbers / unfolding_never_misses_a_segment / maximal_minimal_single_path are "
    "end-to-end and unconditional; totality of all entry points is proved for repeat-only parts (entry_points_total_on_repeats) and for "
    "parts without structure (unfold_without_structure), elsewhere it follows from a successful get_paths only; "
    "the shape of the maximal / minimal path is proved through the entry points for r disjoint simple repeats "
    "(unfold_part_maximal_simple_repeats, iter_unfolded_parts_count) and, round 6, for one repeat with k brackets carrying 1..N and for "
    "D.C. al Fine / D.C. al Coda / D.S. al Coda (Props/C09Compose: unfold_part_maximal_voltas, unfold_part_dacapo_al_fine, ..., "
    "with the general unfold_part_maximal_of_path / _minimal_of_path / iter_unfolded_parts_of_paths); "
    "unfold_part_alignment is proved to return the FIRST shortest best-covering part of iter_unfolded_parts(update_ids=True) and to fail "
    "only without a usable id (Props/C09Align) - relative to the TRUSTED reading of np.mean / == / argmin",
    "length_sum assumes a part well formed for its segmentation (no copied object reaches beyond its segment, something ends at the end of the "
    "last visited segment); otherwise the code keeps the overhanging end and the model mirrors it",
    "signatures and clefs (copied only when different from the previous one, sigSkip): signature_in_force proves that every time / key "
    "signature / clef object that STARTS INSIDE a visited segment is in force at its shifted time (its copy, or the latest object of "
    "its class before it says the same; oracle clause `signatures`).  NOT restored by the code: the signature in force at the START of a "
    "visited segment when no signature object starts there - after a jump back the segment stands under whatever the previously copied "
    "segment left behind (|: 4/4 ... 3/4 :| plays its second pass of the 4/4 bars under 3/4; same for key signatures and clefs).  The "
    "division at a segment start was repaired in fixes/C09-5; the analogous repair for signatures needs copies of objects from OUTSIDE the "
    "visited segment, which every theorem about `variant` excludes - proposed as OPEN finding `C09/signatures-at-start` (witness "
    "corpus/C09/signature_change_inside_repeat.json, Lean `example` in Props/C09Sig, oracle clause dormant until the entry is in "
    "known_findings.json).  Clefs: the code compares with the previous clef of ANY staff, so it copies more than needed, never less when "
    "there is at most one clef per (time, staff); since fixes/C09-9 the octave change is compared as well",
    "ending numbers >= 10 are outside the model (Layout.supported): the code cuts 8 characters off '<n>_Volta_<ID>' and then fails",
    "navigation marks: the maximal path is proved for D.C. al Fine, D.C. al Coda, D.S. al Coda (segno after the start) over symbolic times and "
    "checked by the independent oracle for these and for D.C., D.S., D.S. al Fine, D.C./D.S. before the end of the part; other arrangements of "
    "marks (several jumps, marks inside repeats) are compared only; `'END' <= chr(65+i)` makes END count as a jump to the past for segments "
    "F and later (mirrored by Dest.lePast); the first segment is a leap destination only when the part starts at time 0 (`ss == 0`)",
    "Fermata.ref / Note.fermata / Note.beam / Beam.notes are not in the property's list of references and are not remapped by the code "
    "(after unfolding a MusicXML part a copied note still points at the ORIGINAL's Fermata / Beam object and vice versa; a reader of the "
    "property that takes its list as examples would call this a defect - see the readings at the top)",
    "repeats combined with a navigation form (clause blocks-navigation) are judged by the oracle only for disjoint blocks with the marks "
    "outside them; excluded (compared with the model only): (a) ignore_leaps=True with the D.C./D.S. at the end of a repeated section "
    "- the code plays that section once on the way through after the jump, the notation does not say; (b) a D.C./D.S. that ends the "
    "very segment it jumps to; (c) a D.C./D.S. at the end of a repeated section / bracket group that starts at the jump's own "
    "destination (start of the piece, segno): Segment.to merges the repeat and the navigation destination, and the leap test "
    "(types of the two segments) takes the notated repeat for the jump - same root cause as the repaired fixes/C09-8, not repaired",
    "many segments: proved for every number of segments (ids chr(65+i), i unbounded; Python's chr stops at 0x10FFFF, never reached); "
    "measured on the real code: 27, 60, 200 and 480 consecutive repeated sections and 210 bracket groups unfold correctly "
    "(0.01-0.8 s, no quadratic or exponential cost in the maximal/minimal enumeration); a maximal path of about 990 visits or more "
    "(500 repeated sections) ends in RecursionError - unfold_paths recurses once per visit - and a destination used more than 100 "
    "times from one segment (8 nested repeats) in IndexError (`destinations * 100`); both outside the generated domain",
]
RULE = ("parts from gen_score.random_part_desc (3-10 bars, ties over barlines, signature/clef/division changes) with a generated "
        "repeat structure at bar lines: 0-4 laminar repeats, volta groups with 1-3 brackets and single or comma-separated numbers, "
        "one of 9 navigation forms (da capo, fine, dal segno, segno, coda, to-coda, malformed), slurs/tuplets inside and across "
        "boundaries, fermatas, pages/systems; each with 1-3 (policy, update_ids, ignore_leaps) combinations; shape cases of the theorem "
        "families (r disjoint repeats, one repeat with k brackets, the 9 standard navigation forms D.C./D.S. (al Fine / al Coda / before "
        "the end)); BLOCK parts (round 3): a sequence of plain music, simple repeats and repeats with 1-3 numbered brackets, optionally "
        "one standard navigation form with its marks at block edges, optionally an outer repeat around several blocks - 2-14 segments, "
        "and 8 (quick) / 120 (thorough) parts with MANY segments: 27-60, every sixth 61-150 (ids beyond 'Z', longest path kept below "
        "800 visits); 15-25 % of the parts are built with read-only views interleaved (gen_score `warm`) and 12-15 % with an edit "
        "history (a mark removed, the part unfolded, the mark put back: `hist`); 30 % of the parts get an ID SHAPE (round 5): ids 'm<bar>-<k>', chains a / a-1 / a-1-1, "
        "numbers, ids containing the separator, notes without id, duplicate ids; every policy carries an `omit` mask (the entry point is "
        "called without update_ids and / or ignore_leaps); alignments with left-out, deleted and foreign ids; round 6: 20 (quick) / "
        "200 (thorough) more parts unfolded by an alignment in six modes (plain / no id containing the suffix, so the function rewrites the "
        "caller's list / further labels with and without score_id / a counted entry without score_id / no counted entry / raw ids of the "
        "folded part); clefs with octave changes; "
        "plus the six unfold fixtures of tests/data/musicxml "
        "and corpus/C09.  distinct = distinct (segment table, policy flags); non-trivial = at least one repeat, ending or mark")
LEVEL_TEXT = ("Lean theorems about the executable model of segment construction, path enumeration and segment copying: for every "
              "table - walks, length sum, copies per visit, nothing left, closed references, id suffix = visit number; at the layout "
              "level for symbolic boundary times - r disjoint repeats give the chain table (2^r variants, maximal/minimal), one repeat "
              "with k brackets carrying any assignment of 1..N gives the volta table (pass n takes the bracket of number n), D.C. al "
              "Fine / D.C. al Coda / D.S. al Coda; termination of the enumeration for every part whose only structure is repeats; "
              "for ANY number of segments the string operations of the code on segment ids chr(65+i) (sorts, comparisons, substring "
              "classification, cuts) are the numeric operations of the model (segment_table_is_string_algorithm), which ids counted "
              "A..Z, AA, .. would break. Round 5: the public entry points (defaults, flags, Part and Score branch, first path) as a model whose "
              "literals are regenerated from the live code; end-to-end theorems for a call of unfold_part_maximal and for the ids "
              "(<id>-<visit number> for every shape of id; pairwise different ids even for duplicate originals) with no side condition; "
              "every segment table tiles the timeline (positive, contiguous, disjoint). "
              "Round 6: the maximal / minimal unfolding RETURNED by the entry points for the bracket family and D.C. al Fine / D.C. al Coda / "
              "D.S. al Coda; unfold_part_alignment as a whole (ids read, first shortest best-covering variant of iter_unfolded_parts, what "
              "it writes into the caller's alignment, idempotent; literals regenerated by calling the live function); signatures and clefs "
              "of a visited segment are in force at their shifted times for every part and path (signature_in_force). "
              "Tied to partitura by running the model and the real unfold functions on the same generated parts and comparing segment "
              "tables (as numbers and as id strings), ids, family membership, path lists and every copied object; an independent oracle "
              "re-checks the property clauses (incl. the playing order, computed from the notation alone in units of time, of parts "
              "made of disjoint repeats / bracket groups with a standard navigation form, up to 150 segments) on the implementation's output.")

REPO = os.environ.get("VERIF_REPO", "/repo")
FIXTURES = ["test_unfold_timeline.xml", "test_unfold_complex.xml", "test_unfold_volta_numbers.xml",
            "test_unfold_dacapo.xml", "test_partial_measures.xml", "test_partial_measures_consecutive.xml"]

MAX_PATHS_VAR = 400


# ------------------------------------------------------------------------------ generation
def _bars_of(d):
    p = G.build_part(d)
    ms = sorted((m.start.t, m.end.t, m.number) for m in p.measures)
    return ms


def _volta_numbers(rng, k):
    """k brackets, numbers 1..N in order, some brackets carrying several numbers"""
    out, n = [], 1
    for _ in range(k):
        c = 1 if rng.random() < 0.7 else 2
        out.append(",".join(str(x) for x in range(n, n + c)))
        n += c
    return out


ID_SHAPES = ("mnum", "chain", "numeric", "sep", "none", "dup")


def id_map(rng, d, shape=None):
    """round 5: the SHAPE of the original note ids (old id -> new id or None).  The ids gen_score makes are n<k>, g<k>, r<k>;
    real files carry ids that end in -<number> ('m3-2', match-file 'n4-1'), that are prefixes / suffixed forms of one another
    ('a', 'a-1', 'a-1-1'), that are plain numbers, that contain the separator, notes without an id, and (invalid, compared
    only) the same id twice.  `update_ids=True` must give `<original id>-<visit number>` whatever the id looks like."""
    shape = shape or rng.choice(ID_SHAPES)
    notes = d["notes"]
    bars = d.get("measures") if isinstance(d.get("measures"), list) else None
    out, used = {}, set()

    def fresh(make):
        for _ in range(50):
            x = make()
            if x not in used:
                used.add(x)
                return x
        x = "u%d" % len(used)
        used.add(x)
        return x
    percount = Counter()
    for k, n in enumerate(notes):
        if shape == "mnum":
            m = 0
            if bars:
                m = max([i for i, b in enumerate(bars) if b[0] <= n["t"]] or [0])
            percount[m] += 1
            new = "m%d-%d" % (m + 1, percount[m])
        elif shape == "chain":
            # a, a-1, a-1-1, a-2, a-1-2, b, b-1, ...: every id a prefix / a suffixed form of another one
            def mk():
                base = rng.choice("abc")
                return base + "".join("-%d" % rng.randint(1, 3) for _ in range(rng.choice([0, 1, 1, 2, 3])))
            new = fresh(mk)
        elif shape == "numeric":
            new = fresh(lambda: rng.choice(
                [str(rng.randint(0, 60)), "%d-%d" % (rng.randint(0, 9), rng.randint(0, 12)), "-%d" % rng.randint(1, 30),
                 "0%d" % rng.randint(0, 9)]))
        elif shape == "sep":
            new = fresh(lambda: rng.choice(["n-%d-x", "x--%d", "n-0%d", "n%d-", "n-%d", "P1-n%d", "note-000%d", "--%d", "n%d-0"])
                        % rng.randint(1, 40))
        elif shape == "none":
            new = None if rng.random() < 0.4 else fresh(lambda: rng.choice(["n%d", "n%d-1", "None-%d"]) % rng.randint(1, 60))
        else:  # dup: a few ids, several of them used more than once
            new = rng.choice(["d1", "d1-1", "d2", "d2-2"]) if rng.random() < 0.4 else fresh(lambda: "n%d-%d" % (rng.randint(1, 30), rng.randint(1, 2)))
        out[n["id"]] = new
    return shape, out


def with_ids(rng, out, p):
    """with probability p give the case an id shape (and make sure update_ids=True is exercised on it); every policy gets
    an `omit` mask: which keyword arguments the entry point is called WITHOUT (bit 0 update_ids, bit 1 ignore_leaps)"""
    for pol in out["pols"]:
        pol["omit"] = rng.choice([0, 0, 0, 1, 2, 3])
    if rng.random() < p:
        shape, mp = id_map(rng, out["part"])
        out["idshape"] = shape
        out["idmap"] = mp
        if not any(pol["upd"] and pol["pol"] in ("max", "all") for pol in out["pols"]):
            for pol in out["pols"]:
                if pol["pol"] in ("max", "all"):
                    pol["upd"] = True
                    break
    return out


def gen_structure(rng, bars):
    """extras (Repeat/Ending/marks) at bar lines; bars = [(s, e, num)]"""
    times = [b[0] for b in bars] + [bars[-1][1]]
    nb = len(bars)
    extras = []
    mode = rng.random()
    reps = []
    nrep = rng.choice([0, 1, 1, 2, 2, 3, 4])
    for _ in range(nrep):
        for _try in range(8):
            i = rng.randrange(0, nb)
            j = rng.randrange(i + 1, nb + 1)
            ok = True
            for (a, b) in reps:
                disjoint = j <= a or b <= i
                nested = (a <= i and j <= b) or (i <= a and b <= j)
                if mode < 0.5 and not disjoint:
                    ok = False
                if not (disjoint or nested) or (a, b) == (i, j):
                    ok = False
            if ok:
                reps.append((i, j))
                break
    for (i, j) in reps:
        extras.append(["Repeat", times[i], times[j], {}])
    # volta groups on some repeats
    used_volta = []
    for (i, j) in list(reps):
        if rng.random() < 0.45 and j - i >= 2:
            k = rng.choice([1, 2, 2, 2, 3, 3])
            nums = _volta_numbers(rng, k)
            # first bracket = last bar(s) of the repeat, the others follow it
            a = rng.randint(1, min(2, j - i - 1))
            pos = j - a
            spans = []
            cur = pos
            for b in range(k):
                ln = a if b == 0 else rng.randint(1, 2)
                if cur + ln > nb:
                    break
                spans.append((cur, cur + ln))
                cur += ln
            if any(not (e <= x or y <= s) for (s, e) in spans for (x, y) in used_volta):
                continue
            for b, (s, e) in enumerate(spans):
                extras.append(["Ending", times[s], times[e], {"number": nums[b]}])
                used_volta.append((s, e))
                if 0 < b < len(spans) - 1 and rng.random() < 0.8:
                    # a further backward repeat after every bracket but the last
                    extras.append(["Repeat", times[i], times[e], {}])
    if rng.random() < 0.08 and nb >= 2:
        # a stray bracket without a repeat
        s = rng.randrange(0, nb)
        extras.append(["Ending", times[s], times[min(nb, s + 1)], {"number": rng.choice(["1", "2", "1,2"])}])
    form = rng.choice(["none", "none", "none", "dc", "dcfine", "dcfine", "ds", "dsfine", "dccoda", "dscoda", "junk", "dcmid"])
    def bt(lo=0, hi=nb):
        return times[rng.randint(lo, hi)]
    if form == "dc":
        extras.append(["DaCapo", times[nb], None, {}])
    elif form == "dcmid":
        extras.append(["DaCapo", bt(1, nb), None, {}])
    elif form == "dcfine" and nb >= 2:
        extras.append(["Fine", bt(1, nb - 1), None, {}])
        extras.append(["DaCapo", times[nb] if rng.random() < 0.8 else bt(1, nb), None, {}])
    elif form == "ds" and nb >= 2:
        extras.append(["Segno", bt(0, nb - 1), None, {}])
        extras.append(["DalSegno", times[nb] if rng.random() < 0.8 else bt(1, nb), None, {}])
    elif form == "dsfine" and nb >= 3:
        s = rng.randint(0, nb - 2)
        extras.append(["Segno", times[s], None, {}])
        extras.append(["Fine", times[rng.randint(s + 1, nb - 1)], None, {}])
        extras.append(["DalSegno", times[nb], None, {}])
    elif form == "dccoda" and nb >= 3:
        a = rng.randint(1, nb - 2)
        b = rng.randint(a + 1, nb - 1)
        extras.append(["ToCoda", times[a], None, {}])
        extras.append(["DaCapo", times[b], None, {}])
        extras.append(["Coda", times[b] if rng.random() < 0.7 else times[min(nb - 1, b + 1)], None, {}])
    elif form == "dscoda" and nb >= 4:
        s = rng.randint(0, nb - 4)
        a = rng.randint(s + 1, nb - 2)
        b = rng.randint(a + 1, nb - 1)
        extras.append(["Segno", times[s], None, {}])
        extras.append(["ToCoda", times[a], None, {}])
        extras.append(["DalSegno", times[b], None, {}])
        extras.append(["Coda", times[b], None, {}])
    elif form == "junk":
        for _ in range(rng.randint(1, 3)):
            extras.append([rng.choice(["DaCapo", "Fine", "Segno", "DalSegno", "ToCoda", "Coda"]), bt(), None, {}])
    return extras


def gen_case(rng, big=False):
    nm = rng.randint(3, 12 if big else 9)
    d = G.random_part_desc(rng, n_measures=nm, voices=rng.choice([1, 1, 2]), staves=rng.choice([1, 1, 2]),
                           p_tie=0.25, p_grace=0.08, p_rest=0.1, p_chord=0.2)
    bars = _bars_of(d)
    d["measures"] = [list(b) for b in bars]
    times = [b[0] for b in bars] + [bars[-1][1]]
    end = times[-1]
    # signature / clef / division changes (inside repeated sections as well)
    for _ in range(rng.choice([0, 0, 1, 2])):
        d["ks"].append([rng.choice(times[:-1]), rng.randint(-7, 7), rng.choice(["major", "minor", None])])
    for _ in range(rng.choice([0, 0, 1, 2])):
        d["clefs"].append([rng.choice(times[:-1]), rng.randint(1, 2), rng.choice(["G", "F", "C"]), rng.choice([2, 3, 4]),
                           rng.choice([0, 0, 1])])
    if rng.random() < 0.2:
        # re-state a signature (suppression of unchanged signatures)
        t0, b0, bt0 = d["ts"][0]
        d["ts"].append([rng.choice(times[1:-1] or [times[0]]), b0, bt0])
    # at most one time signature / key signature per time and one clef per (time, staff)
    for key, slot in (("ts", lambda x: x[0]), ("ks", lambda x: x[0]), ("clefs", lambda x: (x[0], x[1]))):
        seen, keep = set(), []
        for x in d[key]:
            if slot(x) not in seen:
                seen.add(slot(x))
                keep.append(x)
        d[key] = keep
    d["qd"] = []
    for _ in range(rng.choice([0, 0, 0, 1, 2])):
        t = rng.choice(times[1:-1] or [times[0]]) if rng.random() < 0.7 else rng.randint(0, end - 1)
        d["qd"].append([t, rng.choice([1, 2, 3, 4, 6, 8, 12])])
    d["qd"].sort()
    d["extras"] = gen_structure(rng, bars)
    # fermatas, pages, systems
    for _ in range(rng.choice([0, 0, 1, 2])):
        d["extras"].append(["Fermata", rng.choice(times), None, {"ref": rng.choice([None, "right", "left"])}])
    if rng.random() < 0.3:
        d["extras"].append(["Page", 0, None, {"number": 1}])
        d["extras"].append(["System", rng.choice(times[:-1]), None, {"number": 1}])
    # slurs / tuplets between notes of the same voice (inside and across boundaries)
    notes = [n for n in d["notes"] if n["kind"] == "note"]
    spans = []
    for _ in range(rng.choice([0, 1, 2, 3, 4])):
        if len(notes) < 2:
            break
        a = rng.randrange(0, len(notes) - 1)
        cand = [m for m in notes[a + 1:a + 12] if m["voice"] == notes[a]["voice"] and m["t"] >= notes[a]["t"]]
        if not cand:
            continue
        b = rng.choice(cand)
        spans.append([rng.choice(["Slur", "Slur", "Tuplet"]), notes[a]["id"], b["id"]])
    d["spans"] = spans
    # policies
    pols = []
    for _ in range(rng.choice([1, 2, 3])):
        pols.append({"pol": rng.choice(["max", "max", "min", "all"]), "upd": rng.random() < 0.5, "il": rng.random() < 0.5,
                     "pick": [rng.random(), rng.random()]})
    if rng.random() < 0.08:
        pols.append({"pol": "score", "upd": rng.random() < 0.5, "il": rng.random() < 0.5, "pick": [0, 0]})
    if rng.random() < 0.08:
        pols.append({"pol": "align", "upd": True, "il": True, "pick": [rng.random(), rng.random()]})
        pols[-1]["am"] = (pols[-1]["pick"][0] * 7919.0) % 1.0   # round 6: what is done to the alignment (derived: the stream of cases is unchanged)
    if rng.random() < 0.15:
        d["warm"] = rng.choice([1, 2, 4, 8, 16, 31, 64, 95])  # read-only views interleaved with the construction (gen_score.build_part)
    out = {"k": "gen", "part": d, "pols": pols, "prereg": rng.random() < 0.15}
    if rng.random() < 0.12:
        out["hist"] = rng.randrange(0, 64)
    return with_ids(rng, out, 0.3)


def shape_case(rng, kind):
    """parts of the families the shape theorems speak about"""
    nm = rng.randint(3, 9) if kind != "nestvolta" else rng.randint(6, 10)
    d = G.random_part_desc(rng, n_measures=nm, voices=1, staves=1, p_tie=0.2)
    bars = _bars_of(d)
    d["measures"] = [list(b) for b in bars]
    times = [b[0] for b in bars] + [bars[-1][1]]
    d["qd"] = []
    d["spans"] = []
    ex = []
    if kind == "simple":
        cuts = sorted(rng.sample(range(0, nm + 1), min(nm + 1, 2 * rng.randint(1, 4))))
        for a, b in zip(cuts[0::2], cuts[1::2]):
            ex.append(["Repeat", times[a], times[b], {}])
    elif kind == "volta" and nm >= 4:
        k = rng.randint(1, 3)
        i = rng.randint(0, nm - 1 - k - 1) if nm - 1 - k - 1 >= 0 else 0
        j = rng.randint(i + 2, max(i + 2, nm - (k - 1)))
        j = min(j, nm - (k - 1))
        if j - i >= 2:
            nums = _volta_numbers(rng, k)
            for b in range(k):
                s, e = j - 1 + b, j + b
                ex.append(["Ending", times[s], times[e], {"number": nums[b]}])
                if b < k - 1 or k == 1:
                    ex.append(["Repeat", times[i], times[e], {}])
    elif kind == "nestvolta" and nm >= 5:
        # a volta group inside an outer repeat:  ... |: pre |: body [n.. ending :| [n.. ending | post :| ...
        k = rng.randint(2, 3)
        nums = _volta_numbers(rng, k)
        # bars: o .. i-1 pre, i .. j-2 body, j-1 .. j+k-2 endings, j+k-1 .. eo-1 post
        i = rng.randint(0, nm - k - 2)
        j = rng.randint(i + 2, nm - k + 1) if i + 2 <= nm - k + 1 else None
        if j is not None and j - 1 + k <= nm:
            # the outer repeat starts strictly before the inner one (a sign that shares its start with the volta
            # group is read as part of that group) and ends strictly after the last bracket
            o = rng.randint(0, i - 1) if i >= 1 else None
            eo = rng.randint(j + k, nm) if j + k <= nm else None
            if o is not None and eo is not None:
                ex.append(["Repeat", times[o], times[eo], {}])
                for b in range(k):
                    s_, e_ = j - 1 + b, j + b
                    ex.append(["Ending", times[s_], times[e_], {"number": nums[b]}])
                    if b < k - 1:
                        ex.append(["Repeat", times[i], times[e_], {}])
                d["nest"] = {"o": o, "eo": eo, "i": i, "j": j, "k": k, "nums": nums}
    elif kind == "nav" and nm >= 4:
        # the standard navigation forms, nothing else in the part
        form = rng.choice(["dc", "dcfine", "ds", "dsfine", "dccoda", "dscoda", "dscoda", "dcmid", "dsmid"])
        if form == "dc":
            ex.append(["DaCapo", times[nm], None, {}])
        elif form == "dcfine":
            ex.append(["Fine", times[rng.randint(1, nm - 1)], None, {}])
            ex.append(["DaCapo", times[nm], None, {}])
        elif form == "ds":
            ex.append(["Segno", times[rng.randint(0, nm - 1)], None, {}])
            ex.append(["DalSegno", times[nm], None, {}])
        elif form == "dsfine":
            s_ = rng.randint(0, nm - 2)
            ex.append(["Segno", times[s_], None, {}])
            ex.append(["Fine", times[rng.randint(s_ + 1, nm - 1)], None, {}])
            ex.append(["DalSegno", times[nm], None, {}])
        elif form == "dccoda":
            a = rng.randint(1, nm - 2)
            b = rng.randint(a + 1, nm - 1)
            ex += [["ToCoda", times[a], None, {}], ["DaCapo", times[b], None, {}], ["Coda", times[b], None, {}]]
        elif form == "dcmid":
            ex.append(["DaCapo", times[rng.randint(1, nm - 1)], None, {}])
        elif form == "dsmid":
            b = rng.randint(1, nm - 1)
            ex += [["Segno", times[rng.randint(0, b - 1)], None, {}], ["DalSegno", times[b], None, {}]]
        else:
            s_ = rng.randint(0, nm - 3)
            a = rng.randint(s_ + 1, nm - 2)
            b = rng.randint(a + 1, nm - 1)
            ex += [["Segno", times[s_], None, {}], ["ToCoda", times[a], None, {}], ["DalSegno", times[b], None, {}],
                   ["Coda", times[b], None, {}]]
    d["extras"] = ex
    pols = [{"pol": "max", "upd": True, "il": True, "pick": [0, 0]}, {"pol": "min", "upd": False, "il": True, "pick": [0, 0]},
            {"pol": "all", "upd": rng.random() < 0.5, "il": True, "pick": [rng.random(), rng.random()]}]
    if kind == "nav":
        pols.append({"pol": "max", "upd": False, "il": False, "pick": [0, 0]})
    if rng.random() < 0.15:
        d["warm"] = rng.choice([1, 2, 4, 8, 16, 31, 64, 95])
    return with_ids(rng, {"k": "gen", "part": d, "pols": pols}, 0.3)


def blocks_case(rng, lo, hi, light=True):
    """a part made of disjoint repeat blocks (simple repeats, repeats with 1-3 numbered brackets) separated by plain
    music, with at most one standard navigation form whose marks stand at block edges: between `lo` and `hi` segments.
    Small bars with one or two notes keep parts of 30-150 segments cheap (the segment ids run beyond 'Z')."""
    divs = rng.choice([1, 2, 2, 4])
    bar = 2 * divs
    want = rng.randint(lo, hi)
    blocks, nseg, nbars, visits = [], 0, 0, 0
    p_plain = rng.choice([0.0, 0.2, 0.4])
    p_volta = rng.choice([0.0, 0.25, 0.5, 1.0])
    while nseg < want and visits < 380:  # (twice that with a da capo: Python's recursion limit is near 990 visits)
        r = rng.random()
        if r < p_plain and (not blocks or blocks[-1][0] != "p"):
            n = rng.choice([1, 1, 2])
            blocks.append(("p", nbars, nbars + n))
            nbars += n
            nseg += 1
            visits += 1
        elif rng.random() < p_volta:
            k = rng.choice([1, 2, 2, 2, 3])
            nums = _volta_numbers(rng, k)
            body = rng.choice([1, 1, 2])
            blocks.append(("v", nbars, nbars + body + k, body, nums))
            nbars += body + k
            nseg += 1 + k
            visits += 2 * sum(len(x.split(",")) for x in nums)
        else:
            n = rng.choice([1, 1, 1, 2])
            blocks.append(("r", nbars, nbars + n))
            nbars += n
            nseg += 1
            visits += 2
    form = rng.choice(["none", "none", "none", "dc", "dcfine", "ds", "dsfine", "dccoda", "dscoda", "dcmid", "dsmid"])
    if blocks[-1][0] != "p" and rng.random() < (0.6 if form in ("dc", "dcfine", "ds", "dsfine") else 0.3):
        blocks.append(("p", nbars, nbars + 1))
        nbars += 1
    if rng.random() < 0.15 and blocks[0][0] != "p":
        # an upbeat-like opening: the first repeat does not start at the beginning
        blocks = [("p", 0, 1)] + [(b[0], b[1] + 1, b[2] + 1) + tuple(b[3:]) for b in blocks]
        nbars += 1
    times = [bar * i for i in range(nbars + 1)]
    ex = []
    for b in blocks:
        if b[0] == "r":
            ex.append(["Repeat", times[b[1]], times[b[2]], {}])
        elif b[0] == "v":
            _, a, e, body, nums = b
            k = len(nums)
            for i in range(k):
                s_ = a + body + i
                ex.append(["Ending", times[s_], times[s_ + 1], {"number": nums[i]}])
                if i < k - 1 or k == 1:
                    ex.append(["Repeat", times[a], times[s_ + 1], {}])
    # positions a mark may take: block edges and bar lines inside plain music
    inside = set()
    for b in blocks:
        if b[0] != "p":
            inside.update(range(b[1] + 1, b[2]))
    pos = [i for i in range(nbars + 1) if i not in inside]
    mid = [i for i in pos if 0 < i < nbars]
    plain_ends = set(b[2] for b in blocks if b[0] == "p")

    def jump_at(cands):
        # preferably after plain music (a jump instruction at the end of a repeated section is a case of its own)
        pe = [i for i in cands if i in plain_ends]
        return rng.choice(pe) if pe and rng.random() < 0.6 else rng.choice(cands)

    def below(cands, top, n):
        c_ = [i for i in cands if i < top]
        return sorted(rng.sample(c_, n)) if len(c_) >= n else None
    if form == "dc":
        ex.append(["DaCapo", times[nbars], None, {}])
    elif form == "dcfine" and mid:
        ex += [["Fine", times[rng.choice(mid)], None, {}], ["DaCapo", times[nbars], None, {}]]
    elif form == "ds":
        ex += [["Segno", times[rng.choice([i for i in pos if i < nbars])], None, {}], ["DalSegno", times[nbars], None, {}]]
    elif form == "dsfine" and below(pos, nbars, 2):
        s_, f_ = below(pos, nbars, 2)
        ex += [["Segno", times[s_], None, {}], ["Fine", times[f_], None, {}], ["DalSegno", times[nbars], None, {}]]
    elif form == "dccoda" and len(mid) >= 2:
        b_ = jump_at(mid[1:])
        a_, = below(mid, b_, 1)
        ex += [["ToCoda", times[a_], None, {}], ["DaCapo", times[b_], None, {}], ["Coda", times[b_], None, {}]]
    elif form == "dscoda" and len(pos) >= 4:
        b_ = jump_at(pos[2:-1])
        s_, a_ = below(pos, b_, 2)
        ex += [["Segno", times[s_], None, {}], ["ToCoda", times[a_], None, {}], ["DalSegno", times[b_], None, {}],
               ["Coda", times[b_], None, {}]]
    elif form == "dcmid" and mid:
        ex.append(["DaCapo", times[jump_at(mid)], None, {}])
    elif form == "dsmid" and len(pos) >= 3:
        b_ = jump_at(pos[1:-1])
        s_, = below(pos, b_, 1)
        ex += [["Segno", times[s_], None, {}], ["DalSegno", times[b_], None, {}]]
    else:
        form = "none"
    if form == "none" and len(pos) >= 4 and rng.random() < 0.12:
        # an outer repeat around several blocks (nesting: outside the block family, compared with the model and checked by
        # the general clauses only)
        s_, e_ = sorted(rng.sample(pos, 2))
        if not any(b[0] != "p" and (b[1], b[2]) == (s_, e_) for b in blocks):
            ex.append(["Repeat", times[s_], times[e_], {}])
            visits *= 2
    if rng.random() < 0.5:
        rng.shuffle(ex)  # the order in which the marks were added must not matter for blocks (it does for stacked signs)
    # the music: one or two notes per bar, some tied over the bar line, now and then a rest
    notes, nid, prev = [], 0, None
    for i in range(nbars):
        cuts = [0, bar] if rng.random() < 0.6 else [0, rng.randint(1, bar - 1), bar]
        for a_, b_ in zip(cuts[:-1], cuts[1:]):
            if rng.random() < 0.08:
                notes.append({"id": "r%d" % nid, "t": times[i] + a_, "dur": b_ - a_, "kind": "rest", "voice": 1, "staff": 1})
                prev = None
            else:
                n = {"id": "n%d" % nid, "t": times[i] + a_, "dur": b_ - a_, "kind": "note", "step": rng.choice(G.STEPS),
                     "alter": rng.choice([0, 0, 0, 1, -1]), "oct": rng.randint(3, 5), "voice": 1, "staff": 1}
                if prev is not None and rng.random() < (0.1 if light else 0.25):
                    n["step"], n["alter"], n["oct"] = prev["step"], prev["alter"], prev["oct"]
                    prev["tie"] = n["id"]
                notes.append(n)
                prev = n
            nid += 1
    d = {"id": "P0", "divs": divs, "ts": [[0, 2, 4]], "ks": [[0, rng.randint(-3, 3), "major"]], "clefs": [[0, 1, "G", 2, 0]],
         "notes": notes, "measures": [[times[i], times[i + 1], i + 1] for i in range(nbars)], "extras": ex, "qd": [], "spans": []}
    if rng.random() < 0.3:
        t_ = times[rng.randint(1, nbars - 1)] if nbars > 1 else 0
        d["ts"].append([t_, 2, 4])  # restated signature inside
    if rng.random() < 0.25:
        d["warm"] = rng.choice([1, 2, 4, 8, 16, 31, 64, 95])  # (bit 5, the "full" readers, costs 2 s a build)
    nav = form != "none"
    pols = [{"pol": "max", "upd": rng.random() < 0.5, "il": True, "pick": [0, 0]},
            {"pol": "min", "upd": False, "il": True, "pick": [0, 0]}]
    if nav:
        pols.append({"pol": "max", "upd": rng.random() < 0.5, "il": False, "pick": [0, 0]})
    branching = sum(1 if b[0] == "r" else 2 * len(b[4]) for b in blocks if b[0] != "p")
    if branching <= (3 if nav else 6):
        pols.append({"pol": "all", "upd": rng.random() < 0.5, "il": True, "pick": [rng.random(), rng.random()]})
    if rng.random() < 0.1:
        pols.append({"pol": "score", "upd": True, "il": rng.random() < 0.5, "pick": [0, 0]})
    out = {"k": "gen", "part": d, "pols": pols, "prereg": rng.random() < 0.1, "blocks": len(blocks),
           "visits": visits * (2 if nav else 1)}
    if rng.random() < 0.15:
        out["hist"] = rng.randrange(0, 64)
    return with_ids(rng, out, 0.3)


def cases(rng, tier):
    # quick keeps its time budget: variants are built only for parts with at most 120 paths there (400 otherwise)
    for d in _cases(rng, tier):
        if tier == "quick":
            d["mv"] = 120
        yield d


def _cases(rng, tier):
    for fn in FIXTURES:
        for upd in (False, True):
            yield {"k": "fixture", "file": fn, "pols": [
                {"pol": "max", "upd": upd, "il": True, "pick": [0, 0]},
                {"pol": "max", "upd": upd, "il": False, "pick": [0, 0]},
                {"pol": "min", "upd": False, "il": True, "pick": [0, 0]},
                {"pol": "all", "upd": upd, "il": True, "pick": [0.3, 0.9]}]}
    # parts with many segments (ids beyond 'Z'): few of them, they are the expensive ones
    many = {"quick": 8, "thorough": 120, "search": 160}.get(tier, 8)
    for i in range(many):
        if tier != "quick" and i % 6 == 0:
            yield blocks_case(rng, 61, 150)
        else:
            yield blocks_case(rng, 27, 60)
    n = {"quick": 110, "thorough": 3000, "search": 4000}.get(tier, 110)
    for i in range(n):
        r = rng.random()
        if r < 0.14:
            yield blocks_case(rng, 2, 14, light=False)
        elif r < 0.24:
            yield shape_case(rng, "simple")
        elif r < 0.24:
            yield shape_case(rng, "volta")
        elif r < 0.28:
            yield shape_case(rng, "none")
        elif r < 0.36:
            yield shape_case(rng, "nav")
        elif r < 0.46:
            yield shape_case(rng, "nestvolta")
        else:
            yield gen_case(rng, big=(tier != "quick" and rng.random() < 0.2))
    # round 6: parts unfolded by an alignment (unfold_part_alignment as a whole); AFTER everything else, so that the cases above
    # are the ones of the earlier rounds
    for i in range({"quick": 20, "thorough": 200, "search": 300}.get(tier, 20)):
        d = gen_case(rng)
        d["pols"] = [{"pol": "align", "upd": True, "il": True, "pick": [rng.random(), rng.random()], "am": rng.random()}]
        yield d
    # round 6 (missed seeds k, l), AFTER everything else again:
    #  * notes / rests HELD over a boundary at which paths jump (parts read from MusicXML never have them, parts built through the
    #    API may): the `copies` clause demands the unchanged duration on every visit
    #  * in-place edits of plain attributes the paths depend on (Ending.number) between two unfoldings of one Part object
    for i in range({"quick": 36, "thorough": 400, "search": 600}.get(tier, 36)):
        r = rng.random()
        d = (shape_case(rng, rng.choice(["simple", "volta", "nav", "nestvolta"])) if r < 0.4 else
             blocks_case(rng, 2, 10, light=False) if r < 0.55 else gen_case(rng))
        if d.get("k") == "fixture" or "part" not in d:
            continue
        d.pop("hist", None)
        if i % 3 != 2:
            add_held(rng, d["part"])
            if not any(p_["pol"] == "max" for p_ in d["pols"]):
                d["pols"].append({"pol": "max", "upd": rng.random() < 0.5, "il": rng.random() < 0.5, "pick": [0, 0]})
        if i % 3 != 0:
            ren = {}
            for cls, st, en, kw in d["part"].get("extras", []):
                if cls == "Ending":
                    was = rng.choice([x for x in ("1", "2", "3", "1,2", "2,3", "1,2,3", "4") if x != str(kw.get("number"))])
                    ren["%s:%s:%s" % (st, en, kw.get("number"))] = was
            if ren:
                d["renum"] = ren
                d["prereg"] = False
        yield d


def add_held(rng, d):
    """notes / rests of a further voice that start before a structural boundary (repeat sign, bracket, navigation mark) and end after it"""
    last = max([m[1] for m in d["measures"]]) if isinstance(d.get("measures"), list) and d["measures"] else max(
        [n["t"] + n["dur"] for n in d["notes"]] + [1])
    bounds = sorted(set(t for cls, st, en, kw in d.get("extras", []) if cls in (
        "Repeat", "Ending", "DaCapo", "DalSegno", "Fine", "Segno", "Coda", "ToCoda") for t in (st, en) if t is not None and 0 < t < last))
    if not bounds:
        bounds = [t for t in sorted(set(m[0] for m in d["measures"])) if 0 < t < last][:3] if isinstance(d.get("measures"), list) else []
    staves = sorted(set(n["staff"] for n in d["notes"])) or [1]
    k = 0
    for _ in range(rng.choice([1, 1, 2, 3])):
        if not bounds:
            break
        b = rng.choice(bounds)
        t = rng.randint(max(0, b - rng.choice([1, 2, 4, 8, 24])), b - 1)
        end = rng.randint(b + 1, min(last, b + rng.choice([1, 2, 4, 8, 24, 96])))
        kind = "rest" if rng.random() < 0.2 else "note"
        n = {"id": "h%d" % k, "t": t, "dur": end - t, "kind": kind, "step": rng.choice(G.STEPS), "alter": 0, "oct": rng.randint(2, 5),
             "voice": rng.choice([3, 3, 4, 1]), "staff": rng.choice(staves)}
        d["notes"].append(n)
        k += 1
    return d


# ------------------------------------------------------------------------------ building and reading the real objects
def build(desc):
    import partitura.score as S

    if desc["k"] == "fixture":
        import partitura

        sc = partitura.load_musicxml(os.path.join(REPO, "tests", "data", "musicxml", desc["file"]), validate=False)
        return sc[0]
    d = desc["part"]
    p = G.build_part(d)
    if desc.get("hist") is not None and d.get("extras"):
        # an edit history: one mark is taken off again, the part is unfolded in that state (whatever the unfold functions
        # memoise is now warm), and the mark is put back.  The finished part is the one described by `d`.
        cls, st, en, kw = d["extras"][int(desc["hist"]) % len(d["extras"])]
        found = [o for o in p.iter_all(getattr(S, cls)) if o.start.t == st and (en is None or (o.end is not None and o.end.t == en))
                 and all(getattr(o, k_, None) == v_ for k_, v_ in kw.items())]
        if found and cls in ("Repeat", "Ending", "DaCapo", "DalSegno", "Fine", "Segno", "Coda", "ToCoda"):
            o = found[-1]
            p.remove(o)
            for f in (lambda: S.get_paths(p), lambda: S.get_paths(p, all_repeats=True, ignore_leap_info=False),
                      lambda: S.unfold_part_maximal(p), lambda: S.unfold_part_minimal(p)):
                try:
                    guarded(f, 3)  # (warm-up readers only: cutting one short is no verdict, get_paths does not touch the part)
                except _Timeout:
                    pass
            p.add(o, st, en)
    byid = {n.id: n for n in p.iter_all(S.GenericNote, include_subclasses=True)}
    if desc.get("renum") and not desc.get("_twin"):
        # an edit history on plain attributes: the brackets first carry other numbers, the part is unfolded in that state by every
        # entry point, then Ending.number is assigned in place (no add / remove).  The finished part is the one described by `d`.
        pend = []
        for o in p.iter_all(S.Ending):
            was = desc["renum"].get("%s:%s:%s" % (o.start.t, None if o.end is None else o.end.t, o.number))
            if was is not None:
                pend.append((o, o.number))
                o.number = was
        if pend:
            for f in (lambda: S.get_paths(p), lambda: S.get_paths(p, all_repeats=True, ignore_leap_info=False),
                      lambda: S.get_paths(p, no_repeats=True), lambda: S.unfold_part_maximal(p), lambda: S.unfold_part_minimal(p),
                      lambda: list(S.iter_unfolded_parts(p))):
                try:
                    guarded(f, 3)
                except _Timeout:
                    pass
            for o, num in pend:
                o.number = num
    for cls, a, b in d.get("spans", []):
        na, nb = byid.get(a), byid.get(b)
        if na is None or nb is None:
            continue
        if cls == "Slur":
            o = S.Slur(na, nb)
        else:
            o = S.Tuplet(na, nb, actual_notes=3, normal_notes=2)
        p.add(o, na.start.t, nb.end.t)
    mp = desc.get("idmap")
    if mp:
        # round 5: the shape of the note ids (see id_map); the construction above refers to notes by the ids gen_score made
        for n in list(p.iter_all(S.GenericNote, include_subclasses=True)):
            if n.id in mp:
                n.id = mp[n.id]
    return p


def ordered_objects(part):
    """starting objects in the order create_variant_part meets them"""
    out = []
    for tp in part._points:
        for cls, objs in tp.starting_objects.items():
            for o in objs:
                out.append(o)
    return out


def tag(part):
    objs = ordered_objects(part)
    for i, o in enumerate(objs):
        o._vidx = i
    return objs


def kind_code(o):
    import partitura.score as S

    if isinstance(o, S.Repeat):
        return 10
    if isinstance(o, S.Ending):
        return 11
    if isinstance(o, S.ToCoda):
        return 12
    if isinstance(o, S.DaCapo):
        return 13
    if isinstance(o, S.DalSegno):
        return 14
    if isinstance(o, S.Segment):
        return 15
    if isinstance(o, S.System):
        return 16
    if isinstance(o, S.Page):
        return 17
    if isinstance(o, S.TimeSignature):
        return 20
    if isinstance(o, S.KeySignature):
        return 21
    if isinstance(o, S.Clef):
        return 22
    if type(o) is S.Fermata:
        return 30
    if isinstance(o, S.Note):
        return 1
    if isinstance(o, S.GenericNote):
        return 2
    return 0


_NOTE_CLASSES = None


def note_class_rank(o):
    """position of the object's class in `[Note] + list(iter_subclasses(Note))`: the order in which `part.notes`
    (= iter_all(Note, include_subclasses=True)) lists the objects that start at one time point; 0 for everything else"""
    global _NOTE_CLASSES
    if _NOTE_CLASSES is None:
        import partitura.score as S
        from partitura.utils.generic import iter_subclasses

        _NOTE_CLASSES = [S.Note] + list(iter_subclasses(S.Note))
    try:
        return _NOTE_CLASSES.index(type(o))
    except ValueError:
        return 0


def _code(x):
    if x is None:
        return -1
    if isinstance(x, bool):
        return int(x)
    if isinstance(x, int):
        return int(x)
    if isinstance(x, str):
        return 1000 + sum((i + 1) * ord(c) for i, c in enumerate(x))
    try:
        return int(x)
    except Exception:
        return -2


def payload(o):
    import partitura.score as S

    k = kind_code(o)
    if k == 1 or k == 2:
        mp = getattr(o, "midi_pitch", None) if isinstance(o, S.Note) else None
        return [_code(mp), _code(o.voice), _code(o.staff)]
    if k == 20:
        return [_code(o.beats), _code(o.beat_type)]
    if k == 21:
        return [_code(o.fifths), _code(o.mode)]
    if k == 22:
        # (round 6: the octave change belongs to the clef - fixes/C09-9: the code compared sign, line and staff only)
        return [_code(o.sign), _code(o.line), _code(o.staff),
                99 if getattr(o, "octave_change", None) is None else _code(o.octave_change)]
    if k == 30:
        return [1 if (o.ref is None or o.ref == "right") else 0]
    return []


def ref_lists(o):
    """[(attr, was_list, [targets])]"""
    out = []
    for a in getattr(o, "_ref_attrs", []):
        v = getattr(o, a)
        if v is None:
            out.append((a, False, []))
        elif isinstance(v, list):
            out.append((a, True, list(v)))
        else:
            out.append((a, False, [v]))
    return out


def layout_of(part):
    import partitura.score as S

    reps = [(r.start.t, r.end.t) for r in part.iter_all(S.Repeat) if r.start is not None and r.end is not None]
    ends = []
    for v in part.iter_all(S.Ending):
        if v.start is None or v.end is None:
            continue
        nums = [int(n) for n in v.number.split(",")]
        ends.append((v.start.t, v.end.t, nums))
    L = {"first": part.first_point.t, "last": part.last_point.t, "repeats": reps, "endings": ends}
    for key, cls in (("codas", S.Coda), ("tocodas", S.ToCoda), ("dacapos", S.DaCapo), ("fines", S.Fine),
                     ("segnos", S.Segno), ("dalsegnos", S.DalSegno)):
        L[key] = [c.start.t for c in part.iter_all(cls)]
    return L


def layout_tokens(L):
    t = [W.i(L["first"]), W.i(L["last"]), str(len(L["repeats"]))]
    for s, e in L["repeats"]:
        t += [W.i(s), W.i(e)]
    t.append(str(len(L["endings"])))
    for s, e, ns in L["endings"]:
        t += [W.i(s), W.i(e), W.lst(W.i, ns)]
    for key in ("codas", "tocodas", "dacapos", "fines", "segnos", "dalsegnos"):
        t.append(W.lst(W.i, L[key]))
    return " ".join(t)


def part_tokens(part, objs):
    t = [W.lst(W.i, [tp.t for tp in part._points]), str(len(objs))]
    for o in objs:
        t.append(str(kind_code(o)))
        t.append(W.i(o.start.t))
        t.append(W.opt(W.i, None if o.end is None else o.end.t))
        t.append(W.lst(W.i, payload(o)))
        t.append(W.opt(W.s, getattr(o, "id", None) if kind_code(o) in (1, 2) else None))
        t.append(str(note_class_rank(o)))
        rl = ref_lists(o)
        t.append(str(len(rl)))
        for a, was_list, tg in rl:
            t.append(W.lst(W.i, [x._vidx for x in tg if x is not None and hasattr(x, "_vidx")]))
    qd = list(zip(part._quarter_times, part._quarter_durations))
    t.append(str(len(qd)))
    for a, b in qd:
        t += [W.i(a), W.i(b)]
    return " ".join(t)


def seg_index(sid):
    return "E" if sid == "END" else str(ord(sid[0]) - 65) if len(sid) == 1 else "?" + sid


def canon_variant(u, orig_objs):
    """canonical text of an unfolded part, the same shape the driver prints"""
    pts = [tp.t for tp in u._points]
    rows = []
    for o in ordered_objects(u):
        k = kind_code(o)
        vid = getattr(o, "_vidx", None)
        src = orig_objs[vid] if vid is not None and vid < len(orig_objs) else None
        refs = []
        src_refs = ref_lists(src) if src is not None else []
        for n, (a, was_list, tg) in enumerate(ref_lists(o)):
            if not was_list and not tg:
                # a single reference that is None now: `-` when the original had one
                had = n < len(src_refs) and len(src_refs[n][2]) > 0
                refs.append("[-]" if had else "[]")
                continue
            items = []
            for x in tg:
                if x is None:
                    items.append("-")
                elif getattr(x, "start", None) is None or not hasattr(x, "_vidx"):
                    items.append("?")
                else:
                    items.append("%d@%d" % (x._vidx, x.start.t))
            refs.append("[" + ",".join(items) + "]")
        oid = getattr(o, "id", None) if k in (1, 2) else None
        st = -1 if o.start is None else o.start.t  # (a copy detached from its time point: unrepaired code only)
        row = W.f_tuple(W.f_int(st), W.f_opt(W.f_int, None if o.end is None else o.end.t), str(k),
                        str(-1 if vid is None else vid), "-" if oid is None else "=" + str(oid),
                        W.f_list(W.f_int, payload(o)), "[" + ",".join(refs) + "]")
        rows.append((st, -1 if vid is None else vid, row))
    rows.sort()
    qd = list(zip(u._quarter_times, u._quarter_durations))
    dur = "-" if not pts else str(pts[-1] - pts[0])
    return W.f_tuple(W.f_list(W.f_int, pts), "[" + ",".join(r[2] for r in rows) + "]",
                     W.f_list(lambda q: W.f_tuple(W.f_int(q[0]), W.f_int(q[1])), qd), dur)


_Timeout = CpuTimeout  # (a BaseException: `except Exception` in the code under test does not swallow it)


def guarded(f, seconds=30):
    """(result, exception) with a limit on the CPU time of this process (harness/cpulimit.py: a loaded machine is not a
    timeout, an enumeration that does not terminate still is); _Timeout propagates"""
    try:
        return run_limited(seconds, f), None
    except _Timeout:
        raise
    except Exception as e:
        return None, e


FLAGS = {"max": lambda pol: (False, True, pol["il"]), "min": lambda pol: (True, False, True),
         "all": lambda pol: (False, False, True), "score": lambda pol: (False, True, pol["il"]),
         "align": lambda pol: (False, False, True)}


# ------------------------------------------------------------------------------ oracle helpers
STRUCT = ("Repeat", "Ending", "DaCapo", "DalSegno", "ToCoda", "Segment")


def all_registered(part):
    seen, out = set(), []
    for tp in part._points:
        for reg in (tp.starting_objects, tp.ending_objects):
            for cls, objs in reg.items():
                for o in objs:
                    if id(o) not in seen:
                        seen.add(id(o))
                        out.append(o)
    return out


def oracle_variant(tagname, part, orig_objs, orig_ids, u, segtab, path, upd):
    """property clauses on one unfolded part `u` made along `path` (list of segment ids);
    segtab: id -> (start, end)"""
    import partitura.score as S

    fails = []
    visits = []
    off = 0
    for sid in path:
        s, e = segtab[sid]
        visits.append((sid, s, e, off))
        off += e - s
    total = off
    # -- no structure left
    for o in all_registered(u):
        if type(o).__name__ in STRUCT or isinstance(o, (S.Repeat, S.Ending, S.DaCapo, S.DalSegno, S.ToCoda, S.Segment)):
            fails.append("leftover: %s: a %s remains in the unfolded part at %s" % (tagname, type(o).__name__, o.start and o.start.t))
            break
    # -- per-visit copies of every note / rest
    exp = Counter()
    rank = defaultdict(int)
    visit_rank = {}
    for vi, (sid, s, e, o_) in enumerate(visits):
        rank[sid] += 1
        visit_rank[vi] = rank[sid]
    idcount = Counter(o.id for o in orig_objs if isinstance(o, S.Note) and o.id is not None)
    for vi, (sid, s, e, o_) in enumerate(visits):
        for n in orig_objs:
            if isinstance(n, S.GenericNote) and s <= n.start.t < e:
                nid = n.id
                if upd and isinstance(n, S.Note) and nid is not None:
                    if idcount[nid] != 1:
                        nid = ("dup", nid)
                    else:
                        nid = "%s-%d" % (nid, visit_rank[vi])
                exp[(nid, type(n).__name__, n.start.t - s + o_, None if n.end is None else n.end.t - n.start.t,
                     getattr(n, "midi_pitch", None) if isinstance(n, S.Note) else None, n.voice, n.staff)] += 1
    got = Counter()
    for n in u.iter_all(S.GenericNote, include_subclasses=True):
        nid = n.id
        if upd and isinstance(n, S.Note) and nid is not None and idcount[nid.rsplit("-", 1)[0]] > 1:
            nid = ("dup", nid.rsplit("-", 1)[0])  # (several originals share this id: invalid input, compared with the model only)
        got[(nid, type(n).__name__, n.start.t, None if n.end is None else n.end.t - n.start.t,
             getattr(n, "midi_pitch", None) if isinstance(n, S.Note) else None, n.voice, n.staff)] += 1
    if got != exp:
        miss = list((exp - got).items())[:3]
        extra = list((got - exp).items())[:3]
        strip = lambda c: Counter(k[1:] for k in c.elements())
        if strip(got) == strip(exp):
            # every note is where it belongs with pitch, duration, voice and staff: only the ids are wrong
            fails.append("ids: %s: %s; expected %r, got %r" % (
                tagname, "with update_ids every note must carry <original id>-<visit number> whatever the id looks like" if upd
                else "without update_ids the copies keep the original ids", sorted((k[0] for k, _ in miss if not isinstance(k[0], tuple)), key=repr),
                sorted((k[0] for k, _ in extra if not isinstance(k[0], tuple)), key=repr)))
        else:
            fails.append("copies: %s: notes of the unfolded part are not one shifted copy per visit; missing %r, unexpected %r" % (tagname, miss, extra))
    # -- the quarter duration in force at a copy's onset is the one in force at the original's onset
    try:
        qo, qu = part.quarter_duration_map, u.quarter_duration_map
        for vi, (sid, s, e, o_) in enumerate(visits):
            bad = None
            for n in orig_objs:
                if isinstance(n, S.GenericNote) and s <= n.start.t < e:
                    a, b = int(qo(n.start.t)), int(qu(n.start.t - s + o_))
                    if a != b:
                        bad = (n.id, n.start.t, a, n.start.t - s + o_, b)
                        break
            if bad:
                fails.append("quarter: %s: note %s at %d has quarter duration %d, its copy at %d has %d" % ((tagname,) + bad))
                break
    except Exception as ex:  # a map that cannot be built is a C02 matter
        pass
    # -- length
    crossing = False
    for vi, (sid, s, e, o_) in enumerate(visits):
        for o in orig_objs:
            if s <= o.start.t < e and o.end is not None and o.end.t > e and kind_code(o) not in (10, 11, 12, 13, 14, 15, 16, 17):
                crossing = True
    if visits and not crossing:
        sid, s, e, o_ = visits[-1]
        closes = any(o.end is not None and o.end.t == e and s <= o.start.t < e and kind_code(o) not in (10, 11, 12, 13, 14, 15, 16, 17, 20, 21, 22)
                     for o in orig_objs)
        if closes:
            ln = u.last_point.t - u.first_point.t
            if ln != total or u.first_point.t != 0:
                fails.append("length: %s: unfolded part spans %d..%d, the visited segments sum to %d" % (tagname, u.first_point.t, u.last_point.t, total))
    # -- references closed inside the copy
    registered = {}
    for tp in u._points:
        for cls, objs in tp.starting_objects.items():
            for o in objs:
                registered[id(o)] = o

    def window(t):
        for vi, (sid, s, e, o_) in enumerate(visits):
            if o_ <= t < o_ + (e - s):
                return vi
        return None
    done = False
    for o in list(registered.values()):
        if done:
            break
        if o.start is None or u.get_point(o.start.t) is not o.start:
            fails.append("refs-closed: %s: a copied %s is not attached to a time point of the unfolded part" % (tagname, type(o).__name__))
            break
        if o.end is not None and u.get_point(o.end.t) is not o.end and not (type(o) is S.Fermata):
            fails.append("refs-closed: %s: the end of a copied %s is a time point outside the unfolded part" % (tagname, type(o).__name__))
            break
        wv = window(o.start.t)
        src = orig_objs[o._vidx] if hasattr(o, "_vidx") else None
        src_refs = ref_lists(src) if src is not None else []
        for n, (a, was_list, tg) in enumerate(ref_lists(o)):
            seen_t = set()
            for x in tg:
                if x is None:
                    continue
                if id(x) in orig_ids:
                    fails.append("refs-closed: %s: %s.%s of a copy refers to an object of the original part" % (tagname, type(o).__name__, a))
                    done = True
                    break
                if id(x) not in registered and not (x.start is not None and u.get_point(x.start.t) is x.start):
                    fails.append("refs-closed: %s: %s.%s refers to an object that is not in the unfolded part" % (tagname, type(o).__name__, a))
                    done = True
                    break
                if x.start is not None and window(x.start.t) != wv:
                    fails.append("refs-closed: %s: %s.%s at %d refers to a copy made in another visit (at %d)" % (tagname, type(o).__name__, a, o.start.t, x.start.t))
                    done = True
                    break
                if id(x) in seen_t:
                    fails.append("refs-closed: %s: %s.%s lists the same object twice" % (tagname, type(o).__name__, a))
                    done = True
                    break
                seen_t.add(id(x))
            if done:
                break
            # a reference between two objects copied in the same visit must survive
            if src is not None and wv is not None and n < len(src_refs):
                sid, s, e, o_ = visits[wv]
                want = [x for x in src_refs[n][2] if x is not None and x.start is not None and s <= x.start.t < e
                        and kind_code(x) in (0, 1, 2)]
                have = set(getattr(x, "_vidx", None) for x in tg if x is not None)
                for x in want:
                    if x._vidx not in have:
                        fails.append("refs-closed: %s: %s.%s: the reference to an object copied in the same visit was lost" % (tagname, type(o).__name__, a))
                        done = True
                        break
            if done:
                break
    # -- neighbouring time points
    pts = list(u._points)
    for a, b in zip(pts[:-1], pts[1:]):
        if a.next is not b or b.prev is not a or not a.t < b.t:
            fails.append("refs-closed: %s: prev/next links of the time points %d, %d are not consistent" % (tagname, a.t, b.t))
            break
    if pts and (pts[0].prev is not None or pts[-1].next is not None):
        fails.append("refs-closed: %s: first/last time point has a neighbour outside the part" % tagname)
    # -- signatures and clefs (round 6, Props/C09Sig.signature_in_force): a TimeSignature / KeySignature / Clef that starts inside a
    #    visited segment is in force at its shifted time in the unfolded part - the code may leave its copy out only when the
    #    previous one says the same.  Judged where the original has one signature per (class, time) and one clef per (staff, time).
    def sigval(o):
        if isinstance(o, S.TimeSignature):
            return ("TimeSignature", None, (o.beats, o.beat_type))
        if isinstance(o, S.KeySignature):
            return ("KeySignature", None, (o.fifths, o.mode))
        return ("Clef", o.staff, (o.sign, o.line, o.octave_change))
    osigs = [o for o in orig_objs if isinstance(o, (S.TimeSignature, S.KeySignature, S.Clef))]
    slots = Counter(sigval(o)[:2] + (o.start.t,) for o in osigs)
    usigs = defaultdict(list)
    for cls in (S.TimeSignature, S.KeySignature, S.Clef):
        for o in u.iter_all(cls):
            k_, st_, val_ = sigval(o)
            usigs[(k_, st_)].append((o.start.t, val_))
    done = False
    for vi, (sid, s, e, o_) in enumerate(visits):
        for o in osigs:
            if not (s <= o.start.t < e) or slots[sigval(o)[:2] + (o.start.t,)] != 1:
                continue
            k_, st_, val_ = sigval(o)
            t = o.start.t - s + o_
            cands = [(tt, v) for tt, v in usigs[(k_, st_)] if tt <= t]
            latest = max((tt for tt, _ in cands), default=None)
            if latest is None or val_ not in [v for tt, v in cands if tt == latest]:
                fails.append("signatures: %s: the %s %r at %d of the original (visit %d of segment %s) is not in force at %d in the unfolded "
                             "part: %r" % (tagname, k_, val_, o.start.t, vi, sid, t,
                                           None if latest is None else [v for tt, v in cands if tt == latest]))
                done = True
                break
        if done:
            break
    # -- proposed open finding C09/signatures-at-start (round 6): the signature in force at the START of a visited segment when no
    #    signature object starts there is whatever the previously copied segment left behind.  The clause is active only once the
    #    coordinator has accepted the finding into known_findings.json (this module never edits that file).
    if _sigstart_active():
        done = False
        for vi, (sid, s, e, o_) in enumerate(visits):
            if vi == 0:
                continue
            for (k_, st_) in sorted(set(sigval(o)[:2] for o in osigs), key=repr):
                mine = [o for o in osigs if sigval(o)[:2] == (k_, st_)]
                if any(o.start.t == s for o in mine) or any(slots[(k_, st_, o.start.t)] != 1 for o in mine):
                    continue
                before = [o for o in mine if o.start.t < s]
                if not before:
                    continue
                val_ = sigval(max(before, key=lambda o: o.start.t))[2]
                cands = [(tt, v) for tt, v in usigs[(k_, st_)] if tt <= o_]
                latest = max((tt for tt, _ in cands), default=None)
                if latest is None or val_ not in [v for tt, v in cands if tt == latest]:
                    fails.append("signatures-at-start: %s: visit %d (segment %s, from %d) starts at %d of the unfolded part under the %s %r, in the "
                                 "original %r is in force there" % (tagname, vi, sid, s, o_, k_,
                                                                    None if latest is None else [v for tt, v in cands if tt == latest], val_))
                    done = True
                    break
            if done:
                break
    return fails


_SIGSTART = None


def _sigstart_active():
    global _SIGSTART
    if _SIGSTART is None:
        try:
            kf = json.load(open(os.path.join(os.path.dirname(os.path.abspath(__file__)), "..", "..", "known_findings.json")))
            items = kf if isinstance(kf, list) else kf.get("findings", kf.get("entries", []))
            _SIGSTART = any(isinstance(x, dict) and x.get("signature") == "C09/signatures-at-start" for x in items)
        except Exception:  # noqa
            _SIGSTART = False
    return _SIGSTART


def simple_layout(L):
    """r pairwise disjoint simple repeats, nothing else -> sorted list of (s,e), else None"""
    if L["endings"] or any(L[k] for k in ("codas", "tocodas", "dacapos", "fines", "segnos", "dalsegnos")):
        return None
    reps = sorted(set(L["repeats"]))
    if len(reps) != len(L["repeats"]):
        return None
    for (a, b), (c, d) in zip(reps[:-1], reps[1:]):
        if not b <= c:
            return None
    if any(not (L["first"] <= a < b <= L["last"]) for a, b in reps):
        return None
    return reps


def nav_layout(L):
    """the standard navigation forms in a part that starts at 0 and has no repeats and no endings:
    returns (name, [(from, to)] = the stretches of time in the order they are played), else None.
      D.C. (al Fine)      DaCapo at the end, at most one Fine strictly inside
      D.S. (al Fine)      DalSegno at the end, one Segno before it, at most one Fine strictly between them
      D.C. / D.S. before the end of the part, no Fine, no Coda (obeyed once, then on to the end)
      D.C. al Coda        ToCoda at a, DaCapo and Coda at b, 0 < a < b < end
      D.S. al Coda        Segno at s, ToCoda at a, DalSegno and Coda at b, 0 <= s < a < b < end"""
    if L["repeats"] or L["endings"] or L["first"] != 0 or not L["first"] < L["last"]:
        return None
    end = L["last"]
    dc, ds, sg, fi, co, tc = L["dacapos"], L["dalsegnos"], L["segnos"], L["fines"], L["codas"], L["tocodas"]
    if dc == [end] and not (ds or sg or co or tc) and len(fi) <= 1:
        if fi and not 0 < fi[0] < end:
            return None
        return ("dc-fine" if fi else "dc"), [(0, end), (0, fi[0] if fi else end)]
    if ds == [end] and len(sg) == 1 and not (dc or co or tc) and len(fi) <= 1 and 0 <= sg[0] < end:
        if fi and not sg[0] < fi[0] < end:
            return None
        return ("ds-fine" if fi else "ds"), [(0, end), (sg[0], fi[0] if fi else end)]
    # the jump instruction stands before the end of the part and nothing tells where to stop: it is obeyed once,
    # then the part is played through to its end
    if len(dc) == 1 and 0 < dc[0] < end and not (ds or sg or co or tc or fi):
        return "dc-mid", [(0, dc[0]), (0, end)]
    if len(ds) == 1 and len(sg) == 1 and 0 <= sg[0] < ds[0] < end and not (dc or co or tc or fi):
        return "ds-mid", [(0, ds[0]), (sg[0], end)]
    if len(dc) == 1 and co == dc and len(tc) == 1 and not (ds or sg or fi) and 0 < tc[0] < dc[0] < end:
        return "dc-coda", [(0, dc[0]), (0, tc[0]), (dc[0], end)]
    if len(ds) == 1 and co == ds and len(tc) == 1 and len(sg) == 1 and not (dc or fi) and 0 <= sg[0] < tc[0] < ds[0] < end:
        return "ds-coda", [(0, ds[0]), (sg[0], tc[0]), (ds[0], end)]
    return None


def volta_layout(L):
    """one repeated section with brackets 1..N in order: body [a, v0), brackets [v0,v1) [v1,v2) ...;
    returns (a, [bracket spans], [numbers]) else None"""
    if any(L[k] for k in ("codas", "tocodas", "dacapos", "fines", "segnos", "dalsegnos")) or not L["endings"] or not L["repeats"]:
        return None
    ends = sorted(L["endings"])
    for (s, e, ns), (s2, e2, ns2) in zip(ends[:-1], ends[1:]):
        if e != s2:
            return None
    flat = [n for _, _, ns in ends for n in ns]
    if flat != list(range(1, len(flat) + 1)):
        return None
    starts = set(a for a, b in L["repeats"])
    if len(starts) != 1:
        return None
    a = starts.pop()
    if not (L["first"] <= a < ends[0][0]):
        return None
    want = set(e for (s, e, ns) in ends[:-1]) if len(ends) > 1 else {ends[0][1]}
    if set(b for _, b in L["repeats"]) != want:
        return None
    if ends[-1][1] > L["last"]:
        return None
    return a, [(s, e) for s, e, _ in ends], [ns for _, _, ns in ends]


NAV_KEYS = ("codas", "tocodas", "dacapos", "fines", "segnos", "dalsegnos")


def block_structure(L):
    """the repeat structure read as a sequence of pairwise disjoint blocks in time order, from the musical description
    only (no segment ids, no segment table):
      ('r', s, e)                               a simple repeat |: ... :|
      ('v', a, e, [(s, e), ...], [[n, ...], ...])   |: body [1. ... :| [2. ... (k consecutive brackets carrying 1..N in order,
                                                a backward repeat sign after every bracket but the last)
    None when the repeats / endings are not of this form (nested, overlapping, stray or unnumbered brackets, ...)."""
    reps = list(L["repeats"])
    if len(set(reps)) != len(reps):
        return None
    ends = sorted(L["endings"])
    groups = []
    for v in ends:
        if groups and groups[-1][-1][1] == v[0]:
            groups[-1].append(v)
        else:
            groups.append([v])
    blocks = []
    used = set()
    for g in groups:
        if any(not s < e for s, e, _ in g):
            return None
        flat = [n for _, _, ns in g for n in ns]
        if flat != list(range(1, len(flat) + 1)) or len(flat) > 9 or any(not ns for _, _, ns in g):
            return None
        want_ends = [e for _, e, _ in g[:-1]] if len(g) > 1 else [g[0][1]]
        mine = [r for r in reps if r[1] in want_ends]
        if sorted(r[1] for r in mine) != sorted(want_ends) or len(set(r[0] for r in mine)) != 1:
            return None
        a = mine[0][0]
        if not a < g[0][0]:
            return None
        used.update(mine)
        blocks.append(("v", a, g[-1][1], [(s, e) for s, e, _ in g], [list(ns) for _, _, ns in g]))
    for r in reps:
        if r not in used:
            if not r[0] < r[1]:
                return None
            blocks.append(("r", r[0], r[1]))
    blocks.sort(key=lambda b: (b[1], b[2]))
    for b, c in zip(blocks[:-1], blocks[1:]):
        if not b[2] <= c[1]:
            return None
    if blocks and not (L["first"] <= blocks[0][1] and blocks[-1][2] <= L["last"]):
        return None
    # no bracket edge / repeat sign of one block inside another is possible now; navigation marks may stand at block
    # edges and in the music between blocks only
    for k in NAV_KEYS:
        for t in L[k]:
            if any(b[1] < t < b[2] for b in blocks):
                return None
    return blocks


def play_blocks(blocks, x, y, full):
    """the stretches of time played from x to y (both at block edges or between blocks): every repeated section
    twice and every bracket group once per ending number with the bracket carrying that number (full), or every section
    once with the last ending (not full)"""
    out, t = [], x
    for b in blocks:
        if b[1] < x or b[2] > y:
            continue
        if t < b[1]:
            out.append((t, b[1]))
        if b[0] == "r":
            out += [(b[1], b[2])] * (2 if full else 1)
        else:
            _, a, e, spans, nums = b
            of = {n: spans[i] for i, ns in enumerate(nums) for n in ns}
            top = max(of)
            for n in (range(1, top + 1) if full else [top]):
                out += [(a, spans[0][0]), of[n]]
        t = b[2]
    if t < y:
        out.append((t, y))
    return [st for st in out if st[0] < st[1]]


def nav_form(L):
    """the standard navigation forms (see nav_layout), whatever the repeats: (name, jump time, destination, stop, coda)"""
    if L["first"] != 0 or not L["first"] < L["last"]:
        return None
    end = L["last"]
    dc, ds, sg, fi, co, tc = L["dacapos"], L["dalsegnos"], L["segnos"], L["fines"], L["codas"], L["tocodas"]
    if dc == [end] and not (ds or sg or co or tc) and len(fi) <= 1:
        if fi and not 0 < fi[0] < end:
            return None
        return ("dc-fine" if fi else "dc"), end, 0, (fi[0] if fi else end), None
    if ds == [end] and len(sg) == 1 and not (dc or co or tc) and len(fi) <= 1 and 0 <= sg[0] < end:
        if fi and not sg[0] < fi[0] < end:
            return None
        return ("ds-fine" if fi else "ds"), end, sg[0], (fi[0] if fi else end), None
    if len(dc) == 1 and 0 < dc[0] < end and not (ds or sg or co or tc or fi):
        return "dc-mid", dc[0], 0, end, None
    if len(ds) == 1 and len(sg) == 1 and 0 <= sg[0] < ds[0] < end and not (dc or co or tc or fi):
        return "ds-mid", ds[0], sg[0], end, None
    if len(dc) == 1 and co == dc and len(tc) == 1 and not (ds or sg or fi) and 0 < tc[0] < dc[0] < end:
        return "dc-coda", dc[0], 0, tc[0], dc[0]
    if len(ds) == 1 and co == ds and len(tc) == 1 and len(sg) == 1 and not (dc or fi) and 0 <= sg[0] < tc[0] < ds[0] < end:
        return "ds-coda", ds[0], sg[0], tc[0], ds[0]
    return None


def expected_blocks(L, pol, il):
    """(name, stretches of time in playing order) for a part made of disjoint repeat blocks and at most one standard
    navigation form with its marks outside the blocks, else None.
      minimal                     every section once with the last ending, straight through (a jump instruction is a repeat)
      maximal                     up to the jump instruction everything in full, the jump is obeyed once, then from the
                                  destination to the Fine / To Coda (and from the Coda to the end) in full again when
                                  leaps are ignored (`ignore_leaps=True`: "repetitions after a leap are unfolded fully"),
                                  without repeats and with the last endings otherwise"""
    blocks = block_structure(L)
    if blocks is None or not L["first"] < L["last"]:
        return None
    marks = any(L[k] for k in NAV_KEYS)
    first, last = L["first"], L["last"]
    if not marks:
        return "blocks", play_blocks(blocks, first, last, pol != "min")
    nf = nav_form(L)
    if nf is None:
        return None
    name, jump, dest, stop, coda = nf
    if pol == "min":
        return "blocks-" + name, play_blocks(blocks, first, last, False)
    # arrangements the notation (and the property) leaves open, or in which the code's recognition of a leap by the
    # types of the two segments is known to be fooled (PARTIAL): compared with the model only
    bt = sorted(set([first, last] + [t for b in blocks for t in ([b[1], b[2]] if b[0] == "r" else [b[1]] + [x for sp in b[3] for x in sp])]
                    + [t for k in NAV_KEYS for t in L[k]]))
    if not any(dest < t < jump for t in bt):
        return None  # the instruction ends the very segment it jumps to (a one-segment loop)
    if il and any(b[2] == jump for b in blocks):
        return None  # is the section that ends at the D.C. / D.S. played twice on the way through after the jump?
    landing = set([0] + L["segnos"] + L["codas"])
    if any(b[2] == jump and b[1] in landing for b in blocks):
        return None  # a repeat from the segment with the D.C. / D.S. back to a jump destination is taken for the leap
                     # (a To Coda at such a place was, too, before fixes/C09-8)
    after = bool(il)
    out = play_blocks(blocks, first, jump, True) + play_blocks(blocks, dest, stop, after)
    if coda is not None:
        out += play_blocks(blocks, coda, last, after)
    return "blocks-" + name, out


def atoms_of(stretches, bt):
    """the stretches cut at the boundary times bt"""
    out = []
    for x, y in stretches:
        cut = [x] + [t for t in bt if x < t < y] + [y]
        out += list(zip(cut[:-1], cut[1:]))
    return out


def family_of(L):
    """which layout family of the Lean theorems (Props/C09Ext.lean) the part belongs to, decided from the musical
    description (independently of the Lean definitions `chainLayout`, `mvLayout`, `dcFineLayout`, ... - the driver's
    `fam` request must give the same answer):
      chain <flags>             only repeats, each spanning exactly one section between consecutive boundaries, listed in
                                time order (simple_repeats_layout)
      volta <pre> <k> <post> <asg>   one repeated section with k consecutive brackets carrying 1..N (voltas_numbers_layout)
      dc-fine | dc-coda | ds-coda    the navigation forms with symbolic-time theorems
      none"""
    nav_keys = ("codas", "tocodas", "dacapos", "fines", "segnos", "dalsegnos")
    marks = any(L[k_] for k_ in nav_keys)
    first, last = L["first"], L["last"]
    if not L["endings"] and not marks:
        ts = sorted(set([first, last] + [t for r in L["repeats"] for t in r]))
        secs = list(zip(ts[:-1], ts[1:]))
        flags = [sec in L["repeats"] for sec in secs]
        if (secs and ts[0] == first and ts[-1] == last and L["repeats"] == [sec for sec, f in zip(secs, flags) if f]
                and not any(not f and not g for f, g in zip(flags[:-1], flags[1:]))):
            return "chain " + ",".join("1" if f else "0" for f in flags)
        return "none"
    if L["endings"] and not marks and L["repeats"]:
        ends = L["endings"]
        k = len(ends)
        if not 1 <= k <= 10:
            return "none"
        if any(e != s2 for (_, e, _), (s2, _, _) in zip(ends[:-1], ends[1:])) or any(not s_ < e for s_, e, _ in ends):
            return "none"
        numbers = [n for _, _, ns in ends for n in ns]
        N = len(numbers)
        if sorted(numbers) != list(range(1, N + 1)) or N > 9 or any(list(ns) != sorted(ns) for _, _, ns in ends):
            return "none"
        if N not in ends[-1][2]:
            return "none"
        a = L["repeats"][0][0]
        want_ends = [ends[0][1]] if k == 1 else [e for _, e, _ in ends[:-1]]
        if L["repeats"] != [(a, e) for e in want_ends]:
            return "none"
        v0, vk = ends[0][0], ends[-1][1]
        if not (0 <= a < v0 and first <= a and vk <= last):
            return "none"
        asg = [next(j for j, (_, _, ns) in enumerate(ends) if n in ns) for n in range(1, N + 1)]
        return "volta %d %d %d %s" % (int(first < a), k, int(vk < last), ",".join(str(x) for x in asg))
    if not L["repeats"] and not L["endings"] and first == 0:
        dc, ds, sg, fi, co, tc = L["dacapos"], L["dalsegnos"], L["segnos"], L["fines"], L["codas"], L["tocodas"]
        if dc == [last] and len(fi) == 1 and not (ds or sg or co or tc) and 0 < fi[0] < last:
            return "dc-fine"
        if len(dc) == 1 and co == dc and len(tc) == 1 and not (ds or sg or fi) and 0 < tc[0] < dc[0] < last:
            return "dc-coda"
        if len(ds) == 1 and co == ds and len(tc) == 1 and len(sg) == 1 and not (dc or fi) and 0 < sg[0] < tc[0] < ds[0] < last:
            return "ds-coda"
    return "none"


# ------------------------------------------------------------------------------ evaluation
def evaluate(desc):
    try:
        ev = _evaluate(desc)
    except _Timeout:
        # an enumeration / unfolding that does not finish in the time box: outside the compared domain
        return Eval()
    nest = desc.get("part", {}).get("nest") if desc.get("k") == "gen" else None
    if nest:
        try:
            nest_oracle(desc, nest, ev)
        except _Timeout:
            pass
    return ev


def nest_oracle(desc, nest, ev):
    """independent expectation for a volta group nested in an outer repeat: the maximal unfolding plays the outer
    section twice, and inside it the inner section once per ending number with the bracket carrying that number"""
    import partitura.score as S

    part = build(desc)
    bars = sorted((m.start.t, m.end.t, m.number) for m in part.iter_all(S.Measure))
    o, eo, i, j, k, nums = nest["o"], nest["eo"], nest["i"], nest["j"], nest["k"], nest["nums"]
    bracket_of = {}
    for b, txt in enumerate(nums):
        for n in txt.split(","):
            bracket_of[int(n)] = b
    inner = []
    for n in range(1, max(bracket_of) + 1):
        inner += list(range(i, j - 1)) + [j - 1 + bracket_of[n]]
    outer = list(range(o, i)) + inner + list(range(j - 1 + k, eo))
    expected = list(range(0, o)) + outer + outer + list(range(eo, len(bars)))
    exp_nums = [bars[x][2] for x in expected]
    try:
        um, e = guarded(lambda: S.unfold_part_maximal(part, update_ids=False))
    except _Timeout:
        return
    if e is not None:
        ev.oracle.append("nested-volta: unfold_part_maximal raised %s on a volta group inside an outer repeat" % type(e).__name__)
        return
    got = [m.number for m in sorted(um.iter_all(S.Measure), key=lambda m: m.start.t)]
    if got != exp_nums:
        ev.oracle.append("nested-volta: maximal unfolding plays measures %s, the notation (outer repeat twice, inner section once per "
                         "ending number %s with its bracket) says %s" % (got, nums, exp_nums))


def _evaluate(desc):
    import partitura.score as S

    ev = Eval()
    part = build(desc)
    objs = tag(part)
    # (hypothesis `TimeOrdered` of Props/C09Sig.signature_in_force: the object list sent to the model follows the timeline)
    unordered = any(a.start.t > b.start.t for a, b in zip(objs[:-1], objs[1:]))
    orig_ids = set(id(o) for o in objs)
    try:
        L = layout_of(part)
    except Exception:
        return ev  # ending numbers that are not numerals: outside the model
    if any(n >= 10 or n < 0 for _, _, ns in L["endings"] for n in ns):
        return ev
    ltok = layout_tokens(L)
    ptok = part_tokens(part, objs)
    if desc.get("prereg"):
        # the caller registered the segments first (Part.segments is documented to do that): unfolding must
        # leave them as they are
        _, epre = guarded(lambda: S.add_segments(part))
    f0 = G.fingerprint_part(part, with_ids=True)

    # ---- segment table, from an independent second build (add_segments is documented to register them)
    p2 = build(desc)
    _, e = guarded(lambda: S.add_segments(p2))
    ev.requests.append("seg " + ltok)
    segtab = None
    bt = sorted(set([L["first"], L["last"]] + [t for r in L["repeats"] for t in r] + [t for v in L["endings"] for t in v[:2]]
                    + [t for k in NAV_KEYS for t in L[k]]))
    if e is not None:
        ev.impl.append("err")
    else:
        segs = list(p2.iter_all(S.Segment))
        ev.impl.append(W.f_list(lambda s: W.f_tuple(W.f_int(s.start.t), W.f_int(s.end.t),
                                                     W.f_list(seg_index, s.to), W.f_list(seg_index, s.await_to), s.type), segs))
        segtab = {s.id: (s.start.t, s.end.t) for s in segs}
        # boundaries partition [first, last]
        if [(s.start.t, s.end.t) for s in segs] != list(zip(bt[:-1], bt[1:])):
            ev.oracle.append("segments: the segments are not the intervals between consecutive boundaries %r" % (bt,))

    # ---- the segment ids themselves: `chr(65 + i)` in time order, then END.  Three places of the code order
    #      segments by the STRING order of these ids; the model orders them by number and Props/C09Many proves the two
    #      orders equal for exactly these strings (for ids counted A..Z, AA, AB, ... they are not)
    ev.requests.append("ids " + ltok)
    if e is not None:
        ev.impl.append("err")
    else:
        named = set(x for s in segs for x in list(s.to) + list(s.await_to))
        other = sorted(named - set(s.id for s in segs))
        ev.impl.append(W.f_list(lambda sid: W.f_list(W.f_int, [ord(c) for c in sid]), [s.id for s in segs] + other))

    # ---- the destination lists as the id STRINGS they are, against the model variant that does the whole cleanup on strings
    #      with Python's string order (`mkSegmentsStr`; Props/C09Many.segment_table_is_string_algorithm proves it equal to
    #      the numeric table of `seg`)
    ev.requests.append("segstr " + ltok)
    if e is not None:
        ev.impl.append("err")
    else:
        cps = lambda ids: W.f_list(lambda sid: W.f_list(W.f_int, [ord(c) for c in sid]), ids)
        ev.impl.append(W.f_list(lambda s: W.f_tuple(cps(s.to), cps(s.await_to)), segs))

    # ---- which family of the layout theorems the part is an instance of (ties the hypotheses of
    #      simple_repeats_layout / voltas_numbers_layout / dacapo_al_fine / ... to the real part)
    ev.requests.append("fam " + ltok)
    fam = family_of(L)
    ev.impl.append(fam)

    nontrivial = bool(L["repeats"] or L["endings"] or any(L[k] for k in ("codas", "tocodas", "dacapos", "fines", "segnos", "dalsegnos")))
    keyparts = []
    simple = simple_layout(L)
    volta = volta_layout(L)
    nav = nav_layout(L)
    blk = expected_blocks(L, "max", True)

    for pi, pol in enumerate(desc["pols"]):
        nr, ar, il = FLAGS[pol["pol"]](pol)
        upd = pol["upd"] if pol["pol"] != "min" else False
        tagname = "%s(upd=%s,il=%s)" % (pol["pol"], upd, il)
        # ---- the paths (get_paths is public and read-only after fix C09-2)
        try:
            paths, e = guarded(lambda: S.get_paths(part, no_repeats=nr, all_repeats=ar, ignore_leap_info=il))
        except _Timeout:
            return Eval()  # enumeration does not terminate in reasonable time: outside the compared domain
        ev.requests.append("paths %s %s %s %s" % (ltok, W.b(nr), W.b(ar), W.b(il)))
        if e is not None:
            ev.impl.append("err")
            plist = None
            if (simple is not None or volta is not None or not nontrivial or nav is not None or blk is not None) and L["first"] < L["last"]:
                ev.oracle.append("raises: %s: get_paths raises %s on a part with %s" % (
                    tagname, type(e).__name__, "simple repeats" if simple is not None else "a standard volta group" if volta is not None
                    else "the standard navigation form " + nav[0] if nav is not None
                    else "disjoint repeats / bracket groups (%s)" % blk[0] if blk is not None else "no repeat structure"))
        else:
            plist = [list(p.path) for p in paths]
            ev.impl.append(W.f_list(lambda p: W.f_list(seg_index, p), plist))
            psegtab = {}
            for p in paths[:1]:
                psegtab = {k: (s.start.t, s.end.t) for k, s in p.segments.items()}
            # walk clause (independent of the model): consecutive ids are destinations of the code's own table
            if segtab is not None:
                g = {s.id: (list(s.to), list(s.await_to)) for s in p2.iter_all(S.Segment)}
                for p in plist:
                    bad = None
                    if not p or p[0] != "A":
                        bad = "does not start at the first segment"
                    for a, b in zip(p[:-1], p[1:]):
                        if b not in g[a][0] and b not in g[a][1]:
                            bad = "%s->%s is not a destination" % (a, b)
                    if p and "END" not in g[p[-1]][0] and "END" not in g[p[-1]][1]:
                        bad = "ends at %s which cannot reach END" % p[-1]
                    if bad:
                        ev.oracle.append("walk: %s: path %s %s" % (tagname, "-".join(p), bad))
                        break
            # ending clause (independent of the code's segment table): a version may stop before the end of the part
            # only at a Fine, and only after the da capo / dal segno instruction has been reached
            # (parts with volta brackets are excluded: the last pass may legitimately end in a bracket that is not the
            # last one in time, e.g. tests/data/musicxml/test_unfold_volta_numbers.xml)
            if psegtab and plist and not list(part.iter_all(S.Ending)):
                part_end = max(e_ for _, e_ in psegtab.values())
                fines = set(o.start.t for o in part.iter_all(S.Fine))
                jumps = set(o.start.t for o in part.iter_all(S.DaCapo)) | set(o.start.t for o in part.iter_all(S.DalSegno))
                for p in plist:
                    if not p or any(x not in psegtab for x in p):
                        continue
                    e_last = psegtab[p[-1]][1]
                    if e_last != part_end:
                        reached = any(psegtab[x][1] in jumps for x in p[:-1])
                        if e_last not in fines or not reached:
                            ev.oracle.append("ending: %s: path %s stops at t=%d before the end of the part (%d) %s" % (
                                tagname, "-".join(p), e_last, part_end,
                                "where there is no Fine" if e_last not in fines else "at a Fine although no da capo / dal segno was reached"))
                            break
        keyparts.append((nr, ar, il))

        # ---- shape clauses
        if plist is not None and segtab is not None:
            ids_by_start = {v[0]: k for k, v in segtab.items()}
            if simple is not None and L["first"] < L["last"]:
                rep_ids = [ids_by_start[a] for a, b in simple]
                chain = sorted(segtab, key=lambda k: segtab[k][0])
                if pol["pol"] == "all" and len(plist) != 2 ** len(simple):
                    ev.oracle.append("count: %d independent simple repeats give %d variants, expected %d" % (len(simple), len(plist), 2 ** len(simple)))
                if pol["pol"] in ("max", "score") and plist[:1] != [[x for k in chain for x in ([k, k] if k in rep_ids else [k])]]:
                    ev.oracle.append("maximal: simple repeats: path %r does not play every repeated section exactly twice" % (plist[:1],))
                if pol["pol"] == "min" and plist[:1] != [chain]:
                    ev.oracle.append("minimal: simple repeats: path %r does not play every section exactly once" % (plist[:1],))
            if volta is not None:
                a, spans, nums = volta
                chain = sorted(segtab, key=lambda k: segtab[k][0])
                pre = [k for k in chain if segtab[k][1] <= a]
                body = [k for k in chain if a <= segtab[k][0] and segtab[k][1] <= spans[0][0]]
                post = [k for k in chain if segtab[k][0] >= spans[-1][1]]
                br = [ids_by_start[s] for s, e in spans]
                if pol["pol"] in ("max", "score"):
                    want = list(pre)
                    for b, ns in zip(br, nums):
                        for _ in ns:
                            want += body + [b]
                    want += post
                    if plist[:1] != [want]:
                        ev.oracle.append("maximal: voltas: path %r, expected %r (pass i takes the ending numbered i)" % (plist[:1], want))
                if pol["pol"] == "min":
                    want = pre + body + [br[-1]] + post
                    if plist[:1] != [want]:
                        ev.oracle.append("minimal: voltas: path %r, expected %r (once, with the last ending)" % (plist[:1], want))
            if nav is not None and pol["pol"] in ("max", "score") and psegtab:
                # the stretches of time in playing order, each as the run of segments that cover it
                order = sorted(psegtab, key=lambda k_: psegtab[k_][0])
                want = [k_ for (x, y) in nav[1] for k_ in order if x <= psegtab[k_][0] and psegtab[k_][1] <= y]
                if plist[:1] != [want]:
                    ev.oracle.append("navigation-%s: %s: the maximal path is %s, expected %s (%s)" % (
                        nav[0], tagname, "-".join(plist[0]) if plist else None, "-".join(want),
                        ", then ".join("%d..%d" % st_ for st_ in nav[1])))
            if pol["pol"] in ("max", "score", "min") and psegtab and blk is not None:
                # disjoint repeats and bracket groups, with at most one standard navigation form between them: the
                # playing order follows from the notation alone (times, not segment ids)
                name, stretches = expected_blocks(L, "min" if pol["pol"] == "min" else "max", il)
                want = atoms_of(stretches, bt)
                got = [psegtab.get(x) for x in plist[0]] if plist else None
                if got != want:
                    k_ = 0
                    while got and k_ < len(got) and k_ < len(want) and got[k_] == want[k_]:
                        k_ += 1
                    key_ = "blocks-navigation" if name != "blocks" else "blocks-minimal" if pol["pol"] == "min" else "blocks-maximal"
                    ev.oracle.append("%s: %s: %s, %d segments: the path plays %d stretches of time, the notation says %d; they part after %d: "
                                     "played %r, notated %r" % (key_, tagname, name, len(psegtab), len(got or []), len(want), k_,
                                                                (got or [])[k_:k_ + 3], want[k_:k_ + 3]))
            if not nontrivial and plist != [["A"]]:
                ev.oracle.append("identity: no repeat structure but paths are %r" % (plist,))

        # ---- the unfolded parts through the public entry points
        def call():
            if pol["pol"] == "max":
                return [S.unfold_part_maximal(part, update_ids=upd, ignore_leaps=il)]
            if pol["pol"] == "min":
                return [S.unfold_part_minimal(part)]
            if pol["pol"] == "all":
                return list(S.iter_unfolded_parts(part, update_ids=upd))
            if pol["pol"] == "score":
                sc = S.Score([part], id="sc")
                r = S.unfold_part_maximal(sc, update_ids=upd, ignore_leaps=il)
                return [r.parts[0]]
            if pol["pol"] == "align":
                return list(S.iter_unfolded_parts(part, update_ids=True))
        if plist is not None and len(plist) > desc.get("mv", MAX_PATHS_VAR):
            continue
        try:
            us, e = guarded(call, 60)
        except _Timeout:
            return Eval()
        if pol["pol"] in ("max", "min", "score"):
            picks = [0]
        else:
            n = len(plist) if plist else 0
            picks = sorted(set(min(n - 1, int(x * n)) for x in pol["pick"])) if n else [0]
        # ---- the entry points themselves (round 5): argument dispatch and defaults, against Model/UnfoldEntry.lean whose
        #      flags and defaults are the ones harness/translate_c09.py reads off the live code (Gen/C09Lits.lean)
        try:
            entry_requests(ev, S, part, objs, ltok, ptok, pol, upd, il, us, e, picks, plist)
        except _Timeout:
            return Eval()
        if pol["pol"] == "score":
            # the Score variant works on a deep copy: compare with the direct call, check the argument
            if e is None:
                direct, e2 = guarded(lambda: S.unfold_part_maximal(part, update_ids=upd, ignore_leaps=il))
                if e2 is not None or canon_variant(direct, objs) != canon_variant(us[0], objs):
                    ev.oracle.append("score: unfolding the Score gives a different part than unfolding its part")
            elif plist:
                ev.oracle.append("score: unfold_part_maximal(Score) raised %s" % type(e).__name__)
            continue
        if pol["pol"] == "align":
            if e is None and us and len(us) <= 64:
                vi = picks[-1]
                ids = [n.id for n in us[vi].notes_tied if n.id is not None]  # (a score id None is no valid alignment entry)
                import random as _random
                r_ = _random.Random(int(pol["pick"][0] * 1e9))
                al = [{"label": "match", "score_id": i, "performance_id": "p%d" % k} for k, i in enumerate(ids) if r_.random() < 0.8]
                al.append({"label": "insertion", "performance_id": "px"})
                for u_ in us[:4]:  # notes the performance left out: ids of other variants, an id of no variant
                    tid = [n.id for n in u_.notes_tied if n.id is not None]
                    if tid and r_.random() < 0.5:
                        al.append({"label": "deletion", "score_id": r_.choice(tid)})
                if r_.random() < 0.3:
                    al.append({"label": "deletion", "score_id": "zz-1"})
                # ---- round 6: the alignment as the function reads and WRITES it (Model/UnfoldAlign.lean).  `am` picks what is done to
                #      the plain alignment above: nothing / only ids the suffix does not occur in (the function then appends it to
                #      every score_id of the caller's list) / further labels (ornament, trill ... with and without score_id) /
                #      a counted entry without score_id (KeyError) / no counted entry at all / raw ids of the folded part
                am = pol.get("am")
                amode = "plain"
                if am is not None:
                    r2_ = _random.Random(int(am * 1e9))
                    amode = ("plain" if am < 0.35 else "nomark" if am < 0.55 else "labels" if am < 0.72 else "nokey" if am < 0.80
                             else "noids" if am < 0.86 else "raw")
                    if amode == "nomark":
                        al = [x for x in al if "-1" not in x.get("score_id", "")]
                    elif amode == "labels":
                        for lb in ("ornament", "trill", "insertion", "Match"):
                            if r2_.random() < 0.6:
                                x = {"label": lb, "performance_id": "q%s" % lb}
                                if r2_.random() < 0.6:
                                    x["score_id"] = r2_.choice(ids) if ids and r2_.random() < 0.5 else "o%d" % r2_.randrange(9)
                                al.insert(r2_.randrange(len(al) + 1), x)
                        for x in al:
                            if x["label"] == "match" and r2_.random() < 0.3:
                                x["label"] = "deletion"
                        if r2_.random() < 0.5:
                            al = [x for x in al if "-1" not in x.get("score_id", "")]
                    elif amode == "nokey":
                        al.insert(r2_.randrange(len(al) + 1), {"label": r2_.choice(["match", "deletion"]), "performance_id": "pk"})
                    elif amode == "noids":
                        al = [x for x in al if x["label"] not in ("match", "deletion")]
                    elif amode == "raw":
                        raw = [n.id for n in part.notes_tied if n.id is not None]
                        al = [{"label": "match", "score_id": i, "performance_id": "p%d" % k} for k, i in enumerate(raw) if r2_.random() < 0.7]
                        if r2_.random() < 0.5:
                            al = [x for x in al if "-1" not in x["score_id"]]
                counted = [x for x in al if x["label"] in ("match", "deletion")]
                valid = bool(counted) and all("score_id" in x for x in counted)
                ev.info.setdefault("amodes", []).append(amode + ("" if valid else "/invalid") + (
                    "/rewritten" if valid and not any("-1" in x.get("score_id", "") for x in al) else ""))
                al_call = _copy.deepcopy(al)
                r, e3 = guarded(lambda: S.unfold_part_alignment(part, al_call), 90)
                ev.requests.append("entry alignx %s %s %s" % (ltok, ptok, W.lst(
                    lambda x: "%s %s" % (W.s(x["label"]), W.opt(W.s, x.get("score_id"))), al)))
                ev.impl.append("err" if e3 is not None else W.f_tuple(canon_variant(r, objs), W.f_list(
                    lambda x: "=" + x["score_id"] if "score_id" in x else "-", al_call)))
                if valid:
                    # the property's side: judged only for an alignment the function accepts (some counted entry, each with a score id)
                    ids = [x["score_id"] for x in counted]
                    cov = [sum(1 for i in ids if i in set(n.id for n in u.notes_tied)) for u in us]
                    best = max(cov)
                    cands = [k for k, c in enumerate(cov) if c == best]
                    ln = [len(us[k].notes_tied) for k in cands]
                    wantk = cands[ln.index(min(ln))]
                    if e3 is not None:
                        ev.oracle.append("alignment: unfold_part_alignment raised %s: %s" % (type(e3).__name__, str(e3)[:80]))
                    elif canon_variant(r, objs) != canon_variant(us[wantk], objs):
                        ev.oracle.append("alignment: unfold_part_alignment did not return the shortest best-covering variant")
                    elif not any(canon_variant(r, objs) == canon_variant(u, objs) for u in us):
                        ev.oracle.append("alignment: unfold_part_alignment returned a part that is none of iter_unfolded_parts(update_ids=True)")
            continue
        for vi in picks:
            ev.requests.append("var %s %s %s %s %d %s %s" % (ltok, W.b(nr), W.b(ar), W.b(il), vi, W.b(upd), ptok))
            if e is not None or us is None or vi >= len(us):
                ev.impl.append("err")
                if plist and e is not None:
                    ev.oracle.append("raises: %s: %s on a part whose paths are %r" % (tagname, type(e).__name__, plist[:2]))
                continue
            u = us[vi]
            ev.impl.append(canon_variant(u, objs))
            if plist is not None and vi < len(plist) and psegtab:
                ev.oracle += oracle_variant(tagname, part, objs, orig_ids, u, psegtab, plist[vi], upd)
        # identity clause: without structure the unfolded part equals the original (shifted to 0)
        if not nontrivial and e is None and us and pol["pol"] in ("max", "min", "all"):
            u = us[0]
            sh = L["first"]

            def content(p, shift):
                rows = []
                for o in ordered_objects(p):
                    if kind_code(o) in (15, 16, 17):
                        continue  # pages, systems and (pre-registered) segments are never copied
                    if p is part and o.start.t >= L["last"] and not (kind_code(o) == 30 and payload(o) == [1]):
                        continue  # objects at the final time point belong to no segment (reading at the top)
                    rows.append((None if o.start is None else o.start.t - shift, None if o.end is None else o.end.t - shift, type(o).__name__,
                                 getattr(o, "id", None), tuple(payload(o))))
                # a signature or clef that repeats the previous one (of the same staff) is redundant: the code
                # documents that it does not repeat those
                last, keep = {}, []
                for r in sorted(rows, key=lambda r: (r[0] is None, r[0] or 0)):
                    if r[2] in ("TimeSignature", "KeySignature", "Clef"):
                        slot = (r[2], r[4][2] if r[2] == "Clef" else None)
                        if last.get(slot) == r[4]:
                            continue
                        last[slot] = r[4]
                    keep.append(r)
                return sorted(keep, key=repr)
            a, b = content(part, sh), content(u, 0)
            if pol["pol"] in ("min",) or not upd:
                if a != b:
                    ev.oracle.append("identity: no repeat structure but the unfolded part differs from the original: %r" % (
                        [x for x in a if x not in b][:2] + [x for x in b if x not in a][:2],))
        # ---- second call gives the same
        if e is None and us is not None:
            try:
                us2, e2 = guarded(call, 60)
            except _Timeout:
                return Eval()
            if e2 is not None or len(us2) != len(us) or any(canon_variant(us2[v], objs) != canon_variant(us[v], objs) for v in picks if v < len(us)):
                ev.oracle.append("second-call: %s: unfolding the same part again gives a different result (%s)" % (
                    tagname, "raises " + type(e2).__name__ if e2 is not None else "%d then %d notes" % (
                        len(us[picks[0]].notes) if picks[0] < len(us) else -1, len(us2[picks[0]].notes) if picks[0] < len(us2) else -1)))
            try:
                paths2, e3 = guarded(lambda: S.get_paths(part, no_repeats=nr, all_repeats=ar, ignore_leap_info=il))
            except _Timeout:
                return Eval()
            if plist is not None and (e3 is not None or [list(p.path) for p in paths2] != plist):
                ev.oracle.append("second-call: %s: get_paths gives different paths on the second call" % tagname)

    # ---- history clause (round 6, independent of the model): a part whose bracket numbers were assigned in place after it had been
    #      unfolded is unfolded like a freshly built twin that never carried other numbers
    if desc.get("renum"):
        twin = build(dict(desc, _twin=True))
        tobjs = tag(twin)
        for pol in desc["pols"]:
            if pol["pol"] not in ("max", "min", "all"):
                continue
            nr, ar, il = FLAGS[pol["pol"]](pol)
            upd = pol["upd"] if pol["pol"] != "min" else False
            try:
                pa, ea = guarded(lambda: S.get_paths(part, no_repeats=nr, all_repeats=ar, ignore_leap_info=il))
                pb, eb = guarded(lambda: S.get_paths(twin, no_repeats=nr, all_repeats=ar, ignore_leap_info=il))
            except _Timeout:
                break
            la = None if ea is not None else [list(x.path) for x in pa]
            lb = None if eb is not None else [list(x.path) for x in pb]
            if la != lb:
                ev.oracle.append("history: %s: after Ending.number was assigned in place the paths are %r, a freshly built part with the same "
                                 "numbers has %r" % (pol["pol"], None if la is None else ["-".join(x) for x in la[:2]],
                                                     None if lb is None else ["-".join(x) for x in lb[:2]]))
                break
            if la is None or len(la) > 8:
                continue
            fn = {"max": lambda q: [S.unfold_part_maximal(q, update_ids=upd, ignore_leaps=il)], "min": lambda q: [S.unfold_part_minimal(q)],
                  "all": lambda q: list(S.iter_unfolded_parts(q, update_ids=upd))}[pol["pol"]]
            try:
                ua, ea = guarded(lambda: fn(part), 30)
                ub, eb = guarded(lambda: fn(twin), 30)
            except _Timeout:
                break
            if (ea is None) != (eb is None) or (ea is None and [canon_variant(x, objs) for x in ua] != [canon_variant(x, tobjs) for x in ub]):
                ev.oracle.append("history: %s: after Ending.number was assigned in place the unfolded part differs from the unfolding of a "
                                 "freshly built part with the same numbers" % pol["pol"])
                break

    # ---- the argument is untouched
    f1 = G.fingerprint_part(part, with_ids=True)
    if f1 != f0:
        what = "objects" if f1["objects"] != f0["objects"] else "points" if f1["points"] != f0["points"] else "attributes"
        nseg = len(list(part.iter_all(S.Segment)))
        ev.oracle.append("original-modified: the part passed to the unfold functions changed (%s%s)" % (
            what, "; %d Segment objects were added" % nseg if nseg else ""))
    if nontrivial and ev.impl:
        ev.key = "%s|%s" % (ev.impl[0], sorted(set(keyparts)))
    ev.info = {"amodes": ev.info.get("amodes", []), "unordered": unordered, "nseg": 0 if segtab is None else len(segtab), "layout": {k: len(v) if isinstance(v, list) else v for k, v in L.items()},
               "err": sum(1 for x in ev.impl if x == "err"), "simple": simple is not None, "volta": volta is not None,
               "nav": None if nav is None else nav[0], "fam": fam.split(" ")[0], "blocks": None if blk is None else blk[0]}
    return ev


def entry_requests(ev, S, part, objs, ltok, ptok, pol, upd, il, us, e, picks, plist):
    """`entry …` requests for one policy: the public functions called the way a user calls them (arguments given or
    omitted: `omit` bit 0 = update_ids, bit 1 = ignore_leaps), compared with the entry-point model"""
    def txt(r, err):
        return "err" if err is not None or r is None else canon_variant(r, objs)
    kind = pol["pol"]
    omit = int(pol.get("omit", 0))
    if kind == "max":
        kw = {}
        if not omit & 1:
            kw["update_ids"] = upd
        if not omit & 2:
            kw["ignore_leaps"] = il
        if omit:
            r, err = guarded(lambda: S.unfold_part_maximal(part, **kw), 60)
        else:
            r, err = (us[0] if us else None), e
        ev.requests.append("entry max %s %s %s %s" % (ltok, W.opt(W.b, kw.get("update_ids")), W.opt(W.b, kw.get("ignore_leaps")), ptok))
        ev.impl.append(txt(r, err))
        if omit == 2 and il and err is None and e is None and us:
            # `ignore_leaps`: "Defaults to True" (docstring and signature agree; for update_ids they do not)
            if canon_variant(r, objs) != canon_variant(us[0], objs):
                ev.oracle.append("defaults: unfold_part_maximal(part, update_ids=%s) differs from unfold_part_maximal(part, update_ids=%s, "
                                 "ignore_leaps=True) although ignore_leaps is documented to default to True" % (upd, upd))
    elif kind == "min":
        ev.requests.append("entry min %s %s" % (ltok, ptok))
        ev.impl.append(txt(us[0] if us else None, e))
    elif kind == "all":
        if omit & 1:
            rs, err = guarded(lambda: list(S.iter_unfolded_parts(part)), 60)
        else:
            rs, err = us, e
        for vi in picks[:1]:
            ev.requests.append("entry iter %s %s %d %s" % (ltok, "-" if omit & 1 else W.b(upd), vi, ptok))
            if err is not None or rs is None or vi >= len(rs):
                ev.impl.append("err")
            else:
                ev.impl.append(W.f_tuple(str(len(rs)), canon_variant(rs[vi], objs)))
        # the ScoreVariant objects themselves: (start, end, offset) of every visit (`visitsOf` of the model)
        svs, err3 = guarded(lambda: S.make_score_variants(part), 60)
        for vi in picks[:1]:
            ev.requests.append("entry visits %s %d" % (ltok, vi))
            if err3 is not None or svs is None or vi >= len(svs):
                ev.impl.append("err")
            else:
                ev.impl.append(W.f_tuple(str(len(svs)), W.f_list(lambda t: W.f_tuple(W.f_int(t[0]), W.f_int(t[1]), W.f_int(t[2])),
                                                                   svs[vi].segment_times)))
                if plist is not None and vi < len(plist):
                    # independent of the model: offsets are the running sums of the visited segments' lengths
                    off, ok = 0, True
                    for (s_, e_, o_) in svs[vi].segment_times:
                        ok = ok and o_ == off and s_ < e_
                        off += e_ - s_
                    if not ok or len(svs[vi].segment_times) != len(plist[vi]):
                        ev.oracle.append("length: make_score_variants: the offsets of variant %d are not the running sums of its %d visited "
                                         "segments' lengths: %r" % (vi, len(plist[vi]), svs[vi].segment_times[:6]))
    elif kind == "score":
        kw = {}
        if not omit & 1:
            kw["update_ids"] = upd
        if not omit & 2:
            kw["ignore_leaps"] = il
        if omit:
            r, err = guarded(lambda: S.unfold_part_maximal(S.Score([part], id="sc"), **kw).parts, 60)
        else:
            r, err = us, e
        ev.requests.append("entry smax %s %s 1 %s %s" % (W.opt(W.b, kw.get("update_ids")), W.opt(W.b, kw.get("ignore_leaps")), ltok, ptok))
        ev.impl.append("err" if err is not None or not r else "[" + canon_variant(r[0], objs) + "]")
        r2, err2 = guarded(lambda: S.unfold_part_minimal(S.Score([part], id="sc")).parts, 60)
        ev.requests.append("entry smin 1 %s %s" % (ltok, ptok))
        ev.impl.append("err" if err2 is not None or not r2 else "[" + canon_variant(r2[0], objs) + "]")
        if err2 is None and r2:
            d2, e2 = guarded(lambda: S.unfold_part_minimal(part), 60)
            if e2 is not None or canon_variant(d2, objs) != canon_variant(r2[0], objs):
                ev.oracle.append("score: unfold_part_minimal(Score) gives a different part than unfold_part_minimal(part)")


def finding_key(desc, failure):
    return "C09/" + failure.split(":", 1)[0]


def shrink(desc):
    if desc.get("k") != "gen":
        if len(desc.get("pols", [])) > 1:
            for i in range(len(desc["pols"])):
                d = dict(desc)
                d["pols"] = [desc["pols"][i]]
                yield d
        return
    d0 = desc
    if len(d0["pols"]) > 1:
        for i in range(len(d0["pols"])):
            d = _copy.deepcopy(d0)
            d["pols"] = [d0["pols"][i]]
            yield d
    p = d0["part"]
    for key in ("spans", "extras", "qd", "ks", "clefs"):
        lst = p.get(key, [])
        if len(lst) > 1:
            d = _copy.deepcopy(d0)
            d["part"][key] = lst[: len(lst) // 2]
            yield d
            d = _copy.deepcopy(d0)
            d["part"][key] = lst[len(lst) // 2:]
            yield d
        for i in range(len(lst)):
            if key == "clefs" and len(lst) == 1:
                continue
            d = _copy.deepcopy(d0)
            d["part"][key] = lst[:i] + lst[i + 1:]
            yield d
    notes = p["notes"]
    if len(notes) > 2:
        for lo, hi in ((0, len(notes) // 2), (len(notes) // 2, len(notes))):
            d = _copy.deepcopy(d0)
            keep = notes[lo:hi]
            ids = set(n["id"] for n in keep)
            d["part"]["notes"] = [dict(n, **({"tie": None} if n.get("tie") not in ids else {})) for n in keep]
            d["part"]["spans"] = [s for s in p.get("spans", []) if s[1] in ids and s[2] in ids]
            yield d
    for n in notes:
        if n.get("tie"):
            d = _copy.deepcopy(d0)
            for m in d["part"]["notes"]:
                m.pop("tie", None)
            yield d
            break


def distribution(descs, results):
    c = Counter()
    nseg = Counter()
    for d, r in zip(descs, results):
        info = r.get("info") or {}
        c["cases_" + d.get("k", "?")] += 1
        for pol in d.get("pols", []):
            c["policy_%s_upd%d_il%d" % (pol["pol"], int(bool(pol["upd"])), int(bool(pol["il"])))] += 1
        lay = info.get("layout") or {}
        for k in ("repeats", "endings", "codas", "tocodas", "dacapos", "fines", "segnos", "dalsegnos"):
            if lay.get(k):
                c["with_" + k] += 1
        if info.get("simple"):
            c["simple_repeat_layouts"] += 1
        if info.get("volta"):
            c["standard_volta_layouts"] += 1
        if info.get("nav"):
            c["navigation_form_" + info["nav"]] += 1
        if info.get("fam") and info["fam"] != "none":
            c["theorem_family_" + info["fam"]] += 1
        c["err_observations"] += info.get("err", 0)
        c["object_lists_not_in_time_order"] += 1 if info.get("unordered") else 0
        for am_ in info.get("amodes") or []:
            c["alignment_" + am_] += 1
        ns = info.get("nseg", 0)
        nseg[ns if ns <= 12 else "13-26" if ns <= 26 else "27-60" if ns <= 60 else "61+"] += 1
        if info.get("blocks"):
            c["block_family_" + info["blocks"]] += 1
        if d.get("part", {}).get("warm"):
            c["warm_builds"] += 1
        if d.get("hist") is not None:
            c["edit_histories"] += 1
        if d.get("idshape"):
            c["id_shape_" + d["idshape"]] += 1
        if not r.get("requests"):
            c["skipped"] += 1
        for q in r.get("requests") or []:
            t = q.split(" ", 2)
            c["obs_" + (t[0] + "_" + t[1] if t[0] == "entry" else t[0])] += 1
        for pol in d.get("pols", []):
            if pol.get("omit"):
                c["entry_called_without_%s" % {1: "update_ids", 2: "ignore_leaps", 3: "both"}[pol["omit"]]] += 1
    return {"counts": dict(c), "segments_per_part": dict(sorted(nseg.items(), key=lambda kv: (isinstance(kv[0], str), str(kv[0]) if isinstance(kv[0], str) else kv[0])))}
