"""C19 - MEI and Humdrum **kern files load to the notes their notation denotes.

Readings fixed here (the property text is ambiguous at these points):
 * "the notes the notation denotes" = the denotational semantics written down in
   lean/PartituraModel/Model/Kern.lean and Model/Mei.lean (from the format definitions).
   The oracle below recomputes the same facts in plain Python from the *abstract score* the
   document was generated from (never from the Lean model, never from the importer).
 * alter None and alter 0 are the same spelling (no accidental sign written = natural).
 * kern: every barline token starts a measure, including the terminal `==`; the numbering of the
   measures is 1, 2, ... in document order (0 for a pickup before the first barline), the barline
   number is the measure's name.  A spine is a part unless all spines carry the same `*part` tag;
   inside a part the k-th (sub-)spine is voice k, `*staffN` gives the staff; parts come in reverse
   spine order.
 * MEI: one part per staffDef, voice = layer/@n, staff = staff/@n; a measure starts where the
   longest staff of the previous measure ended.  <section> and <ending> only group measures: the notes, measures and
   signatures denoted do not depend on how the measures are cut into sibling / nested sections and endings (endings and
   scoreDef changes may also stand directly in <score> between the sections, as the MEI schema allows; repaired by
   fixes/C19-29).  A <tie> element links the two notes it names wherever it is written (any measure of any section,
   before or after the staves); <slur> and other control events denote no notes.
 * round trips: every Note of the exported part is found again with the same onset and duration
   in quarters, step/alter/octave and staff (voices, ties, rests and signatures are not demanded).
   "Parts exportable by the two writers" = the decidable predicates `Exportable` of
   lean/PartituraModel/Model/KernWrite.lean and Model/MeiWrite.lean (restated in plain Python below as
   py_kern_exportable / py_mei_exportable); for them export_import is a Lean theorem about the writer models,
   which are compared with the real writers' output cell by cell / element by element.
 * "the loader picks the reader from the file extension" = lower-cased posixpath.splitext extension looked up
   in the if / elif chain of load_score (Model/LoadDispatch.lean; the chain is read off the source on every run).
 * supported subset = what the property's quantifier lists.  Ties are joined note by note, also inside
   chords (the former open finding F-C19-kern-chord-ties is repaired by fixes/C19-27 and always generated).
 * MEI cross-staff notation: a note stands on its own @staff, else on the @staff of its <chord>, else on the @n of the
   enclosing <staff>; a rest / measure rest on its own @staff, else the enclosing one.  The PART is the one of the
   enclosing <staff> (a note written on another staff stays in the part of the staff it is encoded in).
 * "the divisions chosen represent every duration exactly": every onset and duration of a denoted note or rest and
   every measure boundary is a whole number of the part's divisions (a <space> need not be: it creates no object; but
   the notes after it must stand where the notation says).
 * a kern chord = several notes of ONE written length (`4c 4e`): the reading under which load_kern is right; what a
   token like `4c 2e` lasts is not fixed by the property.
 * elements the MEI reader has no branch for are refused when they stand where it reads items (children of layer /
   beam / tuplet, of section / ending) - nothing is demanded then - and skipped anywhere else: the document then
   denotes what it denotes without them.
"""
import io
import json
import os
import random
import tempfile
from fractions import Fraction as F

import wire as W
from core import Eval

PROPERTY = "C19"
DRIVER = "drv_c19"
PROPS = ["PartituraModel.Props.C19", "PartituraModel.Props.C19Write", "PartituraModel.Props.C19MeiWrite",
         "PartituraModel.Props.C19Dispatch", "PartituraModel.Props.C19Sections", "PartituraModel.Props.C19Divs",
         "PartituraModel.Props.C19Endings", "PartituraModel.Props.C19Tables", "PartituraModel.Props.C19TieOrder",
         "PartituraModel.Props.C19KernPaths", "PartituraModel.Props.C19KernDur"]
TRUSTED = [
    "lxml tokenisation of the MEI text into open/close events (the harness does nothing else to the document), also of the "
    "text save_mei writes; numpy loadtxt/genfromtxt splitting of kern rows into cells, np.savetxt joining them",
    "binary64 arithmetic inside load_kern (reciprocal durations, dot_function, the scaling loop that turns the reciprocals into "
    "whole numbers before the lcm): Model/KernDur.lean is the same arithmetic over exact rationals (proved equal to the semantics, "
    "Props/C19KernDur), compared exactly token by token (stream kdur: start positions in divisions) - that the float error of every "
    "generated value is absorbed by int(round(..)) / np.round is observed, not proved",
    "that the importers implement the modelled semantics is established by the differential run only",
    "the order in which Part.iter_all yields the objects of a time point / a measure (the writers' input is extracted "
    "with the same calls; the container itself is C01's subject)",
    "save_kern's preprocessing (add_measures, fill_rests) and fifths_mode_to_key_name (MEI @pname): their results are the writer models' input",
    "str.lower of non-ASCII extensions in load_score (the model lower-cases ASCII); the readers are replaced by recorders "
    "when the choice of reader is compared on generated paths (the real readers run in the file-based dispatch case)",
    "the sub-spine bookkeeping stream observes importkern.parse_by_voice through a recorder wrapped around it while the real "
    "_handle_kern_with_spine_splitting runs on the document; if either function no longer exists under that name the stream is "
    "silently absent, also when parse_by_voice returns another shape (the loaded notes and voices are still compared)",
    "harness/translate_c19.py reads the if / elif chains of importmei.MeiParser (layer items, section items, children of <score>, "
    "barline values, grace types, defaults, multiRest limit, the @staff attribute) off the source text with ast; a chain rewritten into "
    "another form makes the extraction fail (extractionOk = false: Props/C19Tables stops building) rather than go unnoticed",
]
PARTIAL = [
    "importer = semantics (notes, measures, signatures, divisions of a loaded document) is compared on generated documents, "
    "the writers' real output and the fixtures, not proved; proved are the semantics' own laws and, for both writers, "
    "export_import against that semantics",
    "export_import_kern / export_import_mei are about the writer models (equal to the real writers cell by cell / element by "
    "element on every generated part) and the Exportable parts; parts outside Exportable are only compared (model = code), "
    "nothing is demanded of them",
    "writer models leave out: Tempo, slur and beam signifiers (kern); beams, clef changes, harmonies, fermatas, barline and "
    "repeat attributes, fingerings, stem directions, notes without id, tuplets inside tuplets (MEI) - not generated",
    "kern chords whose notes have different written lengths (`4c 2e`; semantics: each its own, the first moves the spine; load_kern: "
    "all get the length of the last, which also moves the spine) stay outside the common ground: Humdrum tools disagree on what such "
    "a token lasts, the reading chosen is the one under which the code is right (a chord = notes of one written length); not "
    "generated, excluded by Exportable",
    "kern: *x exchanges are not generated (importer and semantics both ignore the exchange; not in the property's subset); mixed "
    "*part tags only in the shape 'some equal, not all'; spines of other representations (**dynam, **text) only as the leftmost / "
    "rightmost spine",
    "kern sub-spine bookkeeping (Props/C19KernPaths): proved is that parse_by_voice's `voices + splits - joins` (Model/KernPbv.lean, "
    "equal to the real function's cell counts on every generated document) is the semantics' number of columns for the LEFTMOST spine "
    "of a document, row after row (parse_by_voice_document / _first_call), and for any spine within one row (kern_spine_width); that "
    "popping the taken cells makes the next spine the leftmost one (the loop of _handle_kern_with_spine_splitting, modelled as "
    "pbvSpines) is compared, not proved; rows are assumed clean (no `*-` before the terminating row, no `*^` / `*v` cell on a data or "
    "barline row - the semantics refuses / ignores those, the importer would count them; not generated)",
    "MEI: @tie attributes (a TODO of the importer; the property names ties as elements), multiRest of more than one measure "
    "(refused by importer and model alike), nested tuplets, staffDef changes inside a section, tupletSpan / beamSpan as the only "
    "encoding of a tuplet are outside the generated subset; control events carrying a LIST in @dur (`dur=\"2 8\"`) are not generated "
    "(importer and model both refuse the document)",
    "verovio path of load_mei not exercised (not installed); 2 MEI fixtures need it and are skipped, 1 kern fixture has a malformed header (load only)",
    "load_score: URLs (downloaded first) and file-like objects are not modelled",
    "MEI structure: proved are the tie list = every <tie> of the document wherever it stands, sibling sections = one section, a "
    "section or ending under any neutral parent (section, ending, <score>) = its content, <ending> = <section>, a scoreDef change on "
    "either side of the start / end tag of a section or ending, a <tie> element moved anywhere else in the document (no two ties "
    "starting at the same note), empty elements of unknown name = nothing - all for section / ending / tie attributes without @dur / "
    "@meter.unit (none has them).  The clause `structure` (each document also written flat and loaded a second time) now only ties "
    "the importer to these theorems",
    "the end-to-end exactness of the inferred divisions (Props/C19Divs) is proved for documents without @ppq and without @dur.ppq; "
    "with @dur.ppq the first such element fixes the divisions (mei_ppq_from_dur_ppq) and nothing forces the other durations to be "
    "whole - the importer asserts it at load time, the generator declares consistent values",
    "MEI rejection paths (Model/MeiAccept.lean): only the structural checks are mirrored (layer / beam / tuplet items, section / ending "
    "items, xml:id of notes, rests, chords, measure rests); missing xml:id / @symbol in the header, <dir type=... > without @tstamp "
    "(TypeError in the importer) and documents with more than one <music> / <score> are not generated",
    "MEI: <ending> / <scoreDef> directly in <score> BEFORE the first section, <tie> as a child of <section> or <layer> (not allowed by "
    "the CMN schema; the importer refuses them) are not generated",
]
RULE = ("abstract scores (1-3 staves x 1-2 voices x 1-4 measures; 13 meters incl. 5/8, 7/8, 4/2; pickups; meter and key changes; "
        "plain / dotted / double-dotted / tuplet (3:2, 5:4, 6:4, 7:4, dotted-in-tuplet) values down to 32nds, breves and longs; "
        "in 30 % of the kern and 15 % of the MEI documents one or two odd tuplets n:m (3:2 ... 15:8, 17:16 ... 31:16) whose members "
        "carry 0-3 dots (reciprocals like 20. 28.. 11.. 22%3.: no binary fractions); kind kdur: one kern spine of 5-14 freely drawn "
        "values (1-3 reciprocals 3 ... 63 / a%b that are no powers of two, their doubles, binary values, 0-3 dots each; notes, "
        "chords, rests, barlines anywhere) - the start of every token in divisions against the exact mirror of the importer's "
        "arithmetic and against the sum of the values written before it; "
        "chords, rests, grace notes, ties over barlines also between chords, silent measures) written by this module's own writers as kern "
        "(main spines or *^ / *v sub-spines also in mid-measure, one *part / *I group, separate parts or mixed *part tags, *staff, *clef, "
        "*k[], *M, *MM, barline styles, a%b reciprocals, comments, decorations, a **dynam / **text spine left or right of the kern spines; "
        "a second writer with up to four simultaneous sub-spines per spine, split one by one or several in one row, joined two by two or "
        "all at once (`*v *v *v`), the spine paths of two different spines also in ONE row (`*v *v *^ *`, never `*v` of two spines "
        "side by side); for every kern document also the number of cells parse_by_voice takes from every row for every spine, "
        "observed on the real function, against its Lean mirror and against the columns of the semantics) and as MEI (meter/key/clef as attributes or children of "
        "staffDef / scoreDef, @ppq and/or @dur.ppq or neither, nested staffGrp and sections, <ending>s, rptstart / rptend, beams, tuplets, "
        "chords, accid / accid.ges / <accid>, mRest, multiRest num=1, space with and without @dur / xml:id, incomplete layers, <tie> elements, "
        "scoreDef meter and key changes; the measures cut into 1-3 sibling top-level sections, nested sections to depth 3, empty sections, "
        "endings inside sections or directly in <score>; every <tie> written in the measure where it starts / ends / the first / the last / "
        "any measure, before or after the staves, <slur>s between arbitrary notes, chords tied in part; scoreDef changes at the end of "
        "the previous container, between the containers (also directly in <score>) or right before their measure; each such document is "
        "also written flat and both loads compared; cross-staff notation: @staff on the first / a middle / the last / several / all notes "
        "of a chord, on the chord, on single notes, grace notes, rests and measure rests; clef changes in layers, beams and tuplets; "
        "decorations that denote nothing: artic / verse children, fermata, dynam, hairpin, dir, tempo, harm, pedal, fing, trill, beamSpan, "
        "barline attributes), loaded through load_kern / load_mei / load_score(.krn .kern .KRN .mei .MEI); "
        "documents of whole quarters into which one group of finer values is planted whose finest value is carried by one kind of element "
        "only (space, rest, chord, note, dotted values of each, tuplet members, a grace note, the beat unit alone), mostly without declared "
        "ppq; documents with one injected element the reader refuses (in layer / beam / tuplet / section / ending, a missing xml:id: model = "
        "code, both refuse) or skips (in measure / staff / score / chord: the oracle applies unchanged); "
        "parts built through the public API (notes entering in voice order or shuffled, acciaccaturas, key and meter changes, a staff "
        "silent without rests, divisions multiplied) exported with save_kern / save_mei: writer model = real output, Exportable agrees "
        "with its Python restatement, the written document denotes what load_score loads and contains every note; a few parts with "
        "one wrong symbolic duration (not Exportable: only model = code); load_score on generated paths with the readers recorded, the "
        "if/elif table read off the source; every kern/mei fixture; table comparison; corpus = shrunk witnesses of the repaired defects + "
        "hand-written mid-measure splits, cross-staff chords and the two round-5 seeds.  distinct = distinct document text / path list; "
        "non-trivial = at least one note loaded")
LEVEL_TEXT = ("Lean theorems over all inputs: the denotational semantics of kern and MEI (duration values, pitch letters, onset "
              "additivity, tie joining note by note, grace notes, exact divisions, inferred ppq); END TO END through the MEI state machine: "
              "every element with @dur, whatever its name, enters the inferred divisions, and for every document without declared divisions "
              "these make every onset, duration and measure boundary of every denoted part whole (no side condition); a note stands on its "
              "own @staff, else its chord's, else the enclosing staff, and does not pass its @staff on; the kern importer's sub-spine arithmetic (voices + splits - joins) counts, row after row of any accepted document "
              "of clean rows, exactly the columns the semantics gives the leftmost spine, any number of splits and joins of any length "
              "per row; the kern importer's duration arithmetic as written (add_durations, dot_function, int(round(4 / value * divs)), "
              "the running position) is the semantics' value for every reciprocal n or a%b, any number of dots, any divisions that "
              "represent the values exactly (every multiple of the lcm of their denominators), any token list - a floor would do in exact "
              "arithmetic, so a lost tick is float error only; export_import for both writers - "
              "for every Exportable part (explicit decidable predicate) the written document denotes every note with its onset, "
              "duration, spelling and staff, proved against the same semantics the importers are compared with; load_score picks "
              "the documented reader for every supported extension in any case and rejects all others; the MEI semantics collects every "
              "<tie> of the document wherever it stands and does not depend on how the measures are cut into sibling or nested "
              "sections and endings, nor on which side of a section / ending tag a scoreDef change is written, nor on where and in "
              "which order the <tie> elements stand (all event lists, any depth); empty elements of unknown name denote nothing; the tables and the dispatch chains the models copy are those of the "
              "live source (regenerated by a translator on every run). Models are tied to the code "
              "by exact comparison of the writers' output, of the loaded scores (also of the documents the reader refuses) and of the "
              "dispatch on generated inputs and every fixture, with an independent Python oracle computed from the abstract score.")
SEARCH_LIMIT = 1500

STEPS = "CDEFGAB"
REPO = os.environ.get("VERIF_REPO", "/repo")


# ============================================================================ abstract scores
def ev_value(e):
    """quarters denoted by an event (Fraction)"""
    if e["t"] == "g":
        return F(0)
    v = e["v"]
    base = F(8) * (2 ** (-v)) if v <= 0 else F(4, v)   # v = 0 breve, -1 long
    val = base * (2 - F(1, 2 ** e.get("d", 0)))
    if e.get("tup"):
        val = val * e["tup"][1] / e["tup"][0]
    return val


def meter_len(m):
    return F(4 * m[0], m[1])


def _pow2_blocks(length):
    """split a length (in quarters) into descending power-of-two / dotted blocks"""
    out = []
    x = F(16)
    while length > 0 and x >= F(1, 16):
        if x * F(3, 2) <= length and (length - x * F(3, 2) == 0 or length >= 3 * x):
            out.append((x, 1))
            length -= x * F(3, 2)
        elif x <= length:
            out.append((x, 0))
            length -= x
        else:
            x = x / 2
    assert length == 0, length
    return out


def rest_fill(length):
    """canonical list of (v, d) values filling `length` quarters"""
    res = []
    for (x, d) in _pow2_blocks(length):
        res.append((_v_of(x), d))
    return res


def _v_of(x):
    """reciprocal number of a power-of-two length x (quarters): 4/x, 0 = breve, -1 = long"""
    if x == 8:
        return 0
    if x == 16:
        return -1
    r = F(4) / x
    assert r.denominator == 1, x
    return int(r)


def fill_block(rng, x, dotted, depth, exotic):
    """rhythm pattern for a block of x quarters (x a power of two), dotted -> 1.5 x; list of (v, d, tup, tg)"""
    MINX = F(1, 8)
    if dotted:
        r = rng.random()
        if r < 0.35 or x <= MINX:
            return [(_v_of(x), 1, None)]
        if r < 0.7:
            return fill_block(rng, x, False, depth + 1, exotic) + fill_block(rng, x / 2, False, depth + 1, exotic)
        if r < 0.85:
            return fill_block(rng, x / 2, False, depth + 1, exotic) + fill_block(rng, x, False, depth + 1, exotic)
        return [p for _ in range(3) for p in fill_block(rng, x / 2, False, depth + 1, exotic)]
    if isinstance(exotic, (list, tuple)) and depth <= 2 and rng.random() < (0.45 if depth == 0 else 0.25):
        # odd tuplets n:m whose members carry 0-3 dots (reciprocals that are no binary fractions: the float
        # arithmetic of load_kern is inexact for them)
        cand = [(n, m) for (n, m) in exotic if F(m, 8) <= x <= 4]      # unit x / m >= a 32nd
        if cand:
            return odd_tuplet(rng, x, *rng.choice(cand))
    r = rng.random()
    stop = 0.45 + 0.12 * depth
    if r < stop or x <= MINX:
        return [(_v_of(x), 0, None)]
    r = rng.random()
    if r < 0.42:
        return fill_block(rng, x / 2, False, depth + 1, exotic) + fill_block(rng, x / 2, False, depth + 1, exotic)
    if r < 0.57 and x >= 4 * MINX:
        a = [(_v_of(x / 2), 1, None), (_v_of(x / 4), 0, None)]
        return a if rng.random() < 0.7 else a[::-1]
    if r < 0.63 and x >= 8 * MINX:
        a = [(_v_of(x / 2), 2, None), (_v_of(x / 8), 0, None)]
        return a if rng.random() < 0.7 else a[::-1]
    if r < 0.80 and x >= 2 * MINX and x <= 8:
        tg = rng.getrandbits(30)
        if rng.random() < 0.7:
            return [(_v_of(x / 2), 0, (3, 2, tg))] * 3
        a = [(_v_of(x), 0, (3, 2, tg)), (_v_of(x / 2), 0, (3, 2, tg))]
        return a if rng.random() < 0.5 else a[::-1]
    if r < 0.88 and x >= 4 * MINX and x <= 4:
        tg = rng.getrandbits(30)
        return [(_v_of(x / 4), 0, (5, 4, tg))] * 5
    if r < 0.92 and x >= 4 * MINX and x <= 4:
        tg = rng.getrandbits(30)
        return [(_v_of(x / 4), 0, (6, 4, tg))] * 6
    if r < 0.95 and x >= 4 * MINX and x <= 4 and exotic:
        tg = rng.getrandbits(30)
        return [(_v_of(x / 4), 0, (7, 4, tg))] * 7
    if r < 0.96 and x >= 8 * MINX and x <= 4 and exotic:
        # a double-dotted value inside a triplet: written 7/8 + 1/8 + 1/2 of the bracket
        tg = rng.getrandbits(30)
        return [(_v_of(x / 2), 2, (3, 2, tg)), (_v_of(x / 8), 0, (3, 2, tg)), (_v_of(x / 2), 0, (3, 2, tg))]
    if r < 0.97 and x >= 4 * MINX and x <= 8 and exotic:
        # dotted values inside a triplet
        tg = rng.getrandbits(30)
        return [(_v_of(x / 2), 1, (3, 2, tg)), (_v_of(x / 4), 0, (3, 2, tg)), (_v_of(x / 2), 0, (3, 2, tg))]
    return [(_v_of(x), 0, None)]


ODD_RATIOS = [(3, 2), (5, 4), (6, 4), (7, 4), (5, 2), (9, 8), (10, 8), (11, 8), (12, 8), (13, 8), (15, 8), (17, 16), (19, 16),
              (21, 16), (23, 16), (25, 16), (27, 16), (29, 16), (31, 16)]
# pieces of an odd tuplet in 1/8 of the tuplet's unit u: (length, base in the same measure, dots)
ODD_PIECES = [(16, 16, 0), (24, 16, 1), (28, 16, 2), (30, 16, 3), (8, 8, 0), (12, 8, 1), (14, 8, 2), (15, 8, 3),
              (4, 4, 0), (6, 4, 1), (7, 4, 2), (2, 2, 0), (3, 2, 1)]


def odd_tuplet(rng, x, n, m):
    """a tuplet of n units in the time of m filling x quarters (x, m powers of two), its members plain or with 1-3 dots:
    list of (v, d, tup).  The written values add up to n units = x quarters exactly."""
    u = x / m
    tg = rng.getrandbits(30)
    rem = 8 * n
    out = []
    while rem > 0:
        fit = [p for p in ODD_PIECES if p[0] <= rem and rem - p[0] != 1]
        dotted_fit = [p for p in fit if p[2] > 0]
        ln, base, d = rng.choice(dotted_fit if dotted_fit and rng.random() < 0.6 else fit)
        out.append((_v_of(u * base / 8), d, (n, m, tg)))
        rem -= ln
    rng.shuffle(out)
    assert sum((ev_value({"t": "n", "v": v, "d": d, "tup": t}) for v, d, t in out), F(0)) == x, (out, x)
    return out


def fill_length(rng, length, meter, exotic):
    """rhythm of one voice for `length` quarters"""
    beats, unit = meter
    if rng.random() < 0.12:
        blocks = _pow2_blocks(length)
    else:
        beat = F(4, unit)
        blocks = []
        if unit == 8 and beats % 3 == 0 and length == meter_len(meter):
            blocks = [(F(1), 1)] * (beats // 3)
        else:
            rem = length
            while rem > 0:
                # merge 1, 2 or 4 beats
                k = rng.choice([1, 1, 2, 2, 4])
                while k * beat > rem:
                    k //= 2
                    if k == 0:
                        break
                if k == 0:
                    blocks += _pow2_blocks(rem)
                    rem = 0
                    break
                if k == 2 and rem >= 3 * beat and rng.random() < 0.3:
                    blocks.append((2 * beat, 1))
                    rem -= 3 * beat
                else:
                    blocks.append((k * beat, 0))
                    rem -= k * beat
    out = []
    for (x, d) in blocks:
        if x > 16:
            out += [(-1, 0, None)] * int(x / 16)
            continue
        out += fill_block(rng, x, d == 1, 0, exotic)
    assert sum((ev_value({"t": "n", "v": v, "d": d, "tup": t}) for v, d, t in out), F(0)) == length, (out, length)
    return out


def rand_pitch(rng, lo=2, hi=6):
    return [rng.choice(STEPS), rng.choice([0, 0, 0, 0, 0, 1, 1, -1, -1, 2, -2]), rng.randint(lo, hi)]


def gen_asc(rng, exotic=False, max_measures=4, chord_ties=False, partial_ties=False):
    meters = [(4, 4), (3, 4), (2, 4), (6, 8), (2, 2), (3, 8), (5, 4), (9, 8), (12, 8), (4, 2), (3, 2), (5, 8), (7, 8)]
    meter = list(rng.choice(meters))
    nm = rng.randint(1, max_measures)
    nst = rng.choice([1, 1, 2, 2, 3])
    asc = {"meter": meter, "key": rng.randint(-7, 7), "mode": rng.choice(["major", "minor", None]),
           "pickup": None, "meterchg": {}, "staves": []}
    if rng.random() < 0.25:
        asc["pickup"] = str(rng.choice([F(1, 2), F(1), F(1, 4), F(3, 2), F(2), F(3, 4)]))
        if F(asc["pickup"]) >= meter_len(meter):
            asc["pickup"] = None
    cur = meter
    for m in range(1, nm):
        if rng.random() < 0.2:
            cur = list(rng.choice(meters))
            asc["meterchg"][str(m)] = cur
    asc["keychg"] = {str(m): rng.randint(-7, 7) for m in range(1, nm) if rng.random() < 0.15}
    lens = measure_lengths(asc, nm)
    clefs = [["G", 2], ["F", 4], ["C", 3], ["C", 4], ["G", 2], ["F", 4], ["F", 3], ["C", 1]]
    for s in range(nst):
        nv = rng.choice([1, 1, 2])
        st = {"clef": rng.choice(clefs), "voices": []}
        for v in range(nv):
            voice = []
            for m in range(nm):
                if (v > 0 and rng.random() < 0.4) or (v == 0 and rng.random() < 0.06):
                    voice.append(None)
                    continue
                mt = measure_meter(asc, m)
                pat = fill_length(rng, lens[m], mt, exotic)
                evs = []
                for (vv, d, tup) in pat:
                    r = rng.random()
                    e = {"t": "n", "v": vv, "d": d, "tup": list(tup) if tup else None}
                    if r < 0.14:
                        e["t"] = "r"
                    elif r < 0.32:
                        k = rng.randint(2, 4)
                        ps = []
                        while len(ps) < k:
                            p = rand_pitch(rng)
                            if all((q[0], q[2]) != (p[0], p[2]) for q in ps):
                                ps.append(p)
                        e["p"] = ps
                    else:
                        e["p"] = [rand_pitch(rng, 0 if rng.random() < 0.1 else 2, 8 if rng.random() < 0.1 else 6)]
                    if e["t"] == "n" and rng.random() < 0.07:
                        evs.append({"t": "g", "v": 8, "d": 0, "tup": None, "p": [rand_pitch(rng)]})
                    evs.append(e)
                voice.append(evs)
            # ties: to the next event of the voice (same pitches), also over barlines
            flat = [e for mm in voice if mm for e in mm if e["t"] != "g"]
            for a, b in zip(flat, flat[1:]):
                if a["t"] == "n" and b["t"] == "n" and rng.random() < 0.18:
                    if len(a["p"]) == 1 or chord_ties:
                        # both ends must be the same kind of sonority
                        if len(a["p"]) == 1 and len(b.get("p", [])) > 1 and not chord_ties:
                            continue
                        b["p"] = [list(p) for p in a["p"]]
                        a["tie"] = True
                        if partial_ties and len(a["p"]) >= 2 and rng.random() < 0.5:
                            # only some notes of the chord are tied; the others are struck again
                            k = rng.randint(1, len(a["p"]) - 1)
                            a["tiep"] = sorted(rng.sample(range(len(a["p"])), k))
            # a voice must not fall silent between tied notes (None measure in between)
            idx = 0
            for mi, mm in enumerate(voice):
                if mm is None:
                    continue
                last = [e for e in mm if e["t"] != "g"][-1]
                nxt = voice[mi + 1] if mi + 1 < len(voice) else None
                if last.get("tie") and nxt is None:
                    last.pop("tie")
            st["voices"].append(voice)
        asc["staves"].append(st)
    return asc


def measure_meter(asc, m):
    cur = asc["meter"]
    for k in range(0, m + 1):
        if str(k) in asc.get("meterchg", {}):
            cur = asc["meterchg"][str(k)]
    return cur


def measure_lengths(asc, nm=None):
    if nm is None:
        nm = len(asc["staves"][0]["voices"][0])
    out = []
    for m in range(nm):
        if m == 0 and asc.get("pickup"):
            out.append(F(asc["pickup"]))
        else:
            out.append(meter_len(measure_meter(asc, m)))
    return out


def n_measures(asc):
    return len(asc["staves"][0]["voices"][0])


def delay_subvoices(asc, rng, p=0.5):
    """second voices that exist only for a part of a measure: leading / trailing events become "s"
    (nothing there) when the boundary coincides with an onset of the first voice (a spine can only split or
    join between two tokens) and no tie or tuplet bracket is cut"""
    import copy

    a = copy.deepcopy(asc)
    for st in a["staves"]:
        if len(st["voices"]) < 2:
            continue
        v1, v2 = st["voices"][0], st["voices"][1]
        for m in range(len(v2)):
            if not v1[m] or not v2[m] or rng.random() > p:
                continue
            on1, pos = set(), F(0)
            for e in v1[m]:
                if e["t"] != "g":
                    on1.add(pos)
                pos += ev_value(e)
            evs = v2[m]
            # candidate cut points: index k (1..len-1) such that the onset of evs[k] is an onset of voice 1
            pos, cuts = F(0), []
            for k, e in enumerate(evs):
                if k > 0 and e["t"] != "g" and pos in on1:
                    cuts.append(k)
                pos += ev_value(e)
            if not cuts:
                continue
            prev_tied = m > 0 and v2[m - 1] and [x for x in v2[m - 1] if x["t"] != "g"][-1].get("tie")

            def clean(seg):
                return all(x["t"] in ("n", "r") and not x.get("tie") and not x.get("tup") for x in seg)

            mode = rng.choice(["lead", "trail", "both"])
            k1 = rng.choice(cuts)
            if mode in ("lead", "both") and clean(evs[:k1]) and not prev_tied and (k1 == 0 or not evs[k1 - 1].get("tie")):
                # a grace note directly before evs[k1] stays with it: cut before the grace notes
                for x in evs[:k1]:
                    x["t"] = "s"
                    x.pop("p", None)
            later = [k for k in cuts if k > k1]
            if mode in ("trail", "both") and later:
                k2 = rng.choice(later)
                kk = k2
                while kk > 0 and evs[kk - 1]["t"] == "g":
                    kk -= 1
                if kk > k1 and clean(evs[k2:]) and not evs[kk - 1].get("tie") and not (evs[kk - 1].get("tup")) \
                        and all(x["t"] != "s" for x in evs[:kk][-1:]):
                    for x in evs[kk:]:
                        x["t"] = "s"
                        x.pop("p", None)
            if all(x["t"] in ("s", "g") for x in evs):
                v2[m] = None
    return untie_last(a)


def spaces_aligned(asc):
    """every place where a second voice starts or stops existing inside a measure is an onset of the first voice"""
    for st in asc["staves"]:
        if len(st["voices"]) < 2:
            continue
        v1, v2 = st["voices"][0], st["voices"][1]
        for m in range(len(v2)):
            if not v2[m] or not any(e["t"] == "s" for e in v2[m]):
                continue
            if not v1[m]:
                return False
            on1, pos = set(), F(0)
            for e in v1[m]:
                if e["t"] != "g":
                    on1.add(pos)
                pos += ev_value(e)
            pos, prev_s = F(0), None
            for e in v2[m]:
                if e["t"] == "g":
                    continue
                is_s = e["t"] == "s"
                if prev_s is not None and is_s != prev_s and pos not in on1:
                    return False
                prev_s = is_s
                pos += ev_value(e)
    return True


def untie_last(asc):
    """a tie needs a following note: drop dangling ties (after shrinking)"""
    for st in asc["staves"]:
        for voice in st["voices"]:
            flat = [e for mm in voice if mm for e in mm if e["t"] != "g"]
            for i, e in enumerate(flat):
                if e.get("tie"):
                    nx = flat[i + 1] if i + 1 < len(flat) else None
                    if nx is None or nx["t"] != "n" or sorted(map(tuple, nx["p"])) != sorted(map(tuple, e["p"])):
                        e.pop("tie")
            # silent measures between tied notes
            for mi, mm in enumerate(voice):
                if mm:
                    last = [e for e in mm if e["t"] != "g"]
                    if last and last[-1].get("tie") and (mi + 1 >= len(voice) or voice[mi + 1] is None):
                        last[-1].pop("tie")
    return asc


# ---------------------------------------------------------------------------- expectations (oracle side)
def expected_voice(asc, si, vi, fill_silent):
    """[(onset, dur, kind, [pitches], tie)] of a voice; silent measures become rests when fill_silent"""
    lens = measure_lengths(asc)
    out = []
    t0 = F(0)
    voice = asc["staves"][si]["voices"][vi]
    for m, mm in enumerate(voice):
        pos = t0
        if mm is None:
            if fill_silent:
                for (v, d) in rest_fill(lens[m]):
                    e = {"t": "r", "v": v, "d": d, "tup": None}
                    out.append((pos, ev_value(e), "r", [], set()))
                    pos += ev_value(e)
        else:
            for e in mm:
                val = ev_value(e)
                kind = "r" if (e["t"] == "s" and fill_silent) else e["t"]
                out.append((pos, val, kind, e.get("p", []), tied_keys(e) if kind == "n" else set()))
                pos += val
        t0 += lens[m]
    return out


def expected_joined(evs):
    """sounding notes (onset, dur, step, alter, oct) of one voice: tie chains joined"""
    res = []
    open_ = {}   # pitch tuple -> index in res
    for (on, du, kind, ps, tie) in evs:
        if kind != "n":
            continue
        new_open = {}
        for p in ps:
            key = tuple(p)
            if key in open_:
                i = open_[key]
                res[i] = (res[i][0], res[i][1] + du) + res[i][2:]
            else:
                res.append((on, du, p[0], p[1], p[2]))
                i = len(res) - 1
            if (tie is True) or (not isinstance(tie, bool) and key in tie):
                new_open[key] = i
        open_ = new_open
    return res


def expected_joined_st(evs):
    """like expected_joined for events (onset, dur, kind, pitches, tie, staffs): a sounding note stands on the staff of
    its first note; -> (onset, dur, step, alter, oct, staff)"""
    res = []
    open_ = {}
    for (on, du, kind, ps, tie, sts) in evs:
        if kind != "n":
            continue
        new_open = {}
        for p, sn in zip(ps, sts):
            key = tuple(p)
            if key in open_:
                i = open_[key]
                res[i] = (res[i][0], res[i][1] + du) + res[i][2:]
            else:
                res.append((on, du, p[0], p[1], p[2], sn))
                i = len(res) - 1
            if (tie is True) or (not isinstance(tie, bool) and key in tie):
                new_open[key] = i
        open_ = new_open
    return res


def tied_keys(e):
    """pitch keys of an event that are tied to the next event: all of them ("tie"), or only those listed
    by index in "tiep" (a chord in which only some notes are tied)"""
    if e.get("t") != "n":
        return set()
    if not e.get("tie"):
        return set()
    if e.get("tiep") is not None:
        return set(tuple(e["p"][i]) for i in e["tiep"] if i < len(e["p"]))
    return set(tuple(p) for p in e["p"])


# ============================================================================ kern writer
ACC = {0: "", 1: "#", 2: "##", -1: "-", -2: "--", 3: "###", -3: "---"}


def kern_pitch(p, natural=False):
    step, alter, octv = p
    if octv >= 4:
        s = step.lower() * (octv - 3)
    else:
        s = step.upper() * (4 - octv)
    a = ACC[alter]
    if alter == 0 and natural:
        a = "n"
    return s + a


def kern_recip(e):
    v, d, tup = e["v"], e.get("d", 0), e.get("tup")
    if v <= 0:
        r = "0" * (1 - v)
        if tup:   # breve triplets: as a fraction of the whole note  (1/2 * num/numbase)
            fr = F(tup[0], 2 ** (1 - v) * tup[1])
            r = "%d%%%d" % (fr.numerator, fr.denominator)
    elif tup:
        fr = F(v * tup[0], tup[1])
        r = "%d" % fr.numerator if fr.denominator == 1 else "%d%%%d" % (fr.numerator, fr.denominator)
    else:
        r = "%d" % v
    return r + "." * d


def kern_token(rng, e, tie_in, deco):
    """one data token; tie_in: the event continues a tie"""
    if e["t"] == "r":
        return kern_recip(e) + "r"
    subs = []
    for i, p in enumerate(e["p"]):
        if e["t"] == "g":
            s = (kern_recip(e) if deco.get("grace_dur") else "") + kern_pitch(p) + "q"
        else:
            s = kern_recip(e) + kern_pitch(p, natural=deco.get("nat", False))
            to = tuple(p) in tied_keys(e)
            tin = (tuple(p) in tie_in) if isinstance(tie_in, (set, frozenset)) else bool(tie_in)
            if tin and to:
                s = s + "_"
            elif to:
                s = "[" + s
            elif tin:
                s = s + "]"
        if i == 0 and deco.get("extra"):
            s = s + deco["extra"]
        subs.append(s)
    return " ".join(subs)


def write_kern(asc, lay, rng):
    """returns (text, columns) ; columns = [(staff index, voice index, main index, role)] in spine order.
    lay: {"same_part": bool, "split": bool, "bar0": bool, "barstyle": str, "final": str, "deco": bool,
          "comments": bool, "staff_tags": bool}"""
    nst = len(asc["staves"])
    nm = n_measures(asc)
    lens = measure_lengths(asc)
    # main spines: staves bottom-up; voice 0 always a main spine; voice 1 either a main spine or a sub-spine
    mains = []
    for si in reversed(range(nst)):
        st = asc["staves"][si]
        if len(st["voices"]) == 2 and lay["split"]:
            mains.append({"si": si, "vs": [0], "sub": 1})
        else:
            for vi in range(len(st["voices"])):
                mains.append({"si": si, "vs": [vi], "sub": None})
    # per (si, vi) token streams per measure: [(time, token)]
    def stream(si, vi, fill_silent):
        voice = asc["staves"][si]["voices"][vi]
        res = []
        tie_in = False
        for m, mm in enumerate(voice):
            items = []
            pos = F(0)
            evs = mm
            if evs is None:
                if not fill_silent:
                    res.append(None)
                    tie_in = False
                    continue
                evs = [{"t": "r", "v": v, "d": d, "tup": None} for (v, d) in rest_fill(lens[m])]
            for e in evs:
                if e["t"] == "s" and fill_silent:
                    e = dict(e, t="r")   # a main spine has to be rhythmically complete: a rest
                if e["t"] == "s":      # the sub-spine does not exist here: no token, time passes
                    pos += ev_value(e)
                    tie_in = False
                    continue
                deco = {}
                if lay.get("deco"):
                    deco["nat"] = rng.random() < 0.3
                    deco["grace_dur"] = rng.random() < 0.5
                    if rng.random() < 0.25 and e["t"] == "n":
                        deco["extra"] = rng.choice(["L", "J", ";", "'", "~", "/", "\\", "K", "k", "^"])
                items.append((pos, kern_token(rng, e, tie_in if e["t"] == "n" else set(), deco), e["t"] == "g"))
                if e["t"] != "g":
                    tie_in = tied_keys(e)
                pos += ev_value(e)
            res.append(items)
        return res
    streams = {}
    for mn in mains:
        streams[(mn["si"], mn["vs"][0])] = stream(mn["si"], mn["vs"][0], True)
        if mn["sub"] is not None:
            streams[(mn["si"], mn["sub"])] = stream(mn["si"], mn["sub"], False)
    rows = []
    active = [False] * len(mains)    # sub-spine currently open

    def cols_now():
        c = []
        for i, mn in enumerate(mains):
            c.append((i, mn["si"], mn["vs"][0]))
            if active[i]:
                c.append((i, mn["si"], mn["sub"]))
        return c

    def row_all(f):
        rows.append([f(i, si, vi) for (i, si, vi) in cols_now()])

    row_all(lambda i, si, vi: "**kern")
    if lay.get("comments"):
        rows.insert(0, ["!!!COM: generated"])
        row_all(lambda i, si, vi: "!" if i else "! local")
    if lay["same_part"]:
        row_all(lambda i, si, vi: lay.get("part_tag", "*part1"))
    elif lay.get("mixed_parts") and len(mains) >= 3:
        # some spines share a tag, not all: every spine is a part of its own
        row_all(lambda i, si, vi: "*part%d" % (1 if i < len(mains) - 1 else 2))
    if lay["same_part"] or lay.get("staff_tags", True):
        row_all(lambda i, si, vi: "*staff%d" % (si + 1))
    order = ["clef", "key", "meter"]
    if lay.get("deco"):
        rng.shuffle(order)
    for what in order:
        if what == "clef":
            row_all(lambda i, si, vi: "*clef%s%d" % tuple(asc["staves"][si]["clef"]))
        elif what == "key":
            k = asc["key"]
            ks = "".join(x + "#" for x in "fcgdaeb"[:k]) if k > 0 else "".join(x + "-" for x in "beadgcf"[:-k])
            row_all(lambda i, si, vi: "*k[%s]" % ks)
        else:
            row_all(lambda i, si, vi: "*M%d/%d" % tuple(asc["meter"]))
    if lay.get("tempo"):
        row_all(lambda i, si, vi: "*MM%d" % lay["tempo"])
    barno = lay.get("first_bar", 1)
    for m in range(nm):
        pickup = (m == 0 and asc.get("pickup"))
        # barline (old column structure)
        if not pickup and not (m == 0 and not lay.get("bar0", True)):
            sty = lay.get("barstyle", "") if m > 0 else lay.get("bar0style", "")
            row_all(lambda i, si, vi: "=%d%s" % (barno, sty))
            barno += 1
        # spine paths: a sub-spine exists from its first to its last token of the measure
        span = {}
        for i, mn in enumerate(mains):
            if mn["sub"] is None:
                continue
            items = streams[(mn["si"], mn["sub"])][m]
            if items:
                voice = asc["staves"][mn["si"]]["voices"][mn["sub"]][m]
                pos, first, last = F(0), None, None
                for e in voice:
                    if e["t"] != "s":
                        if first is None:
                            first = pos
                        last = pos + ev_value(e)
                    pos += ev_value(e)
                span[i] = (first, last)

        def path_row(i, op):
            rows.append([op if j == i else "*" for (j, si, vi) in cols_now()])

        for i, mn in enumerate(mains):
            if mn["sub"] is None:
                continue
            if active[i] and (i not in span or span[i][0] > 0):
                path_row(i, "*v")
                active[i] = False
            elif not active[i] and i in span and span[i][0] == 0:
                path_row(i, "*^")
                active[i] = True
        if str(m) in asc.get("meterchg", {}) and m > 0:
            row_all(lambda i, si, vi: "*M%d/%d" % tuple(asc["meterchg"][str(m)]))
        if str(m) in asc.get("keychg", {}) and m > 0:
            k = asc["keychg"][str(m)]
            ks = "".join(x + "#" for x in "fcgdaeb"[:k]) if k > 0 else "".join(x + "-" for x in "beadgcf"[:-k])
            row_all(lambda i, si, vi: "*k[%s]" % ks)
        # data rows of the measure, time ordered; grace tokens get their own row before the note at that time
        all_cols = []
        for i, mn in enumerate(mains):
            all_cols.append((i, mn["si"], mn["vs"][0]))
            if mn["sub"] is not None and i in span:
                all_cols.append((i, mn["si"], mn["sub"]))
        events = []
        for (i, si, vi) in all_cols:
            for k, (pos, tok, is_g) in enumerate(streams[(si, vi)][m] or []):
                events.append((pos, (i, vi), k, tok, is_g))
        times = sorted(set(e[0] for e in events))
        for t in times:
            for i in list(span):
                if active[i] and span[i][1] == t and t < lens[m]:
                    path_row(i, "*v")          # the second voice ends before the measure does
                    active[i] = False
                    del span[i]
            for i in span:
                if not active[i] and span[i][0] == t:
                    path_row(i, "*^")          # ... or starts in the middle of it
                    active[i] = True
            cn = cols_now()
            here = [e for e in events if e[0] == t]
            per_col = {}
            for e in here:
                per_col.setdefault(e[1], []).append(e)
            depth = max(len(v) for v in per_col.values())
            for r in range(depth):
                cells = []
                for (i, si, vi) in cn:
                    lst = sorted(per_col.get((i, vi), []), key=lambda e: e[2])
                    # right-align: the main note in the last row
                    k = r - (depth - len(lst))
                    cells.append(lst[k][3] if 0 <= k < len(lst) else ".")
                rows.append(cells)
        for i in list(span):
            if active[i] and span[i][1] < lens[m]:
                path_row(i, "*v")
                active[i] = False
    # final barline, joins, terminator
    if lay.get("final", "==") is not None:
        row_all(lambda i, si, vi: lay.get("final", "=="))
    for i, mn in enumerate(mains):
        if active[i]:
            rows.append(["*v" if j == i else "*" for (j, si, vi) in cols_now()])
            active[i] = False
    row_all(lambda i, si, vi: "*-")
    if lay.get("dynam"):
        # a spine of another representation (**dynam, **text) beside the **kern spines: it denotes no notes
        drng = random.Random(lay.get("dynam_seed", 0))
        for r in rows:
            c0 = r[0]
            if c0.startswith("!!"):
                continue
            if c0.startswith("**"):
                cell = lay.get("dynam_type", "**dynam")
            elif c0 == "*-":
                cell = "*-"
            elif c0.startswith("*"):
                cell = "*"
            elif c0.startswith("="):
                cell = c0
            elif c0.startswith("!"):
                cell = "!"
            else:
                cell = drng.choice([".", ".", ".", "p", "f", "mf", "<", ">", "cresc."])
            if lay["dynam"] == "left":
                r.insert(0, cell)
            else:
                r.append(cell)
    text = "\n".join("\t".join(r) for r in rows) + "\n"
    return text, mains


def key_expect(asc):
    """[(time, fifths)] of the key signatures in force"""
    lens = measure_lengths(asc)
    res = [(F(0), asc["key"])]
    t = F(0)
    for m in range(n_measures(asc)):
        if m > 0 and str(m) in asc.get("keychg", {}):
            res.append((t, asc["keychg"][str(m)]))
        t += lens[m]
    return res


def kern_expect(asc, lay, mains):
    """oracle: per part (partitura order) the expected notes / joined notes / measure starts / signatures"""
    lens = measure_lengths(asc)
    nm = n_measures(asc)
    groups = [list(range(len(mains)))] if lay["same_part"] else [[i] for i in reversed(range(len(mains)))]
    tagged = lay["same_part"] or lay.get("staff_tags", True)

    def staff_no(si):
        return si + 1 if tagged else 1

    parts = []
    for g in groups:
        notes, joined = [], []
        off = 0
        for i in g:
            mn = mains[i]
            cols = [(mn["vs"][0], True)] + ([(mn["sub"], False)] if mn["sub"] is not None and any(
                x is not None for x in asc["staves"][mn["si"]]["voices"][mn["sub"]]) else [])
            for pos, (vi, fill) in enumerate(cols):
                evs = expected_voice(asc, mn["si"], vi, fill)
                voice, staff = 1 + off + pos, staff_no(mn["si"])
                for (on, du, kind, ps, tie) in evs:
                    if kind == "r":
                        notes.append((on, du, "r", "", 0, 0, voice, staff))
                    for p in ps:
                        notes.append((on, du, kind, p[0], p[1], p[2], voice, staff))
                joined += [j + (voice, staff) for j in expected_joined(evs)]
            off += len(cols)
        # measures
        starts = []
        t = F(0)
        for m in range(nm):
            pickup = (m == 0 and asc.get("pickup"))
            if not pickup and not (m == 0 and not lay.get("bar0", True)):
                starts.append(t)
            t += lens[m]
        if lay.get("final", "==") is not None:
            starts.append(t)
        # a measure lasts until the next barline, the last one until the end of the part;
        # what precedes the first barline is the pickup measure
        spans = [(a, b) for a, b in zip(starts, starts[1:] + [t])]
        if starts and starts[0] != 0:
            spans.insert(0, (F(0), starts[0]))
        ts = [(F(0), asc["meter"][0], asc["meter"][1])]
        t = F(0)
        for m in range(nm):
            if m > 0 and str(m) in asc.get("meterchg", {}):
                ts.append((t, asc["meterchg"][str(m)][0], asc["meterchg"][str(m)][1]))
            t += lens[m]
        clefs = sorted(set((F(0), staff_no(mains[i]["si"]), asc["staves"][mains[i]["si"]]["clef"][0],
                            asc["staves"][mains[i]["si"]]["clef"][1]) for i in g))
        parts.append({"notes": notes, "joined": joined, "mstarts": [a for a, _ in spans], "mends": [b for _, b in spans],
                      "end": t, "ts": ts, "ks": key_expect(asc), "clefs": clefs})
    return parts




# ============================================================================ kern with several sub-spines per spine
def prep_kern3(asc):
    """a voice k > 0 exists in a measure only where all lower voices of its staff do (spines split one by one)"""
    import copy

    a = copy.deepcopy(asc)
    for st in a["staves"]:
        nm = len(st["voices"][0])
        for m in range(nm):
            for k in range(1, len(st["voices"])):
                if st["voices"][k - 1][m] is None or (k - 1 > 0 and st["voices"][k - 1][m] is None):
                    st["voices"][k][m] = None
    return untie_last(a)


def merge_path_rows(rows, meta):
    """two consecutive rows of spine paths that belong to different spines become ONE row (one spine joins while another
    splits or joins): the same document, read from the column layout in front of the first of them.  Not merged when a `*v`
    of one spine would stand next to a `*v` of another (Humdrum joins ALL adjacent `*v`: not the same document)."""
    out, p = [], 0
    while p < len(rows):
        r1 = rows[p]
        if p in meta and p + 1 in meta:
            r2, m1, m2 = rows[p + 1], meta[p], meta[p + 1]
            s1 = {j for j, c in zip(m1, r1) if c != "*"}
            s2 = {j for j, c in zip(m2, r2) if c != "*"}
            if s1 and s2 and not (s1 & s2):
                of2 = {}
                for j, c in zip(m2, r2):
                    of2.setdefault(j, []).append(c)
                seen, merged = {}, []
                for j, c in zip(m1, r1):
                    if j in s2:
                        merged.append(of2[j][seen.get(j, 0)])
                        seen[j] = seen.get(j, 0) + 1
                    else:
                        merged.append(c)
                clash = any(a == "*v" and b == "*v" and ja != jb
                            for (a, ja), (b, jb) in zip(zip(merged, m1), list(zip(merged, m1))[1:]))
                if not clash and all(seen.get(j, 0) == len(of2[j]) for j in s2):
                    out.append(merged)
                    p += 2
                    continue
        out.append(r1)
        p += 1
    return out


def write_kern3(asc, lay, rng):
    """main spines = staves (bottom-up); the further voices of a staff are sub-spines that are split off (`*^`, one per
    interpretation row, always the last sub-spine) after the barline and joined two by two (`*v *v`) when a voice ends"""
    nst = len(asc["staves"])
    nm = n_measures(asc)
    lens = measure_lengths(asc)
    mains = list(reversed(range(nst)))               # staff index of every main spine
    rows = []
    path_meta = {}                                   # row index of a row of spine paths -> main spine of every column
    active = [1] * len(mains)                        # number of columns of each main spine

    def cols_now():
        return [(i, si, k) for i, si in enumerate(mains) for k in range(active[i])]

    def row_all(f):
        rows.append([f(i, si, k) for (i, si, k) in cols_now()])

    def tokens(si, vi, m, tie_in):
        mm = asc["staves"][si]["voices"][vi][m]
        evs = mm if mm is not None else [{"t": "r", "v": v, "d": d, "tup": None} for (v, d) in rest_fill(lens[m])]
        items, pos = [], F(0)
        for e in evs:
            items.append((pos, kern_token(rng, e, tie_in if e["t"] == "n" else set(), {}), e["t"] == "g"))
            if e["t"] != "g":
                tie_in = tied_keys(e)
            pos += ev_value(e)
        return items, tie_in

    row_all(lambda i, si, k: "**kern")
    if lay["same_part"]:
        row_all(lambda i, si, k: "*part1")
    row_all(lambda i, si, k: "*staff%d" % (si + 1))
    row_all(lambda i, si, k: "*clef%s%d" % tuple(asc["staves"][si]["clef"]))
    kk = asc["key"]
    row_all(lambda i, si, k: "*k[%s]" % ("".join(x + "#" for x in "fcgdaeb"[:kk]) if kk > 0 else "".join(x + "-" for x in "beadgcf"[:-kk])))
    row_all(lambda i, si, k: "*M%d/%d" % tuple(asc["meter"]))
    tie_state = {}
    for m in range(nm):
        if not (m == 0 and asc.get("pickup")):
            row_all(lambda i, si, k: "=%d" % (m + 1))
        if m > 0 and str(m) in asc.get("meterchg", {}):
            row_all(lambda i, si, k: "*M%d/%d" % tuple(asc["meterchg"][str(m)]))
        # as many columns as the staff has voices in this measure
        for i, si in enumerate(mains):
            want = 1 + sum(1 for k in range(1, len(asc["staves"][si]["voices"])) if asc["staves"][si]["voices"][k][m] is not None)
            while active[i] > want:
                cn = cols_now()
                # two by two, or (lay["joinall"]) all the sub-spines that end here in one `*v *v *v ...` row
                t = active[i] - want + 1 if lay.get("joinall") else 2
                rows.append(["*v" if (j == i and k >= active[i] - t) else "*" for (j, s_, k) in cn])
                path_meta[len(rows) - 1] = [j for (j, s_, k) in cn]
                for _ in range(t - 1):
                    active[i] -= 1
                    tie_state.pop((si, active[i]), None)
            while active[i] < want:
                cn = cols_now()
                # one by one, or (lay["multi"]) as many of the last sub-spines as needed split in the same row
                t = min(want - active[i], active[i]) if lay.get("multi") else 1
                rows.append(["*^" if (j == i and k >= active[i] - t) else "*" for (j, s_, k) in cn])
                path_meta[len(rows) - 1] = [j for (j, s_, k) in cn]
                active[i] += t
        events = []
        for (i, si, k) in cols_now():
            items, tie_state[(si, k)] = tokens(si, k, m, tie_state.get((si, k), False))
            for n_, (pos, tok, is_g) in enumerate(items):
                events.append((pos, (i, k), n_, tok))
        for t in sorted(set(e[0] for e in events)):
            here = [e for e in events if e[0] == t]
            per_col = {}
            for e in here:
                per_col.setdefault(e[1], []).append(e)
            depth = max(len(v) for v in per_col.values())
            for r in range(depth):
                cells = []
                for (i, si, k) in cols_now():
                    lst = sorted(per_col.get((i, k), []), key=lambda e: e[2])
                    kk_ = r - (depth - len(lst))
                    cells.append(lst[kk_][3] if 0 <= kk_ < len(lst) else ".")
                rows.append(cells)
    row_all(lambda i, si, k: "==")
    for i in range(len(mains)):
        while active[i] > 1:
            cn = cols_now()
            t = active[i] if lay.get("joinall") else 2
            rows.append(["*v" if (j == i and k >= active[i] - t) else "*" for (j, s_, k) in cn])
            path_meta[len(rows) - 1] = [j for (j, s_, k) in cn]
            active[i] -= t - 1
    row_all(lambda i, si, k: "*-")
    if lay.get("merge"):
        rows = merge_path_rows(rows, path_meta)
    return "\n".join("\t".join(r) for r in rows) + "\n", mains


def kern3_expect(asc, lay, mains):
    lens = measure_lengths(asc)
    nm = n_measures(asc)
    groups = [list(range(len(mains)))] if lay["same_part"] else [[i] for i in reversed(range(len(mains)))]
    parts = []
    for g in groups:
        notes, joined, off = [], [], 0
        for i in g:
            si = mains[i]
            voices = asc["staves"][si]["voices"]
            width = max(1 + sum(1 for k in range(1, len(voices)) if voices[k][m] is not None) for m in range(nm))
            for k in range(width):
                evs = expected_voice(asc, si, k, k == 0)
                voice = 1 + off + k
                for (on, du, kind, ps, tie) in evs:
                    if kind == "r":
                        notes.append((on, du, "r", "", 0, 0, voice, si + 1))
                    for p_ in ps:
                        notes.append((on, du, kind, p_[0], p_[1], p_[2], voice, si + 1))
                joined += [j + (voice, si + 1) for j in expected_joined(evs)]
            off += width
        starts, t = [], F(0)
        for m in range(nm):
            if not (m == 0 and asc.get("pickup")):
                starts.append(t)
            t += lens[m]
        starts.append(t)
        spans = list(zip(starts, starts[1:] + [t]))
        if starts and starts[0] != 0:
            spans.insert(0, (F(0), starts[0]))
        ts = [(F(0), asc["meter"][0], asc["meter"][1])]
        tt = F(0)
        for m in range(nm):
            if m > 0 and str(m) in asc.get("meterchg", {}):
                ts.append((tt, asc["meterchg"][str(m)][0], asc["meterchg"][str(m)][1]))
            tt += lens[m]
        clefs = sorted(set((F(0), mains[i] + 1, asc["staves"][mains[i]]["clef"][0], asc["staves"][mains[i]]["clef"][1]) for i in g))
        parts.append({"notes": notes, "joined": joined, "mstarts": [a for a, _ in spans], "mends": [b for _, b in spans],
                      "end": t, "ts": ts, "ks": [(F(0), asc["key"])], "clefs": clefs})
    return parts


def gen_asc3(rng):
    """an abstract score with up to four voices on a staff"""
    asc = gen_asc(rng, exotic=False, max_measures=3, chord_ties=True)
    asc["keychg"] = {}
    for st in asc["staves"]:
        while len(st["voices"]) < rng.choice([2, 3, 3, 4]):
            src = st["voices"][0]
            extra = []
            for m, mm in enumerate(src):
                if rng.random() < 0.35:
                    extra.append(None)
                    continue
                mt = measure_meter(asc, m)
                pat = fill_length(rng, measure_lengths(asc)[m], mt, False)
                evs = []
                for (vv, d, tup) in pat:
                    e = {"t": "n", "v": vv, "d": d, "tup": list(tup) if tup else None}
                    if rng.random() < 0.2:
                        e["t"] = "r"
                    else:
                        e["p"] = [rand_pitch(rng)]
                    evs.append(e)
                extra.append(evs)
            st["voices"].append(extra)
    return prep_kern3(asc)


def eval_kern3(d):
    asc, lay = d["asc"], d["lay"]
    rng = random.Random(d.get("seed", 0) ^ 0x5EED)
    text, mains = write_kern3(asc, lay, rng)
    ev = Eval(info={"text": text})
    exp = kern3_expect(asc, lay, mains)
    try:
        score = load_text(text, ".krn", loader="kern")
        infos = extract_parts(score)
        err = None
    except Exception as e:
        infos, err = None, e
    for what in ("notes", "joined", "meas", "sigs"):
        ev.requests.append(kern_request(what, text))
    if err is not None:
        ev.impl += ["err"] * 4
        ev.oracle.append("load: load_kern raised %s: %s" % (type(err).__name__, str(err)[:200]))
    else:
        tx = impl_texts(infos, "kern")
        ev.impl += [tx["notes"], tx["joined"], tx["meas"], tx["sigs"]]
        oracle_compare(exp, infos, ev.oracle)
    pbv_stream(ev, text)
    ev.key = "kern3:" + text if infos and any(i["notes"] for i in infos) else None
    return ev


# ============================================================================ MEI writer
MEI_ACC = {1: "s", -1: "f", 2: "x", -2: "ff", 0: "n", 3: "xs", -3: "tf"}
MEI_ACC_ALT = {2: "ss"}


def mei_dur(v):
    return {0: "breve", -1: "long"}.get(v, str(v))


class _Ids:
    def __init__(self):
        self.n = 0

    def __call__(self, prefix):
        self.n += 1
        return "%s%d" % (prefix, self.n)


def write_mei(asc, opt, rng):
    """returns the MEI text; one staffDef (= part) per staff, one layer per voice"""
    ids = _Ids()
    nst = len(asc["staves"])
    nm = n_measures(asc)
    lens = measure_lengths(asc)
    out = []
    w = out.append
    w('<?xml version="1.0" encoding="UTF-8"?>')
    w('<mei xmlns="http://www.music-encoding.org/ns/mei" meiversion="4.0.1">')
    w('<meiHead><fileDesc><titleStmt><title>generated</title></titleStmt><pubStmt/></fileDesc></meiHead>')
    w('<music><body><mdiv xml:id="%s"><score xml:id="%s">' % (ids("mdiv"), ids("score")))
    loc = opt["sig_loc"]
    b, u = asc["meter"]
    k = asc["key"]
    sig = "0" if k == 0 else ("%ds" % k if k > 0 else "%df" % -k)
    mode = asc.get("mode")
    sd_attrs = ' xml:id="%s"' % ids("scoredef")
    sd_children = ""
    if loc == "scoredef_attr":
        sd_attrs += ' meter.count="%d" meter.unit="%d" key.sig="%s"' % (b, u, sig) + (' key.mode="%s"' % mode if mode else "")
    elif loc == "scoredef_child":
        sd_children = '<keySig xml:id="%s" sig="%s"%s/><meterSig xml:id="%s" count="%d" unit="%d"/>' % (
            ids("ks"), sig, ' mode="%s"' % mode if mode else "", ids("ms"), b, u)
    w("<scoreDef%s>%s" % (sd_attrs, sd_children if opt.get("sd_children_first", True) else ""))
    w('<staffGrp xml:id="%s" symbol="bracket">' % ids("grp"))
    if opt.get("nested_grp"):
        w('<staffGrp xml:id="%s"><grpSym xml:id="%s" symbol="brace"/>' % (ids("grp"), ids("gs")))
    ppq = opt.get("ppq") if opt.get("declare", "ppq") in ("ppq", "both") else None
    for si, st in enumerate(asc["staves"]):
        a = ' xml:id="P%d" n="%d" lines="5"' % (si + 1, si + 1)
        ch = '<label xml:id="%s">Staff %d</label>' % (ids("lab"), si + 1) if opt.get("labels") else ""
        if ppq:
            a += ' ppq="%d"' % ppq
        if opt["clef_loc"] == "attr":
            a += ' clef.shape="%s" clef.line="%d"' % tuple(st["clef"])
        else:
            ch += '<clef xml:id="%s" shape="%s" line="%d"/>' % ((ids("clef"),) + tuple(st["clef"]))
        if loc == "staffdef_attr":
            a += ' meter.count="%d" meter.unit="%d" key.sig="%s"' % (b, u, sig) + (' key.mode="%s"' % mode if mode else "")
        elif loc == "staffdef_child":
            ch += '<keySig xml:id="%s" sig="%s"%s/><meterSig xml:id="%s" count="%d" unit="%d"/>' % (
                ids("ks"), sig, ' mode="%s"' % mode if mode else "", ids("ms"), b, u)
        w("<staffDef%s>%s</staffDef>" % (a, ch) if ch else "<staffDef%s/>" % a)
    if opt.get("nested_grp"):
        w("</staffGrp>")
    w("</staffGrp>")
    if not opt.get("sd_children_first", True):
        w(sd_children)
    w("</scoreDef>")
    # ---- pass 1: the measures (same order of rng draws as ever: scoreDef changes, <sb>, then the measure's staves)
    pending = {}     # (si, vi) -> list of (pitch tuple, id, measure) waiting for their continuation
    ties = []        # (start id, end id, measure of the start note, measure of the end note)
    reg = []         # (note id, measure) of every sounding note written: slurs pick their ends here
    pre, opening, body = [], [], []
    for m in range(nm):
        lines = []
        w = lines.append
        if m > 0 and str(m) in asc.get("meterchg", {}):
            cb, cu = asc["meterchg"][str(m)]
            if opt.get("meterchg") == "child":
                w('<scoreDef xml:id="%s"><meterSig xml:id="%s" count="%d" unit="%d"/></scoreDef>' % (ids("sd"), ids("ms"), cb, cu))
            else:
                w('<scoreDef xml:id="%s" meter.count="%d" meter.unit="%d"/>' % (ids("sd"), cb, cu))
        if m > 0 and str(m) in asc.get("keychg", {}):
            kk = asc["keychg"][str(m)]
            ksig = "0" if kk == 0 else ("%ds" % kk if kk > 0 else "%df" % -kk)
            if opt.get("keychg") == "child":
                w('<scoreDef xml:id="%s"><keySig xml:id="%s" sig="%s"/></scoreDef>' % (ids("sd"), ids("ks"), ksig))
            else:
                w('<scoreDef xml:id="%s" key.sig="%s"/>' % (ids("sd"), ksig))
        sdefs = list(lines)
        del lines[:]
        if opt.get("sb") and m > 0 and rng.random() < 0.3:
            w('<sb xml:id="%s"/>' % ids("sb"))
        pre.append((sdefs, list(lines)))
        mattr = ' xml:id="%s" n="%d"' % (ids("m"), m + opt.get("first_n", 1))
        if m == nm - 1 and opt.get("right_end"):
            mattr += ' right="end"'
        elif m in opt.get("rptend", []):
            mattr += ' right="rptend"'
        if m in opt.get("rptstart", []):
            mattr += ' left="rptstart"'
        opening.append("<measure%s>" % mattr)
        lines = []
        w = lines.append
        full = (lens[m] == meter_len(measure_meter(asc, m)))
        for si, st in enumerate(asc["staves"]):
            w('<staff xml:id="%s" n="%d">' % (ids("st"), si + 1))
            for vi, voice in enumerate(st["voices"]):
                mm = voice[m]
                lattr = ' xml:id="%s"' % ids("ly") + (' n="%d"' % (vi + 1) if opt.get("layer_n", True) or opt.get("silent") == "omit" else "")
                if mm is None:
                    pending[(si, vi)] = []
                    mode = silent_mode(opt, vi, full)
                    msa = ' staff="%d"' % mrest_staff(opt, si, vi, m) if mrest_staff(opt, si, vi, m) else ""
                    if mode == "mrest" and opt.get("multirest") and rng.random() < 0.5:
                        w('<layer%s><multiRest xml:id="%s" num="1"%s/></layer>' % (lattr, ids("mr"), msa))
                    elif mode == "mrest":
                        w('<layer%s><mRest xml:id="%s"%s/></layer>' % (lattr, ids("mr"), msa))
                    elif mode == "space_nodur":
                        w('<layer%s><space%s/></layer>' % (lattr, space_id(ids, opt)))
                    elif mode == "space":
                        w("<layer%s>%s</layer>" % (lattr, "".join(
                            '<space%s dur="%s"%s/>' % (space_id(ids, opt), mei_dur(v), ' dots="%d"' % d if d else "")
                            for (v, d) in rest_fill(lens[m]))))
                    # "omit": no layer at all
                    continue
                w("<layer%s>" % lattr)
                mm = short_layer(opt, si, vi, m, mm)
                # group events: tuplets (same tg) and beams
                i = 0
                while i < len(mm):
                    e = mm[i]
                    group = [e]
                    if e.get("tup"):
                        j = i + 1
                        while j < len(mm) and mm[j].get("tup") and mm[j]["tup"][2] == e["tup"][2]:
                            group.append(mm[j])
                            j += 1
                    else:
                        j = i + 1
                    beam = opt.get("beams") and all(g["v"] >= 8 for g in group) and (len(group) > 1 or rng.random() < 0.0)
                    pre_, post = "", ""
                    if e.get("tup"):
                        t = '<tuplet xml:id="%s" num="%d" numbase="%d">' % (ids("tup"), e["tup"][0], e["tup"][1])
                        if beam and opt.get("beam_outside", True):
                            pre_, post = '<beam xml:id="%s">' % ids("beam") + t, "</tuplet></beam>"
                        elif beam:
                            pre_, post = t + '<beam xml:id="%s">' % ids("beam"), "</beam></tuplet>"
                        else:
                            pre_, post = t, "</tuplet>"
                    w(pre_)
                    for g in group:
                        if g.get("clefb"):
                            # a clef change: a child of the layer, or of the beam / tuplet the event stands in
                            w('<clef xml:id="%s" shape="%s" line="%d"/>' % ((ids("clef"),) + tuple(g["clefb"])))
                        w(mei_event(g, si, vi, ids, opt, rng, pending, ties, m, reg))
                    w(post)
                    i = j
                w("</layer>")
            w("</staff>")
        body.append(lines)

    # ---- where the control events stand: a <tie> may be written in any measure, before or after the staves
    # (its own generator: the draws above stay what they were)
    crng = random.Random(opt.get("ctl_seed", 0))
    before = [[] for _ in range(nm)]
    after = [[] for _ in range(nm)]
    tie_at = opt.get("tie_at", "end")
    ctl = []
    for (a_, b_, ms, me) in ties:
        ctl.append(("tie", a_, b_, ms, me))
    for _ in range(opt.get("slurs", 0)):
        if len(reg) >= 2:
            (a_, ms), (b_, me) = sorted(crng.sample(reg, 2), key=lambda x: x[1])
            ctl.append(("slur", a_, b_, ms, me))
    for (tag, a_, b_, ms, me) in ctl:
        how = tie_at if tie_at != "mixed" else crng.choice(["end", "start", "first", "last", "any"])
        at = {"end": me, "start": ms, "first": 0, "last": nm - 1}.get(how)
        if at is None:
            at = crng.randrange(nm)
        el = '<%s xml:id="%s" startid="#%s" endid="#%s"/>' % (tag, ids(tag), a_, b_)
        front = opt.get("ctl_before", False) if opt.get("ctl_before") in (True, False, None) else crng.random() < 0.5
        (before if front else after)[at].append(el)
    if opt.get("decor"):
        # control events that denote no notes (some carry a plain @dur: it only enters the inferred divisions)
        by_m = {}
        for (nid_, mi_) in reg:
            by_m.setdefault(mi_, []).append(nid_)
        for mi_ in range(nm):
            for _ in range(crng.choice([0, 1, 1, 2, 3])):
                nids = by_m.get(mi_) or [None]
                a_, b_ = crng.choice(nids), crng.choice(nids)
                ts = ' tstamp="%d" staff="1"' % crng.randint(1, 2)
                sid = ' startid="#%s"' % a_ if a_ else ts
                el = crng.choice([
                    '<fermata xml:id="%s"%s form="norm"/>' % (ids("fer"), sid),
                    '<dynam xml:id="%s"%s>p</dynam>' % (ids("dyn"), ts),
                    '<hairpin xml:id="%s" form="cres"%s tstamp2="0m+2"/>' % (ids("hp"), ts),
                    '<hairpin xml:id="%s" form="dim"%s dur="%s"/>' % (ids("hp"), ts, crng.choice(["1", "2", "4"])),
                    '<dir xml:id="%s"%s>dolce</dir>' % (ids("dir"), ts),
                    '<tempo xml:id="%s"%s mm="96" mm.unit="4">Andante</tempo>' % (ids("tmp"), ts),
                    '<harm xml:id="%s"%s>C7</harm>' % (ids("harm"), ts),
                    '<pedal xml:id="%s" dir="down"%s/>' % (ids("ped"), ts),
                    '<fing xml:id="%s"%s>1</fing>' % (ids("fing"), sid),
                    '<trill xml:id="%s"%s/>' % (ids("tr"), sid),
                    '<beamSpan xml:id="%s"%s/>' % (ids("bsp"), (' startid="#%s" endid="#%s"' % (a_, b_)) if a_ else ts),
                ])
                (before if crng.random() < 0.3 else after)[mi_].append(el)
        for mi_ in range(nm):
            if 'right=' not in opening[mi_] and crng.random() < 0.3:
                opening[mi_] = opening[mi_][:-1] + ' right="%s">' % crng.choice(["dbl", "dashed", "invis", "single"])
            if 'left=' not in opening[mi_] and crng.random() < 0.15:
                opening[mi_] = opening[mi_][:-1] + ' left="%s">' % crng.choice(["dbl", "dashed"])
    if opt.get("ctl_shuffle"):
        for lst in before + after:
            crng.shuffle(lst)

    # ---- pass 2: the section structure around the measures
    w = out.append
    toks = tree_tokens(mei_tree(opt, nm))
    sd_at = opt.get("sd_at", "next")
    n_end = 0
    gap = []

    depth = [0]

    def emit_struct(t):
        nonlocal n_end
        depth[0] += 1 if t[0] == "o" else -1
        if t[0] == "o" and t[1] == "end":
            n_end += 1
            w('<ending xml:id="%s" n="%d">' % (ids("end"), n_end))
        elif t[0] == "o":
            w('<section xml:id="%s">' % ids("sec"))
        else:
            w("</ending>" if t[1] == "end" else "</section>")

    for t in toks + [("eof",)]:
        if t[0] in ("o", "c"):
            gap.append(t)
            continue
        if t[0] == "eof":
            for g in gap:
                emit_struct(g)
            break
        m = t[1]
        sdefs, sbs = pre[m]
        # the place of a scoreDef change between two measures: right before the next measure (inside whatever holds it),
        # right after the previous one (inside whatever holds that), or between the closing and the opening tags
        k = 0
        if sd_at == "next" or m == 0:
            k = len(gap)
        elif sd_at == "between":
            while k < len(gap) and gap[k][0] == "c":
                k += 1
        for g in gap[:k]:
            emit_struct(g)
        for x in sdefs:
            w(x)
        for g in gap[k:]:
            emit_struct(g)
        gap = []
        for x in sbs:
            w(x)
        w(opening[m])
        for x in before[m]:
            w(x)
        for x in body[m]:
            w(x)
        for x in after[m]:
            w(x)
        w("</measure>")
    w("</score></mdiv></body></music></mei>")
    return "\n".join(x for x in out if x) + "\n"


def mei_tree(opt, nm):
    """the section structure of the document: a list of top-level sections (children of <score>); a node is a measure
    index or {"t": "sec" | "end", "c": [nodes]}.  Without opt["tree"]: one section, optionally wrapped in a second one,
    optionally closing with two endings (opt["ending"] = [a, b]: measures a..b-1 and b.. )."""
    if opt.get("tree") is not None:
        return tree_fit(opt["tree"], nm)
    inner = list(range(nm))
    if opt.get("ending"):
        a, b = opt["ending"]
        if a < nm <= b:
            inner = list(range(a)) + [{"t": "end", "c": list(range(a, nm))}]
        elif a < b < nm:
            inner = list(range(a)) + [{"t": "end", "c": list(range(a, b))}, {"t": "end", "c": list(range(b, nm))}]
    node = {"t": "sec", "c": inner}
    if opt.get("nested_section"):
        node = {"t": "sec", "c": [node]}
    return [node]


def tree_tokens(tree):
    """document order: ("o", kind) / ("c", kind) / ("m", measure index)"""
    out = []

    def walk(n):
        if isinstance(n, int):
            out.append(("m", n))
        else:
            out.append(("o", n["t"]))
            for c in n["c"]:
                walk(c)
            out.append(("c", n["t"]))

    for n in tree:
        walk(n)
    return out


def tree_fit(tree, nm, shift=0):
    """the tree restricted to the measures that exist (after shrinking): leaves renumbered by -shift, those outside
    0..nm-1 dropped"""
    def fit(n):
        if isinstance(n, int):
            return [n - shift] if 0 <= n - shift < nm else []
        return [{"t": n["t"], "c": [x for c in n["c"] for x in fit(c)]}]

    return [x for n in tree for x in fit(n)]


def tree_measures(tree):
    return [t[1] for t in tree_tokens(tree) if t[0] == "m"]


def rand_tree(rng, nm):
    """cut the measures 0..nm-1 into 1-3 sibling top-level sections, each cut further into measures, nested sections
    (to depth 3, sometimes empty) and endings"""
    def build(lo, hi, depth, in_end):
        kids, m = [], lo
        while m < hi:
            r = rng.random()
            if r < 0.45 or depth >= 3:
                kids.append(m)
                m += 1
                continue
            e = rng.randint(m + 1, hi)
            if r < 0.8 or in_end:
                kids.append({"t": "sec", "c": build(m, e, depth + 1, in_end)})
            else:
                kids.append({"t": "end", "c": build(m, e, depth + 1, True)})
            m = e
        if depth < 3 and rng.random() < 0.08:
            kids.insert(rng.randint(0, len(kids)), {"t": "sec", "c": []})
        return kids

    k = min(rng.choice([1, 2, 2, 2, 3]), nm)
    cuts = sorted(rng.sample(range(1, nm), k - 1)) if k > 1 else []
    bounds = [0] + cuts + [nm]
    tree = [{"t": "sec", "c": build(bounds[i], bounds[i + 1], 1, False)} for i in range(k)]
    if k > 1 and rng.random() < 0.15:
        # an <ending> standing directly in <score>, after a section
        i = rng.randrange(1, k)
        tree[i] = {"t": "end", "c": build(bounds[i], bounds[i + 1], 1, True)}
    if rng.random() < 0.15:
        tree.insert(rng.randint(0, len(tree)), {"t": "sec", "c": []})
    assert tree_measures(tree) == list(range(nm))
    return tree


def short_layer(opt, si, vi, m, mm):
    """an incomplete layer ("bad encoding, but it often happens"): the second voice of the chosen measure
    stops before the end of the measure (its last event is not written, nothing tied into or out of it)"""
    sl = opt.get("short")
    if sl and vi == 1 and [si, m] == list(sl) and mm and len(mm) > 1:
        def tied_into(k):
            # the event before k that can be tied to it: grace notes in between do not interrupt a tie
            # (thorough tier, seed 7: [chord tie, grace, chord] was cut after the grace note, the expectation then
            # joined the first chord with a note two measures later while the written file had no tie at all)
            j = k - 1
            while j >= 0 and mm[j]["t"] == "g":
                j -= 1
            return j >= 0 and bool(mm[j].get("tie"))

        k = len(mm) - 1
        while k > 0 and (mm[k]["t"] == "g" or mm[k].get("tie") or tied_into(k) or mm[k].get("tup") or mm[k]["t"] == "s"):
            k -= 1
        if k > 0 and not mm[k].get("tup") and mm[k]["t"] in ("n", "r") and not mm[k].get("tie") and not tied_into(k):
            # only a plain trailing run may be cut, and only if nothing later in the measure is tied
            if all(not e.get("tie") for e in mm[k:]) and all(not e.get("tup") for e in mm[k:]):
                return mm[:k]
    return mm


def silent_mode(opt, vi, full):
    """how a silent measure of a voice is written: the first layer of a staff always fills its measure"""
    mode = opt.get("silent", "omit")
    if mode == "omit" and vi == 0:
        mode = "mrest"
    if mode == "mrest" and not full:
        mode = "space"          # an mRest lasts a full measure of the meter: not in a pickup
    if mode == "space" and opt.get("space_nodur") and full:
        mode = "space_nodur"
    return mode


def mei_event(e, si, vi, ids, opt, rng, pending, ties, m=0, reg=None):
    durattrs = ' dur="%s"' % mei_dur(e["v"]) + (' dots="%d"' % e["d"] if e.get("d") else "")
    if opt.get("ppq") and opt.get("declare", "ppq" if not opt.get("durppq") else "both") in ("durppq", "both") and e["t"] != "g":
        durattrs += ' dur.ppq="%d"' % int(ev_value(e) * opt["ppq"])
    if e["t"] == "s":
        return '<space%s%s/>' % (space_id(ids, opt), durattrs)
    if e["t"] == "r":
        return '<rest xml:id="%s"%s%s/>' % (ids("r"), durattrs, ' staff="%d"' % e["cs"] if e.get("cs") else "")

    def note(p, with_dur, grace, own=None):
        nid = ids("n")
        a = ' xml:id="%s"' % nid + (durattrs if with_dur else "") + ' pname="%s" oct="%d"' % (p[0].lower(), p[2])
        if own:
            a += ' staff="%d"' % own        # the note is written on another staff than its layer / chord
        child = ""
        mode = opt.get("accid_mode", "attr")
        if mode == "mixed":
            mode = rng.choice(["attr", "ges", "child", "childges"])
        if p[1] != 0 or rng.random() < 0.15:
            val = MEI_ACC[p[1]]
            if p[1] == 2 and rng.random() < 0.5:
                val = "ss"
            if mode == "attr":
                a += ' accid="%s"' % val
            elif mode == "ges":
                a += ' accid.ges="%s"' % val
            elif mode == "child":
                child = '<accid xml:id="%s" accid="%s"/>' % (ids("acc"), val)
            else:
                child = '<accid xml:id="%s" accid.ges="%s"/>' % (ids("acc"), val)
        if grace:
            a += ' grace="%s"' % opt.get("grace", "acc")
        if opt.get("stems") and rng.random() < 0.3:
            a += ' stem.dir="up"'
        if opt.get("decor"):
            # children that denote no note: articulation, lyrics, a written dot
            drng = random.Random((opt.get("ctl_seed", 0) << 8) ^ ids.n)
            r_ = drng.random()
            if r_ < 0.12:
                child += '<artic xml:id="%s" artic="%s"/>' % (ids("art"), drng.choice(["stacc", "acc", "ten"]))
            elif r_ < 0.2:
                child += '<verse xml:id="%s" n="1"><syl xml:id="%s">la</syl></verse>' % (ids("vs"), ids("syl"))
        return nid, ("<note%s>%s</note>" % (a, child) if child else "<note%s/>" % a)

    if e["t"] == "g":
        return note(e["p"][0], True, True, own_staff(e, 0))[1]
    # ties: link the waiting notes of this voice with the same pitch
    waiting = pending.get((si, vi), [])
    new_wait = []
    parts = []
    chord = len(e["p"]) > 1
    tk = tied_keys(e)
    for pi_, p in enumerate(e["p"]):
        nid, txt = note(p, (not chord) or opt.get("chord_note_dur", False), False, own_staff(e, pi_))
        parts.append(txt)
        if reg is not None:
            reg.append((nid, m))
        for (pp, wid, wm) in waiting:
            if tuple(pp) == tuple(p):
                ties.append((wid, nid, wm, m))
        if tuple(p) in tk:
            new_wait.append((tuple(p), nid, m))
    pending[(si, vi)] = new_wait
    if chord:
        return '<chord xml:id="%s"%s%s>%s</chord>' % (ids("ch"), durattrs, ' staff="%d"' % e["cs"] if e.get("cs") else "",
                                                     "".join(parts))
    return parts[0]


def space_id(ids, opt):
    """a <space> denotes no object: its xml:id is optional (opt["space_noid"]: written without)"""
    sid = ids("sp")
    return "" if opt.get("space_noid") else ' xml:id="%s"' % sid


def own_staff(e, i):
    """the @staff written on the i-th note of the event itself (None: none)"""
    xs = e.get("xs")
    return xs[i] if xs and i < len(xs) else None


def ev_staffs(e, si):
    """the staff each note (or the rest) of an event stands on: its own @staff, else the @staff of its <chord>, else the
    @n of the enclosing <staff> (cross-staff notation)"""
    if e["t"] == "r":
        return [e.get("cs") or si + 1]
    ps = e.get("p", [])
    dflt = (e.get("cs") if (e["t"] == "n" and len(ps) > 1) else None) or si + 1
    return [own_staff(e, i) or dflt for i in range(len(ps))]


def mrest_staff(opt, si, vi, m):
    """the @staff written on the measure rest of a silent measure (None: none)"""
    return (opt.get("mrest_staff") or {}).get("%d.%d.%d" % (si, vi, m))


def mei_expect(asc, opt):
    lens = measure_lengths(asc)
    nm = n_measures(asc)
    parts = []
    for si, st in enumerate(asc["staves"]):
        notes, joined = [], []
        ends = [[] for _ in range(nm)]
        for vi, voice in enumerate(st["voices"]):
            evs = []
            t0 = F(0)
            for m, mm in enumerate(voice):
                pos = t0
                full = (lens[m] == meter_len(measure_meter(asc, m)))
                if mm is None:
                    mode = silent_mode(opt, vi, full)
                    if mode == "mrest":
                        evs.append((pos, lens[m], "r", [], False, [mrest_staff(opt, si, vi, m) or si + 1]))
                    if mode != "omit":
                        ends[m].append(pos + lens[m])
                else:
                    for e in short_layer(opt, si, vi, m, mm):
                        evs.append((pos, ev_value(e), e["t"], e.get("p", []), tied_keys(e), ev_staffs(e, si)))
                        pos += ev_value(e)
                    ends[m].append(pos)
                t0 += lens[m]
            for (on, du, kind, ps, tie, sts) in evs:
                if kind == "r":
                    notes.append((on, du, "r", "", 0, 0, vi + 1, sts[0]))
                elif kind in ("n", "g"):
                    for p, sn in zip(ps, sts):
                        notes.append((on, du, kind, p[0], p[1], p[2], vi + 1, sn))
            joined += [j[:5] + (vi + 1, j[5]) for j in expected_joined_st(evs)]
        starts, mends, t = [], [], F(0)
        for m in range(nm):
            starts.append(t)
            mends.append(max(ends[m]) if ends[m] else t)
            t += lens[m]
        ts = [(F(0), asc["meter"][0], asc["meter"][1])]
        t = F(0)
        for m in range(nm):
            if m > 0 and str(m) in asc.get("meterchg", {}):
                ts.append((t, asc["meterchg"][str(m)][0], asc["meterchg"][str(m)][1]))
            t += lens[m]
        clefs = [(F(0), si + 1, st["clef"][0], st["clef"][1])]
        for vi, voice in enumerate(st["voices"]):
            t0 = F(0)
            for m, mm in enumerate(voice):
                pos = t0
                for e in (short_layer(opt, si, vi, m, mm) if mm else []):
                    if e.get("clefb"):
                        clefs.append((pos, si + 1, e["clefb"][0], e["clefb"][1]))   # the staff the layer stands in
                    pos += ev_value(e)
                t0 += lens[m]
        parts.append({"notes": notes, "joined": joined, "mstarts": starts, "mends": mends, "end": t, "ts": ts,
                      "ks": key_expect(asc), "clefs": sorted(clefs)})
    return parts


def clef_changes(asc, rng, p=0.08):
    """MEI only: clef changes inside the layers (e["clefb"]: a <clef> stands right before the event - directly in the
    layer, or inside the beam / tuplet of the event)"""
    for st in asc["staves"]:
        for voice in st["voices"]:
            for mm in voice:
                for e in (mm or []):
                    if rng.random() < p:
                        e["clefb"] = rng.choice([["G", 2], ["F", 4], ["C", 3], ["C", 4]])
    return asc


def spaces_for_rests(asc, rng, p=0.3):
    """MEI only: some rests become <space> (advance without an event)"""
    import copy

    a = copy.deepcopy(asc)
    for st in a["staves"]:
        for voice in st["voices"]:
            for mm in voice:
                for e in (mm or []):
                    if e["t"] == "r" and rng.random() < p:
                        e["t"] = "s"
    return a


def cross_staff(asc, opt, rng, p=0.35):
    """MEI only: cross-staff notation.  Some notes of a chord (the first / a middle one / the last / several / all), the
    <chord> itself, single notes, grace notes, rests and measure rests get a @staff of their own: e["xs"] = own @staff per
    note (None: none), e["cs"] = @staff of the chord / rest, opt["mrest_staff"] = {"staff.voice.measure": @staff}"""
    nst = len(asc["staves"])
    other = lambda si: rng.choice([n for n in range(1, max(nst, 2) + 2) if n != si + 1] + [si + 1])
    for si, st in enumerate(asc["staves"]):
        for vi, voice in enumerate(st["voices"]):
            for m, mm in enumerate(voice):
                if mm is None:
                    if rng.random() < p:
                        opt.setdefault("mrest_staff", {})["%d.%d.%d" % (si, vi, m)] = other(si)
                    continue
                for e in mm:
                    if rng.random() > p or e["t"] == "s":
                        continue
                    if e["t"] == "r":
                        e["cs"] = other(si)
                    elif len(e["p"]) == 1:
                        e["xs"] = [other(si)]
                    else:
                        k = len(e["p"])
                        shape = rng.choice(["first", "last", "middle", "some", "all", "chord", "chord+some", "first", "some"])
                        xs = [None] * k
                        if shape == "first":
                            xs[0] = other(si)
                        elif shape == "last":
                            xs[-1] = other(si)
                        elif shape == "middle":
                            xs[rng.randrange(1, k - 1) if k > 2 else 0] = other(si)
                        elif shape in ("some", "chord+some"):
                            for i in rng.sample(range(k), rng.randint(1, k - 1)):
                                xs[i] = other(si)
                        elif shape == "all":
                            xs = [other(si) for _ in range(k)]
                        if shape in ("chord", "chord+some"):
                            e["cs"] = other(si)
                        if any(xs):
                            e["xs"] = xs
    return asc


def xstaff_shapes(asc, opt):
    """which shapes of cross-staff notation a document holds (distribution)"""
    out = set()
    if opt.get("mrest_staff"):
        out.add("mrest")
    for st in asc["staves"]:
        for voice in st["voices"]:
            for mm in voice:
                for e in (mm or []):
                    xs = [x for x in (e.get("xs") or [])][:len(e.get("p", []))]
                    if e["t"] == "r" and e.get("cs"):
                        out.add("rest")
                    elif e["t"] == "g" and any(xs):
                        out.add("grace")
                    elif e["t"] == "n" and len(e["p"]) == 1 and any(xs):
                        out.add("note")
                    elif e["t"] == "n" and len(e["p"]) > 1:
                        if e.get("cs"):
                            out.add("chord")
                        if any(xs):
                            own = [i for i, x in enumerate(xs) if x]
                            plain_after = any(i > own[0] for i in range(len(e["p"])) if i >= len(xs) or not xs[i])
                            out.add("chordnote_then_plain" if plain_after else "chordnote_last_or_all")
    return out


# ---------------------------------------------------------------------------- who carries the finest duration
FINE_KINDS = ("space", "rest", "chord", "note", "space16", "dot_space", "dot_rest", "dot_note", "dot_chord",
              "tuplet", "grace", "unit")


def gen_asc_fine(rng):
    """an abstract score of whole quarters (no divisions finer than 1 per quarter needed) into which ONE group of finer
    values is planted whose finest value is carried only by elements of one kind: <space>, <rest>, <chord>, <note>
    (eighths), a sixteenth <space>, dotted values of each kind, the members of a tuplet, a grace note (no duration
    sounds), or the beat unit of the meter alone (measure rests in 3/8, 5/8, 7/8, 3/16).  Written without declared ppq
    the importer has to infer divisions that represent every one of them.  -> (asc, kind)"""
    kind = rng.choice(FINE_KINDS + ("space", "space", "space16", "dot_space", "rest", "chord"))
    nm = rng.randint(1, 3)
    nst = rng.choice([1, 1, 2])
    clefs = [["G", 2], ["F", 4], ["C", 3]]
    if kind == "unit":
        meter = list(rng.choice([(3, 8), (5, 8), (7, 8), (3, 16), (9, 8)]))
        asc = {"meter": meter, "key": rng.randint(-3, 3), "mode": None, "pickup": None, "meterchg": {}, "keychg": {},
               "staves": [{"clef": rng.choice(clefs), "voices": [[None] * nm for _ in range(rng.choice([1, 2]))]}
                          for _ in range(nst)]}
        return asc, kind
    need = 3 if kind.startswith("dot_") else 2
    meter = list(rng.choice([mt for mt in [(4, 4), (3, 4), (2, 2), (3, 2), (2, 4), (5, 4), (4, 4)] if 4 * mt[0] // mt[1] >= need]))
    L = 4 * meter[0] // meter[1]

    def pitches(k):
        ps = []
        while len(ps) < k:
            q = rand_pitch(rng)
            if all((x[0], x[2]) != (q[0], q[2]) for x in ps):
                ps.append(q)
        return ps

    def mk(what, v, d=0, tup=None):
        e = {"t": {"space": "s", "rest": "r"}.get(what, "n"), "v": v, "d": d, "tup": tup}
        if e["t"] == "n":
            e["p"] = pitches(rng.randint(2, 3) if what == "chord" else 1)
        return e

    def coarse(q):
        out = []
        while q > 0:
            k = rng.choice([x for x in (1, 1, 2, 4) if x <= q])
            out.append(mk(rng.choice(["note", "note", "note", "note", "chord", "rest"]), {1: 4, 2: 2, 4: 1}[k]))
            q -= k
        return out

    asc = {"meter": meter, "key": rng.randint(-7, 7), "mode": rng.choice(["major", "minor", None]), "pickup": None,
           "meterchg": {}, "keychg": {}, "staves": []}
    for _ in range(nst):
        asc["staves"].append({"clef": rng.choice(clefs),
                              "voices": [[coarse(L) for _ in range(nm)] for _ in range(rng.choice([1, 1, 2]))]})
    si = rng.randrange(nst)
    vi = rng.randrange(len(asc["staves"][si]["voices"]))
    m = rng.randrange(nm)
    base = kind.split("_")[-1] if kind != "space16" else "space"
    if kind in ("space", "rest", "chord", "note"):
        w = 2
        pat = [mk(base, 8), mk("note", 4), mk(base, 8)] if rng.random() < 0.7 else [mk(base, 8), mk(base, 8), mk("note", 4)]
    elif kind == "space16":
        w = 1
        pat = [mk("space", 16), mk("note", 8), mk("space", 16)]
    elif kind.startswith("dot_"):
        w = 3 if (L == 3 or rng.random() < 0.4) else 4
        pat = [mk(base, 4, 1), mk(base, 4, 1)] if w == 3 else [mk(base, 4, 1), mk("note", 4), mk(base, 4, 1)]
    elif kind == "tuplet":
        w = 2
        tg = rng.getrandbits(30)
        pat = [mk(rng.choice(["note", "note", "rest", "chord", "space"]), 4, 0, [3, 2, tg]) for _ in range(3)]
        if all(e["t"] == "s" for e in pat):
            pat[1] = mk("note", 4, 0, [3, 2, tg])
    else:   # grace
        w = 1
        pat = [{"t": "g", "v": rng.choice([16, 32, 64]), "d": 0, "tup": None, "p": pitches(1)}, mk("note", 4)]
    a = rng.randint(0, L - w)
    asc["staves"][si]["voices"][vi][m] = coarse(a) + pat + coarse(L - a - w)
    for st in asc["staves"]:
        for voice in st["voices"]:
            for mm in voice:
                assert sum((ev_value(e) for e in mm), F(0)) == L, (kind, mm)
    return asc, kind


def fine_opt(rng, asc, kind):
    """document options for gen_asc_fine: mostly no declared ppq; nothing that would itself carry a fine duration"""
    opt = rand_mei_opt(rng, asc)
    if rng.random() < 0.85:
        opt["ppq"] = None
    opt.update(short=None, space=False, space_nodur=False, ending=None, space_noid=rng.random() < 0.3)
    if kind == "unit":
        opt["silent"] = rng.choice(["mrest", "omit"])
    return opt


def divisions_clause(exp, infos, fails):
    """the divisions chosen represent every duration exactly: every onset and duration the document denotes is a whole
    number of the loaded part's divisions"""
    for pi, (ex, inf) in enumerate(zip(exp, infos)):
        dv = inf["divs"]
        bad = [(n[0], n[1]) for n in ex["notes"] if (n[0] * dv).denominator != 1 or (n[1] * dv).denominator != 1]
        bad += [(a, b - a) for a, b in zip(ex.get("mstarts", []), ex.get("mends", [])) if (a * dv).denominator != 1 or (b * dv).denominator != 1]
        if bad:
            fails.append("divisions: part %d is loaded with %s divisions per quarter, which cannot represent (onset, duration) = %s "
                         "of the document" % (pi, dv, [(str(a), str(b)) for a, b in bad[:3]]))


def staff_clause(exp, infos, fails):
    """each note stands on its own @staff, else on the @staff of its <chord>, else on the enclosing <staff> @n"""
    for pi, (ex, inf) in enumerate(zip(exp, infos)):
        got = [n[:8] for n in inf["notes"]]
        from collections import Counter
        if Counter(n[:7] for n in ex["notes"]) == Counter(n[:7] for n in got) and Counter(ex["notes"]) != Counter(got):
            miss = list((Counter(ex["notes"]) - Counter(got)).elements())
            extra = list((Counter(got) - Counter(ex["notes"])).elements())
            fails.append("staff: part %d: every note is loaded with its onset, duration, pitch and voice, but not on the staff it is "
                         "written on: encoded %s, loaded %s" % (pi, [tuple(map(str, m)) for m in sorted(miss)[:3]],
                                                                 [tuple(map(str, m)) for m in sorted(extra)[:3]]))


def mei_events(text):
    """the open/close event stream of the document text (lxml tokenisation only)"""
    from lxml import etree

    root = etree.fromstring(text.encode("utf-8") if isinstance(text, str) else text,
                            etree.XMLParser(remove_comments=True, resolve_entities=False, recover=True))
    evs = []
    XML = "{http://www.w3.org/XML/1998/namespace}"

    def local(t):
        return t.split("}")[-1]

    for action, el in etree.iterwalk(root, events=("start", "end")):
        if not isinstance(el.tag, str):
            continue
        if action == "start":
            attrs = []
            for k_, v_ in el.attrib.items():
                kk = "xml:" + k_[len(XML):] if k_.startswith(XML) else local(k_)
                attrs.append((kk, v_))
            evs.append(("O", local(el.tag), attrs))
        else:
            evs.append(("C",))
    return evs


def _ws(x):
    try:
        return W.s(x)
    except ValueError:
        return W.s(x.encode("ascii", "replace").decode())


def mei_request(what, evs):
    toks = []
    for e in evs:
        if e[0] == "O":
            toks.append("O %s %d" % (_ws(e[1]), len(e[2])) + "".join(" %s %s" % (_ws(k), _ws(v)) for k, v in e[2]))
        else:
            toks.append("C")
    return "mei %s %d %s" % (what, len(evs), " ".join(toks))


def rand_mei_opt(rng, asc):
    need = 1
    for st in asc["staves"]:
        for voice in st["voices"]:
            for mm in voice:
                for e in (mm or []):
                    need = need * ev_value(e).denominator // __import__("math").gcd(need, ev_value(e).denominator)
    for ln in measure_lengths(asc):
        need = need * ln.denominator // __import__("math").gcd(need, ln.denominator)
    declared = rng.random() < 0.5
    return {"sig_loc": rng.choice(["staffdef_attr", "staffdef_child", "scoredef_attr", "scoredef_child"]),
            "clef_loc": rng.choice(["attr", "child"]), "ppq": need * rng.choice([1, 1, 2, 3]) if declared else None,
            "declare": rng.choice(["ppq", "both", "durppq"]), "nested_grp": rng.random() < 0.3, "beams": rng.random() < 0.6,
            "beam_outside": rng.random() < 0.6, "chord_note_dur": rng.random() < 0.4,
            "accid_mode": rng.choice(["attr", "ges", "child", "mixed"]), "layer_n": rng.random() < 0.8,
            "silent": rng.choice(["mrest", "space", "omit"]), "space": rng.random() < 0.3,
            "meterchg": rng.choice(["attr", "child"]), "grace": rng.choice(["acc", "unacc", "unknown"]),
            "nested_section": rng.random() < 0.2, "sb": rng.random() < 0.3, "right_end": rng.random() < 0.5,
            "labels": rng.random() < 0.5, "stems": rng.random() < 0.3, "first_n": rng.choice([1, 1, 0, 12]),
            "sd_children_first": rng.random() < 0.5, "space_nodur": rng.random() < 0.3,
            "short": [rng.randrange(len(asc["staves"])), rng.randrange(n_measures(asc))] if rng.random() < 0.3 else None,
            "keychg": rng.choice(["attr", "child"]), "multirest": rng.random() < 0.3,
            "ending": _rand_ending(rng, n_measures(asc)) if rng.random() < 0.3 else None,
            **_rand_repeats(rng, n_measures(asc)), **_rand_structure(rng, n_measures(asc))}


def _rand_structure(rng, nm):
    """how the same measures are cut into sections and where the control events stand"""
    o = {}
    if rng.random() < 0.6:
        o["tree"] = rand_tree(rng, nm)
    o["tie_at"] = rng.choice(["end", "start", "start", "mixed", "mixed", "first", "last"])
    o["ctl_before"] = rng.choice([False, False, True, "mixed"])
    o["ctl_seed"] = rng.getrandbits(30)
    o["slurs"] = rng.choice([0, 0, 1, 3])
    o["ctl_shuffle"] = rng.random() < 0.3
    o["sd_at"] = rng.choice(["next", "next", "prev", "between"])
    return o


def _rand_repeats(rng, nm):
    """well-formed repeats: start at the left of measure a, end at the right of measure b >= a, one after the other"""
    starts, ends, m = [], [], 0
    while m < nm:
        if rng.random() < 0.25:
            b = rng.randrange(m, nm)
            starts.append(m)
            ends.append(b)
            m = b + 1
        else:
            m += 1
    return {"rptstart": starts, "rptend": ends}


def _rand_ending(rng, nm):
    """(a, b): measures a..b-1 are the first ending, b.. the second (to the end of the piece)"""
    if nm < 2:
        return None
    a = rng.randrange(0, nm - 1)
    return [a, rng.randrange(a + 1, nm)]


# ============================================================================ implementation side
def _fr(x):
    return W.as_fraction(x)


def _kind(n, S):
    if isinstance(n, S.Rest):
        return "r"
    if isinstance(n, S.GraceNote):
        return "g"
    return "n"


STEPIDX = {"": 0, "C": 1, "D": 2, "E": 3, "F": 4, "G": 5, "A": 6, "B": 7}
KINDIDX = {"n": 0, "g": 1, "r": 2}


def extract_parts(score):
    """per part: exact observations in quarters"""
    import partitura.score as S

    out = []
    for p in score.parts:
        qd = p._quarter_durations
        divs = _fr(qd[0])
        info = {"divs": divs, "divs_raw": qd[0], "multi_qd": len(qd) > 1, "nonint": []}

        def q(t):
            ft = _fr(t)
            if ft.denominator != 1:
                info["nonint"].append(t)
            return ft / divs

        notes, joined = [], []
        for n in p.iter_all(S.GenericNote, include_subclasses=True):
            k = _kind(n, S)
            on, du = q(n.start.t), q(n.end.t) - q(n.start.t)
            if k == "r":
                notes.append((on, du, "r", "", 0, 0, n.voice, n.staff, False, False))
            else:
                notes.append((on, du, k, n.step.upper(), n.alter or 0, n.octave, n.voice, n.staff,
                              n.tie_prev is not None, n.tie_next is not None))
                if k == "n" and n.tie_prev is None:
                    tot, cur, guard = du, n, 0
                    while cur.tie_next is not None and guard < 10000:
                        cur = cur.tie_next
                        tot += q(cur.end.t) - q(cur.start.t)
                        guard += 1
                    joined.append((on, tot, n.step.upper(), n.alter or 0, n.octave, n.voice, n.staff))
        notes.sort(key=lambda x: (x[0], x[6] or 0, x[7] or 0, KINDIDX[x[2]], x[5], STEPIDX.get(x[3], 99), x[4], x[1]))
        joined.sort(key=lambda x: (x[0], x[5] or 0, x[6] or 0, x[4], STEPIDX.get(x[2], 99), x[3], x[1]))
        info["notes"], info["joined"] = notes, joined
        info["measures"] = [(m.number, m.name, q(m.start.t), q(m.end.t) if m.end is not None else None)
                            for m in p.iter_all(S.Measure)]
        info["ts"] = [(q(o.start.t), o.beats, o.beat_type) for o in p.iter_all(S.TimeSignature)]
        info["ks"] = [(q(o.start.t), o.fifths, o.mode) for o in p.iter_all(S.KeySignature)]
        info["clefs"] = sorted((q(o.start.t), o.staff, o.sign, o.line, o.octave_change or 0) for o in p.iter_all(S.Clef))
        out.append(info)
    return out


def f_note(n):
    return W.f_tuple(W.f_rat(n[0]), W.f_rat(n[1]), n[2], n[3] or "R", W.f_int(n[4]), W.f_int(n[5]),
                     W.f_int(n[6] or 0), W.f_int(n[7] or 0), W.f_bool(n[8]), W.f_bool(n[9]))


def f_joined(j):
    return W.f_tuple(W.f_rat(j[0]), W.f_rat(j[1]), j[2], W.f_int(j[3]), W.f_int(j[4]), W.f_int(j[5] or 0), W.f_int(j[6] or 0))


def f_optrat(x):
    return "-" if x is None else W.f_rat(x)


def impl_texts(infos, fmt):
    """canonical answers the driver must give: notes, joined, meas, sigs"""
    notes = W.f_list(lambda i: W.f_list(f_note, i["notes"]), infos)
    joined = W.f_list(lambda i: W.f_list(f_joined, i["joined"]), infos)
    if fmt == "kern":
        meas = W.f_list(lambda i: W.f_list(lambda m: W.f_tuple(W.f_int(m[0]), W.f_opt(W.f_int, m[1]), W.f_rat(m[2]), f_optrat(m[3])),
                                           i["measures"]), infos)
        sigs = W.f_list(lambda i: W.f_tuple(
            W.f_list(lambda t: W.f_tuple(W.f_rat(t[0]), W.f_int(t[1]), W.f_int(t[2])), i["ts"]),
            W.f_list(lambda k: W.f_tuple(W.f_rat(k[0]), W.f_int(k[1])), i["ks"]),
            W.f_list(lambda c: W.f_tuple(W.f_rat(c[0]), W.f_int(c[1]), c[2], W.f_int(c[3]), W.f_int(c[4])), i["clefs"])), infos)
    else:
        meas = W.f_list(lambda i: W.f_list(lambda m: W.f_tuple(W.f_int(m[0]), W.f_opt(str, m[1]), W.f_rat(m[2]), f_optrat(m[3])),
                                           i["measures"]), infos)
        sigs = W.f_list(lambda i: W.f_tuple(
            W.f_list(lambda t: W.f_tuple(W.f_rat(t[0]), W.f_int(t[1]), W.f_int(t[2])), i["ts"]),
            W.f_list(lambda k: W.f_tuple(W.f_rat(k[0]), W.f_int(k[1]), W.f_opt(str, k[2])), i["ks"]),
            W.f_list(lambda c: W.f_tuple(W.f_rat(c[0]), W.f_int(c[1]), c[2], W.f_int(c[3]), W.f_int(c[4])), i["clefs"])), infos)
    return {"notes": notes, "joined": joined, "meas": meas, "sigs": sigs}


def kern_request(what, text):
    rows = [ln.split("\t") for ln in text.split("\n") if ln != ""]
    return "kern %s %d %s" % (what, len(rows), " ".join("%d %s" % (len(r), " ".join(W.s(c) for c in r)) for r in rows))


def pbv_observe(text):
    """sub-spine bookkeeping of the real importer: the real `_handle_kern_with_spine_splitting` is run on the document with
    `parse_by_voice` wrapped by a recorder; per call (= per spine of the header), per line: how many cells it took.
    None when the two functions do not exist under these names (nothing is compared then)."""
    import partitura.io.importkern as ik

    real = getattr(ik, "parse_by_voice", None)
    outer = getattr(ik, "_handle_kern_with_spine_splitting", None)
    if real is None or outer is None:
        return None
    calls = []

    def rec(file, *a, **kw):
        res = real(file, *a, **kw)
        try:
            calls.append((len(file), [(int(l), int(v)) for l, v in res[1]]))
        except Exception:  # another return shape: nothing to observe (not a failure of the importer)
            calls.append(None)
        return res

    d = tempfile.mkdtemp(prefix="c19-")
    path = os.path.join(d, "doc.krn")
    try:
        with open(path, "w", encoding="utf-8") as f:
            f.write(text)
        ik.parse_by_voice = rec
        try:
            import warnings
            with warnings.catch_warnings():
                warnings.simplefilter("ignore")
                outer(path)
        except Exception:
            return "err"
        finally:
            ik.parse_by_voice = real
    finally:
        try:
            os.remove(path)
            os.rmdir(d)
        except OSError:
            pass
    if any(c is None for c in calls):
        return None
    out = []
    for n, vi in calls:
        cnt = [0] * n
        for l, _v in vi:
            cnt[l] += 1
        out.append(cnt)
    return out


def pbv_stream(ev, text):
    """`kpbv code`: Model/KernPbv.lean (parse_by_voice as written) = the real calls; `kpbv sem`: the columns the semantics
    gives every spine in front of every row = the same numbers (generated documents have no `*-` before the last row)"""
    got = pbv_observe(text)
    if got is None:
        return
    tx = "err" if got == "err" else W.f_list(lambda tr: W.f_list(W.f_int, tr), got)
    for what in ("code", "sem"):
        ev.requests.append(kern_request(what, text).replace("kern ", "kpbv ", 1))
        ev.impl.append(tx)


def load_text(text, suffix, loader=None, **kw):
    """write the document to a temporary file and load it with the real importer"""
    import partitura

    d = tempfile.mkdtemp(prefix="c19-")
    path = os.path.join(d, "doc" + suffix)
    try:
        with open(path, "w", encoding="utf-8") as f:
            f.write(text)
        if loader == "kern":
            from partitura.io.importkern import load_kern
            return load_kern(path, **kw)
        if loader == "mei":
            from partitura.io.importmei import load_mei
            return load_mei(path)
        return partitura.load_score(path)
    finally:
        try:
            os.remove(path)
            os.rmdir(d)
        except OSError:
            pass


def multiset_diff(expected, got, label, fails, limit=3):
    from collections import Counter

    ce, cg = Counter(expected), Counter(got)
    missing = list((ce - cg).elements())
    extra = list((cg - ce).elements())
    if missing or extra:
        fails.append("%s: missing %s%s; unexpected %s%s" % (
            label, [tuple(map(str, m)) for m in missing[:limit]], "..." if len(missing) > limit else "",
            [tuple(map(str, m)) for m in extra[:limit]], "..." if len(extra) > limit else ""))


def oracle_compare(exp_parts, infos, fails, check_sigs=True, mname=None):
    if len(exp_parts) != len(infos):
        fails.append("parts: the document encodes %d part(s), %d loaded" % (len(exp_parts), len(infos)))
        return
    for pi, (ex, inf) in enumerate(zip(exp_parts, infos)):
        tag = "part %d " % pi
        if inf["nonint"] or inf["divs"].denominator != 1 or inf["multi_qd"]:
            fails.append("divisions: %sdivs=%r leaves non-integer times %r" % (tag, inf["divs_raw"], inf["nonint"][:3]))
        got = [n[:8] for n in inf["notes"]]
        multiset_diff(ex["notes"], got, "notes: " + tag + "(onset,dur,kind,step,alter,oct,voice,staff)", fails)
        if not fails:
            multiset_diff(ex["joined"], inf["joined"], "ties: " + tag + "sounding notes (onset,dur,step,alter,oct,voice,staff)", fails)
        if "mends" in ex:
            gm = sorted((m[2], m[3]) for m in inf["measures"])
            em = sorted(zip(ex["mstarts"], ex["mends"]))
            if gm != em:
                fails.append("measures: %sspan %s, encoded %s" % (tag, [(str(a), str(b)) for a, b in gm], [(str(a), str(b)) for a, b in em]))
        if check_sigs:
            if [tuple(t) for t in inf["ts"]] != [tuple(t) for t in ex["ts"]]:
                fails.append("meter: %sloaded %s, declared %s" % (tag, [tuple(map(str, t)) for t in inf["ts"]], [tuple(map(str, t)) for t in ex["ts"]]))
            if [(k[0], k[1]) for k in inf["ks"]] != [(k[0], k[1]) for k in ex["ks"]]:
                fails.append("key: %sloaded %s, declared %s" % (tag, [(str(k[0]), k[1]) for k in inf["ks"]], [(str(k[0]), k[1]) for k in ex["ks"]]))
            if [c[:4] for c in inf["clefs"]] != [tuple(c) for c in ex["clefs"]]:
                fails.append("clef: %sloaded %s, declared %s" % (tag, [tuple(map(str, c[:4])) for c in inf["clefs"]], [tuple(map(str, c)) for c in ex["clefs"]]))




# ============================================================================ the writers as the model sees them
def _xnote(n, S):
    sd = n.symbolic_duration or {}
    kind = 2 if isinstance(n, S.Rest) else (1 if isinstance(n, S.GraceNote) else 0)
    sym = "-"
    if "type" in sd:
        tup = "-"
        if "actual_notes" in sd and "normal_notes" in sd:
            tup = "%d %d" % (sd["actual_notes"], sd["normal_notes"])
        sym = "%s %d %s" % (W.s(sd["type"]), sd.get("dots", 0) or 0, tup)
    if kind == 2:
        step, alter, octv = "R", "-", 0
    else:
        step, alter, octv = n.step, ("-" if n.alter is None else "%d" % n.alter), n.octave
    return "%d %d %d %s %s %s %d %d %d %d" % (
        kind, n.voice or 0, n.staff or 0, sym, W.s(step), alter, octv,
        1 if getattr(n, "tie_next", None) is not None else 0, 1 if getattr(n, "tie_prev", None) is not None else 0,
        n.end.t - n.start.t)


def xpart_tokens(part):
    """the part as KernExporter iterates over it: time points, objects starting at each in iter_all order"""
    import partitura.score as S

    pts = []
    for tp in part._points:
        els = []
        for el in part.iter_all(start=tp.t, end=tp.t + 1):
            if isinstance(el, S.GenericNote):
                els.append("N " + _xnote(el, S))
            elif isinstance(el, S.Clef):
                els.append("C %d %s %d" % (el.staff, W.s(el.sign), el.line))
            elif isinstance(el, S.Measure):
                els.append("M %d" % el.number)
            elif isinstance(el, S.TimeSignature):
                els.append("T %d %d" % (el.beats, el.beat_type))
            elif isinstance(el, S.KeySignature):
                els.append("K %d" % el.fifths)
            else:
                els.append("O")
        pts.append("%d %d %s" % (tp.t, len(els), " ".join(els)))
    return "%d %d %s" % (int(part._quarter_durations[0]), len(pts), " ".join(pts))


def py_symvalue(sd):
    """quarters of a symbolic duration (independent of the model)"""
    base = {"maxima": F(32), "long": F(16), "breve": F(8), "whole": F(4), "half": F(2), "quarter": F(1), "eighth": F(1, 2),
            "16th": F(1, 4), "32nd": F(1, 8), "64th": F(1, 16), "128th": F(1, 32), "256th": F(1, 64)}.get(sd.get("type"))
    if base is None:
        return None
    v = base * (2 - F(1, 2 ** (sd.get("dots", 0) or 0)))
    if "actual_notes" in sd and "normal_notes" in sd:
        if not sd["actual_notes"] or not sd["normal_notes"]:
            return None
        v = v * sd["normal_notes"] / sd["actual_notes"]
    return v


def py_kern_exportable(part):
    """the Exportable predicate of Model/KernWrite.lean, restated in plain Python on the real objects"""
    import partitura.score as S

    divs = int(part._quarter_durations[0])
    if divs <= 0:
        return False
    allnotes = list(part.iter_all(S.GenericNote, include_subclasses=True))
    if not allnotes:
        return False
    nexts = {(n.voice or 0, n.staff or 0): 0 for n in allnotes}
    for tp in part._points:
        els = list(part.iter_all(start=tp.t, end=tp.t + 1))
        notes = [e for e in els if isinstance(e, S.GenericNote)]
        for e in els:
            if isinstance(e, S.Clef) and (e.sign or "").upper() not in ("G", "F", "C"):
                return False
        for n in notes:
            if not isinstance(n, S.Rest):
                if n.step not in tuple("CDEFGAB") or n.alter not in (None, 0, 1, -1, 2, -2):
                    return False
            if not isinstance(n, S.GraceNote):
                v = py_symvalue(n.symbolic_duration or {})
                if v is None or v != F(n.end.t - n.start.t, divs):
                    return False
            if nexts[(n.voice or 0, n.staff or 0)] != tp.t:
                return False
        first = {}
        for n in notes:
            c = (n.voice or 0, n.staff or 0)
            if not isinstance(n, S.GraceNote):
                if c not in first:
                    first[c] = n.end.t - n.start.t
                    nexts[c] = tp.t + first[c]
                elif first[c] != n.end.t - n.start.t:
                    return False        # a chord of unequal lengths
    return True


def f_fact(x):
    return W.f_tuple(W.f_rat(x[0]), W.f_rat(x[1]), x[2], x[3], W.f_int(x[4]), W.f_int(x[5]), W.f_int(x[6]))


def part_facts(part):
    """(onset, dur, kind, step, alter, oct, staff) of every Note of the part, in time-point / iteration order"""
    import partitura.score as S

    divs = _fr(part._quarter_durations[0])
    res = []
    for tp in part._points:
        for n in part.iter_all(start=tp.t, end=tp.t + 1):
            if isinstance(n, S.Note):
                g = isinstance(n, S.GraceNote)
                res.append((_fr(n.start.t) / divs, F(0) if g else (_fr(n.end.t) - _fr(n.start.t)) / divs,
                            "g" if g else "n", n.step.upper(), n.alter or 0, n.octave, n.staff))
    return res



def mpart_tokens(part):
    """the part as MEIExporter reads it (see Model/MeiWrite.lean); None when the part uses something the model leaves out"""
    import partitura.score as S
    from partitura.utils import fifths_mode_to_key_name

    def ks_tok(k, first_letter):
        pn = fifths_mode_to_key_name(k.fifths, k.mode).lower()
        return "%d %d %s %s" % (k.start.t, k.fifths, "-" if k.mode is None else W.s(k.mode), W.s(pn[0] if first_letter else pn))

    for n in part.iter_all(S.GenericNote, include_subclasses=True):
        sd = n.symbolic_duration or {}
        if n.id is None or ("dots" in sd and not sd["dots"]) or n.staff is None or n.voice is None:
            return None
    clefs = ["%d %s %d" % (c.staff, W.s(c.sign), c.line) for c in part.iter_all(S.Clef, start=0, end=1)]
    keys0 = list(part.iter_all(S.KeySignature, start=0, end=1))
    ts0 = list(part.iter_all(S.TimeSignature, start=0, end=1))
    ms = []
    for m in part.measures:
        a, b = m.start.t, m.end.t
        notes = ["%s %d %s" % (W.s(n.id), n.start.t, _xnote(n, S))
                 for n in part.iter_all(S.GenericNote, start=a, end=b, include_subclasses=True)]
        tups = []
        for t in part.iter_all(S.Tuplet, start=a, end=b):
            sn, en = t.start_note, t.end_note
            sd = sn.symbolic_duration or {}
            ratio = "%d %d" % (sd["actual_notes"], sd["normal_notes"]) if "actual_notes" in sd and "normal_notes" in sd else "-"
            tups.append("%s %s %d %d %d %d %s" % (W.s(sn.id), W.s(en.id), sn.start.t, en.start.t, en.end.t,
                                                   1 if (sn.voice == en.voice and sn.staff == en.staff) else 0, ratio))
        keys = [ks_tok(k, False) for k in part.iter_all(S.KeySignature, start=a, end=b)]
        meters = ["%d %d %d" % (t.start.t, t.beats, t.beat_type) for t in part.iter_all(S.TimeSignature, start=a, end=b)]
        ms.append("%d %d %d %d %s %d %s %d %s %d %s" % (m.number, a, b, len(notes), " ".join(notes), len(tups), " ".join(tups),
                                                         len(keys), " ".join(keys), len(meters), " ".join(meters)))
    toks = [W.s(part.id if part.id is not None else "Untitled"), "%d" % int(part._quarter_durations[0]), "%d" % part.number_of_staves,
            "%d" % len(clefs)] + clefs + [ks_tok(keys0[0], True) if keys0 else "-",
            "%d %d" % (ts0[0].beats, ts0[0].beat_type) if ts0 else "-", "%d" % len(ms)] + ms
    return " ".join(t for t in toks if t != "")


MEI_TYPE_NUM = {"long": F(1, 4), "breve": F(1, 2), "whole": F(1), "half": F(2), "quarter": F(4), "eighth": F(8), "16th": F(16),
                "32nd": F(32), "64th": F(64), "128th": F(128), "256th": F(256), "h": F(2), "e": F(8), "q": F(4)}


def py_mei_exportable(part):
    """the Exportable predicate of Model/MeiWrite.lean, restated in plain Python on the real objects"""
    import partitura.score as S
    from collections import Counter as _C

    divs = int(part._quarter_durations[0])
    nst = part.number_of_staves
    if divs <= 0 or nst <= 0 or not list(part.iter_all(S.TimeSignature, start=0, end=1)):
        return False
    t = 0
    for m in part.measures:
        if m.start.t != t:
            return False
        t = m.end.t
    for m in part.measures:
        a, b = m.start.t, m.end.t
        notes = list(part.iter_all(S.GenericNote, start=a, end=b, include_subclasses=True))
        if not notes:
            return False
        for n in notes:
            if not (1 <= (n.staff or 0) <= nst):
                return False
        ends = []
        staffs_used = sorted(set(n.staff for n in notes))
        for s_ in range(1, nst + 1):
            if s_ not in staffs_used:
                continue
            for v in sorted(set(n.voice for n in notes if n.staff == s_)):
                vn = [n for n in notes if n.voice == v]
                cnt = _C(n.staff for n in vn)
                maj = min(st for st in cnt if cnt[st] == max(cnt.values()))
                if maj != s_:
                    ends.append(a)
                    continue
                # the items of the layer
                items = []
                for on in sorted(set(n.start.t for n in vn)):
                    grp = [n for n in vn if n.start.t == on]
                    items += [[g] for g in grp if isinstance(g, S.GraceNote)]
                    plain = [g for g in grp if not isinstance(g, S.GraceNote)]
                    if plain:
                        items.append(plain)
                ctx = [None] * len(items)
                for tp in part.iter_all(S.Tuplet, start=a, end=b):
                    sn, en = tp.start_note, tp.end_note
                    if sn.start.t < a or en.end.t > b or sn.start.t > en.start.t or sn.voice != en.voice or sn.staff != en.staff:
                        continue
                    if sn.voice != v:
                        continue
                    i = next((k for k, it in enumerate(items) if any(x is sn for x in it)), None)
                    j = next((k for k, it in enumerate(items) if any(x is en for x in it)), None)
                    sd = sn.symbolic_duration or {}
                    if i is None or j is None or i > j or "actual_notes" not in sd or "normal_notes" not in sd:
                        return False
                    if any(ctx[k] is not None for k in range(i, j + 1)) or not sd["actual_notes"]:
                        return False
                    for k in range(i, j + 1):
                        ctx[k] = (sd["actual_notes"], sd["normal_notes"])
                cur = a
                for it, cx in zip(items, ctx):
                    for n in it:
                        sd = n.symbolic_duration or {}
                        num = MEI_TYPE_NUM.get(sd.get("type"))
                        if num is None or n.start.t != cur:
                            return False
                        val = F(4) / num * (2 - F(1, 2 ** (sd.get("dots", 0) or 0)))
                        if cx:
                            val = val * cx[1] / cx[0]
                        if not isinstance(n, S.GraceNote) and val != F(n.end.t - n.start.t, divs):
                            return False
                        if not isinstance(n, S.Rest):
                            if n.step not in tuple("CDEFGAB") or n.octave < 0 or n.alter not in (None, 0, 1, -1, 2, -2):
                                return False
                    if len(it) > 1:
                        if any(isinstance(n, (S.Rest, S.GraceNote)) or (n.end.t - n.start.t) != (it[-1].end.t - it[-1].start.t) for n in it):
                            return False
                    if not isinstance(it[0], S.GraceNote):
                        cur += it[-1].end.t - it[-1].start.t
                ends.append(cur)
        if any(e > b for e in ends) or b not in ends:
            return False
    return True



def f_ev(e, keep_ids=("note", "rest")):
    if e[0] == "C":
        return "C"
    attrs = [(k, v) for (k, v) in e[2] if k != "xml:id" or e[1] in keep_ids]
    return W.f_tuple("O", W.s(e[1]), W.f_list(lambda kv: W.f_tuple(W.s(kv[0]), W.s(kv[1])), attrs))


# ============================================================================ exporter round trips
TYPE_OF_V = {-1: "long", 0: "breve", 1: "whole", 2: "half", 4: "quarter", 8: "eighth", 16: "16th", 32: "32nd",
             64: "64th", 128: "128th", 256: "256th"}


def asc_divs(asc):
    from math import gcd

    need = 1
    for st in asc["staves"]:
        for voice in st["voices"]:
            for mm in voice:
                for e in (mm or []):
                    dn = ev_value(e).denominator
                    need = need * dn // gcd(need, dn)
    for ln in measure_lengths(asc):
        need = need * ln.denominator // gcd(need, ln.denominator)
    return need


def build_part(asc, with_tuplets=True, with_rests=True, xopt=None):
    """an exportable partitura Part (public API only): every event has its symbolic duration, tuplets are
    Tuplet objects, silent measures of a voice are filled with rests; returns (part, [note facts])"""
    import partitura.score as S

    xopt = xopt or {}
    xr = random.Random(xopt.get("seed", 0))
    divs = asc_divs(asc) * xopt.get("divmul", 1)
    part = S.Part("P1", "generated", quarter_duration=divs)
    lens = measure_lengths(asc)
    nm = n_measures(asc)
    part.add(S.TimeSignature(asc["meter"][0], asc["meter"][1]), 0)
    part.add(S.KeySignature(asc["key"], asc.get("mode") or "major"), 0)
    t = F(0)
    for m in range(nm):
        if m > 0 and str(m) in asc.get("meterchg", {}):
            part.add(S.TimeSignature(*asc["meterchg"][str(m)]), int(t * divs))
        if m > 0 and str(m) in xopt.get("keychg", {}):
            part.add(S.KeySignature(xopt["keychg"][str(m)], "major"), int(t * divs))
        part.add(S.Measure(number=m + 1 + xopt.get("first_number", 0)), int(t * divs), int((t + lens[m]) * divs))
        t += lens[m]
    pending_adds, pending_tuplets = [], []

    def add_note(o, start, end):
        pending_adds.append((o, start, end))

    def add_tuplet(a, b, num, base):
        pending_tuplets.append((a, b, num, base))
    facts = []
    nid = 0
    voice_no = 0
    for si, st in enumerate(asc["staves"]):
        part.add(S.Clef(si + 1, st["clef"][0], st["clef"][1], 0), 0)
        for vi, voice in enumerate(st["voices"]):
            voice_no += 1
            t0 = F(0)
            prev = []      # notes waiting for their tie continuation [(pitch tuple, Note)]
            for m, mm in enumerate(voice):
                pos = t0
                evs = mm
                if evs is None:
                    fill = (with_rests or vi == 0) and not (xopt.get("silent_staff") == si and len(asc["staves"]) > 1)
                    evs = [{"t": "r", "v": v, "d": d, "tup": None} for (v, d) in rest_fill(lens[m])] if fill else []
                    prev = []
                tup_open = None   # (tg, first object, last object, tup)
                for e in evs:
                    val = ev_value(e)
                    sd = {"type": TYPE_OF_V[e["v"]]}
                    if e.get("d"):
                        sd["dots"] = e["d"]
                    if e.get("tup"):
                        sd["actual_notes"], sd["normal_notes"] = e["tup"][0], e["tup"][1]
                    start, end = int(pos * divs), int((pos + val) * divs)
                    objs = []
                    if e["t"] in ("r", "s"):
                        nid += 1
                        o = S.Rest(id="r%d" % nid, voice=voice_no, staff=si + 1, symbolic_duration=sd)
                        add_note(o, start, end)
                        objs.append(o)
                    else:
                        new_prev = []
                        for p in e["p"]:
                            nid += 1
                            if e["t"] == "g":
                                o = S.GraceNote(xr.choice(xopt.get("grace_types", ["grace"])), p[0], p[2], p[1] if p[1] else None, id="n%d" % nid, voice=voice_no,
                                                staff=si + 1, symbolic_duration=sd)
                            else:
                                o = S.Note(p[0], p[2], p[1] if p[1] else None, id="n%d" % nid, voice=voice_no, staff=si + 1,
                                           symbolic_duration=sd)
                            add_note(o, start, end)
                            objs.append(o)
                            facts.append((pos, val, e["t"], p[0], p[1], p[2], si + 1))
                            if e["t"] == "n":
                                for (pp, po) in prev:
                                    if pp == tuple(p):
                                        po.tie_next = o
                                        o.tie_prev = po
                                if e.get("tie"):
                                    new_prev.append((tuple(p), o))
                        if e["t"] == "n":
                            prev = new_prev
                    if e["t"] != "g":
                        if e.get("tup") and with_tuplets:
                            if tup_open and tup_open[0] == e["tup"][2]:
                                tup_open[2] = objs[0]
                            else:
                                if tup_open:
                                    add_tuplet(tup_open[1], tup_open[2], tup_open[3][0], tup_open[3][1])
                                tup_open = [e["tup"][2], objs[0], objs[0], e["tup"]]
                        elif tup_open:
                            add_tuplet(tup_open[1], tup_open[2], tup_open[3][0], tup_open[3][1])
                            tup_open = None
                    pos += val
                if tup_open:
                    add_tuplet(tup_open[1], tup_open[2], tup_open[3][0], tup_open[3][1])
                t0 += lens[m]
    # the order in which the notes enter the part decides the order in which the writers meet the notes of one
    # time point: voice by voice (default), or any order
    if xopt.get("wrongdur") is not None:
        # NOT exportable on purpose: one note or rest whose symbolic duration is not worth its length
        # (not a chord note: a chord of unequal written lengths is outside the supported kern subset)
        from collections import Counter as _C
        sizes = _C((o.voice, a) for (o, a, b) in pending_adds if not isinstance(o, S.GraceNote))
        cand = [o for (o, a, b) in pending_adds if not isinstance(o, S.GraceNote) and sizes[(o.voice, a)] == 1]
        if cand:
            o = cand[xopt["wrongdur"] % len(cand)]
            sd = dict(o.symbolic_duration)
            sd["type"] = "half" if sd.get("type") == "whole" else "whole"
            o.symbolic_duration = sd
    if xopt.get("shuffle"):
        xr.shuffle(pending_adds)
    if xopt.get("order"):
        pending_adds = [pending_adds[i] for i in xopt["order"]]
    for (o, start, end) in pending_adds:
        part.add(o, start, end)
    for (a, b, num, base) in pending_tuplets:
        part.add(S.Tuplet(a, b, num, base), a.start.t, b.start.t)
    return part, facts


def loaded_note_facts(score):
    import partitura.score as S

    res = []
    for p in score.parts:
        divs = _fr(p._quarter_durations[0])
        for n in p.iter_all(S.Note, include_subclasses=True):
            res.append((_fr(n.start.t) / divs, (_fr(n.end.t) - _fr(n.start.t)) / divs,
                        "g" if isinstance(n, S.GraceNote) else "n", n.step.upper(), n.alter or 0, n.octave, n.staff))
    return res


def eval_export(d):
    import partitura

    asc = d["asc"]
    fmt = d["k"][1:]
    ev = Eval()
    part, facts = build_part(asc, with_rests=d.get("rests", True), xopt=d.get("xopt"))
    tmp = tempfile.mkdtemp(prefix="c19x-")
    path = os.path.join(tmp, "out." + ("krn" if fmt == "kern" else "mei"))
    try:
        try:
            if fmt == "kern":
                from partitura.io.exportkern import save_kern
                save_kern(part, path)
            else:
                from partitura.io.exportmei import save_mei
                save_mei(part, path)
        except Exception as e:
            ev.oracle.append("export: save_%s raised %s: %s" % (fmt, type(e).__name__, str(e)[:200]))
            return ev
        text = open(path, encoding="utf-8", errors="replace").read()
        ev.info["text"] = text
        try:
            score = partitura.load_score(path)
            infos = extract_parts(score)
        except Exception as e:
            ev.oracle.append("reload: load_score raised %s on the exported file: %s" % (type(e).__name__, str(e)[:200]))
            return ev
        got = loaded_note_facts(score)
        from collections import Counter

        missing = list((Counter(facts) - Counter(got)).elements())
        if missing and not d.get("nonexp"):
            extra = list((Counter(got) - Counter(facts)).elements())
            ev.oracle.append("roundtrip: %d of %d notes not found again (onset,dur,kind,step,alter,oct,staff), e.g. %s; instead %s" % (
                len(missing), len(facts), [tuple(map(str, m)) for m in sorted(missing)[:3]], [tuple(map(str, m)) for m in sorted(extra)[:3]]))
        ev.key = "x%s:%s" % (fmt, text) if facts else None
        # ---- the writer model: same rows, the part is Exportable, the document denotes what the loader loads
        if fmt == "kern":
            xt = xpart_tokens(part)       # after save_kern: measures added, rests filled
            rows = [ln.split("\t") for ln in text.split("\n") if ln != "" and not ln.startswith("!!!")]
            pf = part_facts(part)
            pool = list(got)
            miss = []
            for f in pf:
                if f in pool:
                    pool.remove(f)
                else:
                    miss.append(f)
            ev.requests += ["wkern rows " + xt, "wkern exportable " + xt, "wkern facts " + xt, "wkern missing " + xt]
            ev.impl += [W.f_list(lambda r: W.f_list(W.s, r), rows), "1" if py_kern_exportable(part) else "0",
                        W.f_list(f_fact, pf), W.f_list(f_fact, miss)]
            if not py_kern_exportable(part) and not d.get("nonexp"):
                ev.oracle.append("generator: the part built for the kern writer is not exportable (harness error)")
            tx = impl_texts(infos, "kern")
            for what in ("notes", "joined", "meas", "sigs"):
                ev.requests.append(kern_request(what, text))
                ev.impl.append(tx[what])
        else:
            mt = mpart_tokens(part)
            evs = mei_events(open(path, "rb").read())
            if mt is not None:
                pf = part_facts(part)
                pool = list(got)
                miss = []
                for f in pf:
                    if f in pool:
                        pool.remove(f)
                    else:
                        miss.append(f)
                exp_ok = py_mei_exportable(part)
                ev.requests += ["wmei evs " + mt, "wmei exportable " + mt, "wmei facts " + mt, "wmei missing " + mt]
                ev.impl += [W.f_list(f_ev, evs), "1" if exp_ok else "0", W.f_list(f_fact, pf), W.f_list(f_fact, miss)]
                if not exp_ok and not d.get("nonexp"):
                    ev.oracle.append("generator: the part built for the MEI writer is not exportable (harness error)")
            tx = impl_texts(infos, "mei")
            tx["ppq"] = W.f_list(lambda i: W.f_rat(i["divs"]), infos)
            for what in ("notes", "joined", "meas", "sigs", "ppq"):
                ev.requests.append(mei_request(what, evs))
                ev.impl.append(tx[what])
    finally:
        try:
            if os.path.exists(path):
                os.remove(path)
            os.rmdir(tmp)
        except OSError:
            pass
    return ev



# ============================================================================ fixtures, dispatch
FIXTURE_SKIP = {
    "voice_duplication.krn": "header row malformed (two spaces instead of a tab between the first two **kern): load only",
    "Bach_Hilf_Herr_Jesu.mei": "elements without xml:id (needs verovio, which is not installed): not loadable",
    "mensural.mei": "mensural notation, elements without xml:id (needs verovio): not loadable",
}


def fixture_paths():
    res = []
    for sub, ext in (("kern", ".krn"), ("mei", ".mei")):
        dd = os.path.join(REPO, "tests", "data", sub)
        if os.path.isdir(dd):
            for fn in sorted(os.listdir(dd)):
                if fn.endswith(ext):
                    res.append((sub, os.path.join("tests", "data", sub, fn)))
    for sub, fn in (("kern", "score_example.krn"), ("mei", "score_example.mei")):
        pth = os.path.join("partitura", "assets", fn)
        if os.path.exists(os.path.join(REPO, pth)):
            res.append((sub, pth))
    return res


def eval_fixture(d):
    import partitura

    ev = Eval()
    path = os.path.join(REPO, d["path"])
    name = os.path.basename(path)
    skip = FIXTURE_SKIP.get(name)
    if skip and "not loadable" in skip:
        return ev
    try:
        score = partitura.load_score(path)
        infos = extract_parts(score)
    except Exception as e:
        ev.oracle.append("fixture: %s does not load: %s: %s" % (name, type(e).__name__, str(e)[:200]))
        return ev
    for pi, inf in enumerate(infos):
        if inf["nonint"] or inf["divs"].denominator != 1:
            ev.oracle.append("divisions: fixture %s part %d: divs=%r leaves non-integer times %r" % (name, pi, inf["divs_raw"], inf["nonint"][:3]))
    ev.key = "fixture:" + name
    if skip:
        return ev
    if d["fmt"] == "kern":
        text = open(path, encoding="cp437").read().replace("\r", "")
        tx = impl_texts(infos, "kern")
        for what in ("notes", "joined", "meas", "sigs"):
            ev.requests.append(kern_request(what, text))
            ev.impl.append(tx[what])
    else:
        evs = mei_events(open(path, "rb").read())
        tx = impl_texts(infos, "mei")
        tx["ppq"] = W.f_list(lambda i: W.f_rat(i["divs"]), infos)
        for what in ("notes", "joined", "meas", "sigs", "ppq"):
            ev.requests.append(mei_request(what, evs))
            ev.impl.append(tx[what])
    return ev


TINY_KERN = "**kern\n*M4/4\n=1\n4c\n4d\n2e\n==\n*-\n"
TINY_MEI = ('<?xml version="1.0" encoding="UTF-8"?>\n<mei xmlns="http://www.music-encoding.org/ns/mei"><music><body><mdiv><score>'
            '<scoreDef meter.count="4" meter.unit="4"><staffGrp xml:id="g" symbol="none"><staffDef xml:id="P1" n="1" lines="5"/></staffGrp></scoreDef>'
            '<section><measure xml:id="m1" n="1"><staff xml:id="s1" n="1"><layer xml:id="l1" n="1">'
            '<note xml:id="n1" dur="4" pname="c" oct="4"/><note xml:id="n2" dur="4" pname="d" oct="4"/><note xml:id="n3" dur="2" pname="e" oct="4"/>'
            '</layer></staff></measure></section></score></mdiv></body></music></mei>\n')


def eval_dispatch(d):
    """the loader picks the reader from the file extension (any case); other extensions are refused"""
    ev = Eval()
    want = [(F(0), F(1), "n", "C", 0, 4), (F(1), F(1), "n", "D", 0, 4), (F(2), F(2), "n", "E", 0, 4)]
    for text, sufs in ((TINY_KERN, [".krn", ".kern", ".KRN", ".Kern"]), (TINY_MEI, [".mei", ".MEI"])):
        for suf in sufs:
            try:
                infos = extract_parts(load_text(text, suf))
                got = [n[:6] for i in infos for n in i["notes"]]
                if got != want:
                    ev.oracle.append("dispatch: load_score(doc%s) loaded %s" % (suf, got))
            except Exception as e:
                ev.oracle.append("dispatch: load_score(doc%s) raised %s: %s" % (suf, type(e).__name__, str(e)[:120]))
    for text, suf in ((TINY_KERN, ".humdrum"), (TINY_MEI, ".meix"), (TINY_KERN, "")):
        try:
            load_text(text, suf)
            ev.oracle.append("dispatch: load_score accepted the unknown extension %r" % suf)
        except Exception:
            pass
    # the reader is chosen by the extension, not by the content
    for text, suf in ((TINY_KERN, ".mei"), (TINY_MEI, ".krn")):
        try:
            infos = extract_parts(load_text(text, suf))
            if [n[:6] for i in infos for n in i["notes"]] == want:
                ev.oracle.append("dispatch: content sniffing: %s content loaded from a %s file" % ("kern" if text is TINY_KERN else "mei", suf))
        except Exception:
            pass
    ev.requests.append(kern_request("notes", TINY_KERN))
    ev.impl.append("[[(0,1,n,C,0,4,1,1,0,0),(1,1,n,D,0,4,1,1,0,0),(2,2,n,E,0,4,1,1,0,0)]]")
    ev.requests.append(mei_request("notes", mei_events(TINY_MEI)))
    ev.impl.append("[[(0,1,n,C,0,4,1,1,0,0),(1,1,n,D,0,4,1,1,0,0),(2,2,n,E,0,4,1,1,0,0)]]")
    ev.key = "dispatch"
    return ev



# ---------------------------------------------------------------------------- which reader does load_score call?
READERS = ("load_musicxml", "load_score_midi", "load_mei", "load_kern", "load_via_musescore", "load_match")


def dispatch_table_from_source():
    """the if / elif chain of load_score, read off the source text: [(extension, reader name)] in source order"""
    import ast

    src = open(os.path.join(REPO, "partitura", "io", "__init__.py"), encoding="utf-8").read()
    fn = next(n for n in ast.walk(ast.parse(src)) if isinstance(n, ast.FunctionDef) and n.name == "load_score")
    rows = []

    def walk_if(node):
        t = node.test
        if (isinstance(t, ast.Compare) and isinstance(t.left, ast.Name) and t.left.id == "extension"
                and len(t.ops) == 1 and isinstance(t.ops[0], ast.In)):
            exts = [e.value for e in t.comparators[0].elts]
            called = [c.func.id for st in node.body for c in ast.walk(st)
                      if isinstance(c, ast.Call) and isinstance(c.func, ast.Name) and c.func.id in READERS]
            for e in exts:
                rows.append((e, called[0] if called else "?"))
            for o in node.orelse:
                if isinstance(o, ast.If):
                    walk_if(o)

    for st in fn.body:
        if isinstance(st, ast.If) and isinstance(st.test, ast.Compare) and getattr(st.test.left, "id", "") == "extension":
            walk_if(st)
    return rows


def which_reader(path):
    """call the real load_score on the path with the six readers replaced by recorders (nothing is read)"""
    from unittest import mock
    import partitura.io as PIO

    called = []

    def rec(name):
        def f(*a, **kw):
            called.append(name)
            return (None, None, "score") if name == "load_match" else "score"
        return f

    patches = [mock.patch.object(PIO, name, rec(name)) for name in READERS]
    for p_ in patches:
        p_.start()
    try:
        try:
            PIO.load_score(path)
        except PIO.NotSupportedFormatError:
            return "err"
        except Exception as e:
            return "exc:" + type(e).__name__
    finally:
        for p_ in patches:
            p_.stop()
    return called[0] if len(called) == 1 else "calls:%r" % (called,)


def py_splitext_ext(path):
    """posixpath.splitext by its documentation, restated: the extension is what follows the last dot of the last
    component (dot included) unless only dots precede it"""
    base = path.rsplit("/", 1)[-1]
    if "." not in base:
        return ""
    stem, ext = base.rsplit(".", 1)
    if stem.strip(".") == "":
        return ""
    return "." + ext


def gen_paths(rng, n):
    exts = [e for e, _ in dispatch_table_from_source()]
    unknown = [".humdrum", ".meix", ".txt", ".krn~", ".xml.bak", ".mid2", ".MXL1", ".k", ".", ""]
    res = []
    for _ in range(n):
        dirs = "/".join(rng.choice(["tmp", "a.b", ".cache", "dir.krn", "x", "My Scores", "op.1"]) for _ in range(rng.randint(0, 3)))
        stem = rng.choice(["piece", "Sonata.No.2", ".hidden", "..x", "", ".", "..", "a", "score.mei", "x.krn.bak", "UPPER"])
        r = rng.random()
        if r < 0.6:
            e = rng.choice(exts)
            e = "".join(ch.upper() if rng.random() < 0.4 else ch for ch in e)
        elif r < 0.9:
            e = rng.choice(unknown)
        else:
            e = rng.choice(exts)[1:]        # the extension without its dot
        res.append(("/" if rng.random() < 0.7 else "") + (dirs + "/" if dirs else "") + stem + e)
    return res


def eval_dispatch2(d):
    ev = Eval()
    rows = dispatch_table_from_source()
    ev.requests.append("dtab")
    ev.impl.append(W.f_list(lambda r: W.f_tuple(r[0], r[1]), rows))
    if len(set(e for e, _ in rows)) != len(rows):
        ev.oracle.append("dispatch: an extension is listed twice in load_score")
    want = dict(rows)
    for path in d["paths"]:
        got = which_reader(path)
        ev.requests.append("disp " + W.s(path))
        ev.impl.append(got)
        # oracle: the reader documented for the lower-cased extension, nothing for any other
        exp = want.get(py_splitext_ext(path).lower(), "err")
        if got != exp:
            ev.oracle.append("dispatch: load_score(%r) -> %s, the extension %r asks for %s" % (path, got, py_splitext_ext(path), exp))
    ev.key = "dispatch2:" + "|".join(d["paths"])
    return ev


# ============================================================================ cases
def rand_layout(rng):
    return {"same_part": rng.random() < 0.5, "split": rng.random() < 0.5, "bar0": rng.random() < 0.85,
            "barstyle": rng.choice(["", "", "", "-", ":|!|:", ";"]), "bar0style": rng.choice(["", "", "-"]),
            "final": rng.choice(["==", "==", "=", "==|!", None]), "deco": rng.random() < 0.5,
            "comments": rng.random() < 0.2, "staff_tags": rng.random() < 0.7,
            "part_tag": rng.choice(["*part1", "*part1", "*Ipiano"]), "tempo": rng.choice([None, None, 96]),
            "first_bar": rng.choice([1, 1, 1, 5]), "mixed_parts": rng.random() < 0.3,
            "dynam": rng.choice([None, None, None, "left", "right"]), "dynam_seed": rng.getrandbits(20),
            "dynam_type": rng.choice(["**dynam", "**dynam", "**text"])}


def rand_exotic(r, p_odd=0.3):
    """the `exotic` argument of gen_asc: False, True (7:4, dotted triplets) or a list of one or two odd tuplet ratios whose
    members carry dots (see odd_tuplet)"""
    x = r.random()
    if x < p_odd:
        return r.sample(ODD_RATIOS, r.choice([1, 1, 2]))
    return x < p_odd + 0.15


def cases(rng, tier):
    n = {"quick": 160, "thorough": 4000, "search": 1200}.get(tier, 160)
    chord_ties = True       # repaired by fixes/C19-27 (was the open finding F-C19-kern-chord-ties)
    yield {"k": "tables"}
    yield {"k": "dispatch"}
    for _ in range({"quick": 3, "thorough": 40}.get(tier, 3)):
        yield {"k": "dispatch2", "paths": gen_paths(random.Random(rng.getrandbits(48)), 40)}
    for fmt, pth in fixture_paths():
        yield {"k": "fixture", "fmt": fmt, "path": pth}
    for i in range(n):
        seed = rng.getrandbits(48)
        r = random.Random(seed)
        ct = chord_ties and r.random() < 0.3
        asc = gen_asc(r, exotic=rand_exotic(r), chord_ties=ct, partial_ties=ct)
        lay = rand_layout(r)
        if lay["split"] and r.random() < 0.6:
            asc = delay_subvoices(asc, r)
        yield {"k": "kern", "asc": asc, "lay": lay, "seed": seed,
               "via": r.choice(["load_kern", "load_kern", ".krn", ".kern", ".KRN"])}
        seed = rng.getrandbits(48)
        r = random.Random(seed)
        asc = gen_asc(r, exotic=rand_exotic(r, 0.15), chord_ties=True, partial_ties=r.random() < 0.25)
        opt = rand_mei_opt(r, asc)
        if opt["space"]:
            asc = spaces_for_rests(asc, r)
        if r.random() < 0.3:
            cross_staff(asc, opt, r)
        if r.random() < 0.3:
            clef_changes(asc, r)
        opt["decor"] = r.random() < 0.3
        opt["space_noid"] = r.random() < 0.3
        yield {"k": "mei", "asc": asc, "opt": opt, "seed": seed, "via": r.choice(["load_mei", "load_mei", ".mei", ".MEI"])}
        if i % 4 == 3:
            seed = rng.getrandbits(48)
            r = random.Random(seed)
            asc = gen_asc(r, exotic=False, max_measures=3, chord_ties=True)
            opt = rand_mei_opt(r, asc)
            opt.update(beams=True, space_nodur=False, short=None)
            if r.random() < 0.5:
                opt["tree"] = rand_tree(r, n_measures(asc))
            yield {"k": "meirej", "asc": asc, "opt": opt, "seed": seed,
                   "inj": {"place": r.choice(sorted(INJECT)), "nth": r.randrange(1000), "el": r.randrange(1000)}}
        if i % 3 == 2:
            # who carries the finest duration of a document without declared ppq
            seed = rng.getrandbits(48)
            r = random.Random(seed)
            asc, fk = gen_asc_fine(r)
            opt = fine_opt(r, asc, fk)
            if r.random() < 0.3:
                cross_staff(asc, opt, r, p=0.5)
            yield {"k": "mei", "asc": asc, "opt": opt, "seed": seed, "fine": fk, "via": "load_mei"}
        if i % 2 == 1:
            seed = rng.getrandbits(48)
            yield {"k": "kdur", "toks": gen_kdur(random.Random(seed)), "seed": seed}
        if i % 4 == 1:
            seed = rng.getrandbits(48)
            r = random.Random(seed)
            yield {"k": "kern3", "asc": gen_asc3(r), "seed": seed,
                   "lay": {"same_part": r.random() < 0.5, "multi": r.random() < 0.5, "joinall": r.random() < 0.5,
                           "merge": r.random() < 0.5}}
        if i % 2 == 0:
            seed = rng.getrandbits(48)
            r = random.Random(seed)
            kind = "xkern" if i % 4 == 0 else "xmei"
            asc = gen_asc(r, exotic=False, max_measures=6 if (kind == "xkern" and r.random() < 0.25) else 3, chord_ties=True)
            # exportable: a kern spine must be rhythmically complete, so every voice sounds or rests in every
            # measure; for MEI only the first voice of each staff has to fill its measures
            xopt = {"seed": r.getrandbits(30), "shuffle": r.random() < 0.4,
                    "grace_types": r.choice([["grace"], ["grace", "acciaccatura", "appoggiatura"]]),
                    "keychg": {str(m): r.randint(-7, 7) for m in range(1, n_measures(asc)) if r.random() < 0.3},
                    "first_number": r.choice([0, 0, 0, 9]), "divmul": r.choice([1, 1, 1, 2, 3])}
            dd = {"k": kind, "asc": asc, "seed": seed, "rests": True if kind == "xkern" else r.random() < 0.6, "xopt": xopt}
            if r.random() < 0.12:
                xopt["wrongdur"] = r.randrange(1000)
                dd["nonexp"] = True       # outside the writers' domain: only model = code is compared, nothing is demanded
            if kind == "xmei" and r.random() < 0.3:
                # a staff without even a rest where it is silent (when there is another staff to fill the measure)
                xopt["silent_staff"] = r.randrange(len(asc["staves"]))
                if len(asc["staves"]) > 1:
                    mi = r.randrange(n_measures(asc))
                    for v in asc["staves"][xopt["silent_staff"]]["voices"]:
                        v[mi] = None
                    untie_last(asc)
            yield dd


def evaluate(d):
    k = d["k"]
    if k == "tables":
        return eval_tables(d)
    if k == "kern":
        return eval_kern(d)
    if k == "mei":
        return eval_mei(d)
    if k in ("xkern", "xmei"):
        return eval_export(d)
    if k == "meirej":
        return eval_meirej(d)
    if k == "kern3":
        return eval_kern3(d)
    if k == "kdur":
        return eval_kdur(d)
    if k == "fixture":
        return eval_fixture(d)
    if k == "dispatch":
        return eval_dispatch(d)
    if k == "dispatch2":
        return eval_dispatch2(d)
    raise ValueError("unknown case kind %r" % k)


def eval_tables(d):
    import partitura.io.importkern as IK
    import partitura.io.exportkern as EK

    ev = Eval()
    ev.requests.append("ktab notes")
    ev.impl.append(W.f_list(lambda kv: W.f_tuple(kv[0], kv[1][0], W.f_int(kv[1][1])), IK.KERN_NOTES.items()))
    ev.requests.append("ktab durs")
    ev.impl.append(W.f_list(lambda kv: W.f_tuple(kv[0], kv[1]["type"]), IK.KERN_DURS.items()))
    ev.requests.append("ktab wdurs")
    ev.impl.append(W.f_list(lambda kv: W.f_tuple(kv[0], kv[1]), EK.KERN_DURS.items()))
    ev.requests.append("ktab wacc")
    ev.impl.append(W.f_list(lambda kv: W.f_tuple(W.f_int(kv[0]), kv[1]), EK.ACC_TO_SIGN.items()))
    ev.requests.append("ktab wnotes")
    ev.impl.append(W.f_list(lambda st: W.f_tuple(st, EK.KERN_NOTES[(st, 3)], EK.KERN_NOTES[(st, 4)]), STEPS))
    if sorted(EK.KERN_NOTES) != sorted((st, o) for st in STEPS for o in (3, 4)):
        ev.oracle.append("tables: exportkern.KERN_NOTES has other keys than the seven steps in octaves 3 and 4")
    ev.requests.append("ktab wkeys")
    ev.impl.append("".join(EK.KEYS))
    if {v: k for k, v in EK.KERN_NOTES.items()} != dict(IK.KERN_NOTES):
        ev.oracle.append("tables: exportkern.KERN_NOTES is not the inverse of importkern.KERN_NOTES")
    if {v: k for k, v in EK.KERN_DURS.items()} != {k: v["type"] for k, v in IK.KERN_DURS.items()}:
        ev.oracle.append("tables: exportkern.KERN_DURS is not the inverse of importkern.KERN_DURS")
    ev.key = "tables"
    return ev


def eval_kern(d):
    asc, lay = d["asc"], d["lay"]
    rng = random.Random(d.get("seed", 0) ^ 0x5EED)
    text, mains = write_kern(asc, lay, rng)
    ev = Eval(info={"text": text})
    exp = kern_expect(asc, lay, mains)
    try:
        via = d.get("via", "load_kern")
        score = load_text(text, ".krn", loader="kern") if via == "load_kern" else load_text(text, via)
        infos = extract_parts(score)
        err = None
    except Exception as e:  # the document is well-formed: the loader must accept it
        infos, err = None, e
    for what in ("notes", "joined", "meas", "sigs"):
        ev.requests.append(kern_request(what, text))
    if err is not None:
        ev.impl += ["err"] * 4
        ev.oracle.append("load: load_kern raised %s: %s" % (type(err).__name__, str(err)[:200]))
    else:
        tx = impl_texts(infos, "kern")
        ev.impl += [tx["notes"], tx["joined"], tx["meas"], tx["sigs"]]
        oracle_compare(exp, infos, ev.oracle)
    pbv_stream(ev, text)
    ev.key = "kern:" + text if infos and any(i["notes"] for i in infos) else None
    return ev


# ============================================================================ kern duration arithmetic (one spine, free values)
def gen_kdur(rng):
    """one spine of 5-14 tokens whose rhythm values are drawn freely: 1-3 reciprocals that are no powers of two (3 ... 63 or
    a%b), their multiples by 2 and 4, binary values, each with 0-3 dots; notes, chords and rests; barlines anywhere (a kern
    measure starts at the encoded barline, whatever the meter).  [(recip string, dots, kind)] with kind n / c / r / bar"""
    odd = []
    for _ in range(rng.choice([1, 1, 2, 3])):
        if rng.random() < 0.2:
            a = rng.choice([3, 5, 7, 9, 11, 13, 15])
            odd.append("%d%%%d" % (a, rng.choice([b for b in (2, 4, 8) if b < 2 * a])))
        else:
            n = rng.choice([x for x in range(3, 64) if x & (x - 1)])
            odd.append("%d" % (n * rng.choice([1, 1, 2, 4]) if n < 32 else n))
    toks = [("", 0, "bar")]
    for _ in range(rng.randint(5, 14)):
        rc = rng.choice(odd) if rng.random() < 0.7 else rng.choice(["1", "2", "4", "8", "16", "32"])
        toks.append((rc, rng.choice([0, 0, 1, 1, 1, 2, 2, 3]), rng.choice("nnnncr")))
        if rng.random() < 0.15:
            toks.append(("", 0, "bar"))
    return toks


def kdur_value(rc, dots):
    if "%" in rc:
        a, b = rc.split("%")
        base = F(4 * int(b), int(a))
    else:
        base = F(4, int(rc))
    return base * (2 - F(1, 2 ** dots))


def eval_kdur(d):
    """the importer's position arithmetic token by token: the loaded start positions (in divisions, exact integers) against
    Model/KernDur.lean (dot_function / int(round(..)) over exact rationals), the whole load against the kern semantics, and
    the oracle: every token stands at the sum of the values written before it and lasts its own value"""
    toks = d["toks"]
    lines = ["**kern", "*clefG2", "*M4/4"]
    bar = 1
    steps = "cdefgab"
    exp, pos, bars, k = [], F(0), [], 0
    for (rc, dots, kind) in toks:
        if kind == "bar":
            lines.append("=%d" % bar)
            bar += 1
            bars.append(pos)
            continue
        w = rc + "." * dots
        v = kdur_value(rc, dots)
        if kind == "r":
            lines.append(w + "r")
            exp.append((pos, v, "r", 1))
        elif kind == "c":
            lines.append("%s%s %s%s" % (w, steps[k % 7], w, steps[(k + 2) % 7] * 2))
            exp.append((pos, v, "n", 2))
        else:
            lines.append(w + steps[k % 7])
            exp.append((pos, v, "n", 1))
        k += 1
        pos += v
    lines += ["==", "*-"]
    bars.append(pos)
    text = "\n".join(lines) + "\n"
    ev = Eval(info={"text": text})
    data = [(rc, dots) for (rc, dots, kind) in toks if kind != "bar"]
    try:
        score = load_text(text, ".krn", loader="kern")
        infos = extract_parts(score)
        part = score.parts[0]
        import partitura.score as S
        divs = int(part._quarter_durations[0])
        objs = sorted(part.iter_all(S.GenericNote, include_subclasses=True), key=lambda n: (n.start.t, n.end.t))
        err = None
    except Exception as e:
        infos, err = None, e
    for what in ("notes", "meas"):
        ev.requests.append(kern_request(what, text))
    if err is not None:
        ev.impl += ["err"] * 2
        ev.oracle.append("load: load_kern raised %s: %s" % (type(err).__name__, str(err)[:200]))
        ev.key = None
        return ev
    tx = impl_texts(infos, "kern")
    ev.impl += [tx["notes"], tx["meas"]]
    got = [(int(o.start.t), int(o.end.t)) for o in objs]
    # one entry per token (the notes of a chord share start and end)
    per_tok, i = [], 0
    for (on, v, kind, cnt) in exp:
        grp = got[i:i + cnt]
        i += cnt
        per_tok.append(grp)
    ok_shape = i == len(got) and all(len(set(g)) == 1 for g in per_tok if g) and all(per_tok)
    if not ok_shape:
        ev.oracle.append("kdur: %d tokens denote %d notes and rests, %d loaded (or the notes of a chord differ)"
                         % (len(exp), sum(e[3] for e in exp), len(got)))
    else:
        starts = [g[0][0] for g in per_tok]
        end = per_tok[-1][0][1]
        ev.requests.append("kdur %d %d %s" % (divs, len(data), " ".join("%s %d" % (W.s(rc), dots) for rc, dots in data)))
        ev.impl.append(W.f_tuple(W.f_list(W.f_int, starts), W.f_int(end)))
        bad = []
        for (on, v, kind, cnt), g in zip(exp, per_tok):
            s0, e0 = g[0]
            if F(s0, divs) != on or F(e0 - s0, divs) != v:
                bad.append("token at %s lasting %s loaded at %s lasting %s" % (on, v, F(s0, divs), F(e0 - s0, divs)))
        if bad:
            ev.oracle.append("kdur (divisions %d): %s%s" % (divs, "; ".join(bad[:3]), " ..." if len(bad) > 3 else ""))
        inexact = [str(v) for (on, v, kind, cnt) in exp if (v * divs).denominator != 1]
        if inexact:
            ev.oracle.append("divisions: %d divisions per quarter do not represent the written values %s exactly" % (divs, inexact[:3]))
        ms = sorted(set(m[2] for m in infos[0]["measures"]))
        want = sorted(set(bars))
        if ms != want:
            ev.oracle.append("measures: start at %s, barlines encoded at %s" % ([str(x) for x in ms], [str(x) for x in want]))
    ev.key = "kdur:" + text
    return ev


def eval_mei(d):
    asc, opt = d["asc"], d["opt"]
    rng = random.Random(d.get("seed", 0) ^ 0x5EED)
    text = write_mei(asc, opt, rng)
    ev = Eval(info={"text": text})
    exp = mei_expect(asc, opt)
    try:
        via = d.get("via", "load_mei")
        score = load_text(text, ".mei", loader="mei") if via == "load_mei" else load_text(text, via)
        infos = extract_parts(score)
        err = None
    except Exception as e:
        infos, err = None, e
    evs = mei_events(text)
    for what in ("notes", "joined", "meas", "sigs", "ppq"):
        ev.requests.append(mei_request(what, evs))
    if err is not None:
        ev.impl += ["err"] * 5
        ev.oracle.append("load: load_mei raised %s: %s" % (type(err).__name__, str(err)[:200]))
    else:
        tx = impl_texts(infos, "mei")
        ev.impl += [tx["notes"], tx["joined"], tx["meas"], tx["sigs"], W.f_list(lambda i: W.f_rat(i["divs"]), infos)]
        oracle_compare(exp, infos, ev.oracle)
        if len(exp) == len(infos):
            staff_clause(exp, infos, ev.oracle)
            divisions_clause(exp, infos, ev.oracle)
        structure_clause(d, infos, ev.oracle)
        if opt.get("ppq") and opt.get("declare") in ("ppq", "both"):
            for pi, inf in enumerate(infos):
                if inf["divs"] != opt["ppq"]:
                    ev.oracle.append("ppq: part %d declares ppq=%d, loaded with %s" % (pi, opt["ppq"], inf["divs"]))
    ev.key = "mei:" + text if infos and any(i["notes"] for i in infos) else None
    return ev


# ---------------------------------------------------------------------------- what the reader refuses, what it skips
INJECT = {
    # place -> (regex of the start tag after which the element is inserted, candidates, what load_mei does)
    "layer": (r"<layer [^>/]*>", ['<mSpace xml:id="x1"/>', '<bTrem xml:id="x1"/>', '<graceGrp xml:id="x1"/>', '<app xml:id="x1"/>',
                                   '<halfmRpt xml:id="x1"/>', '<section xml:id="x1"/>'], "err"),
    "beam": (r"<beam [^>/]*>", ['<mSpace xml:id="x1"/>', '<bTrem xml:id="x1"/>', '<graceGrp xml:id="x1"/>'], "err"),
    "tuplet": (r"<tuplet [^>/]*>", ['<mSpace xml:id="x1"/>', '<fTrem xml:id="x1"/>', '<measure xml:id="x1"/>'], "err"),
    "section": (r"<section [^>/]*>", ['<annot xml:id="x1">x</annot>', '<staffDef xml:id="x1" n="1" lines="5"/>', '<div xml:id="x1"/>',
                                      '<note xml:id="x1" dur="4" pname="c" oct="4"/>'], "err"),
    "ending": (r"<ending [^>/]*>", ['<annot xml:id="x1">x</annot>', '<staffDef xml:id="x1" n="1" lines="5"/>'], "err"),
    "noid": (r'<(?:note|rest|chord|mRest|multiRest) xml:id="[^"]*"', None, "err"),
    # skipped by the reader: the document denotes what it denoted
    "measure": (r"<measure [^>/]*>", ['<annot xml:id="x1">x</annot>', '<mSpace xml:id="x1"/>', '<staffDef xml:id="x1" n="1" lines="5"/>',
                                      '<fermata xml:id="x1" tstamp="1" staff="1"/>'], "ok"),
    "staff": (r"<staff [^>/]*>", ['<annot xml:id="x1">x</annot>', '<mSpace xml:id="x1"/>'], "ok"),
    "score": (r"<score [^>/]*>", ['<pb xml:id="x1"/>', '<annot xml:id="x1">x</annot>', '<mSpace xml:id="x1"/>'], "ok"),
    "chord": (r"<chord [^>/]*>", ['<artic xml:id="x1" artic="acc"/>', '<mSpace xml:id="x1"/>'], "ok"),
}


def inject(text, inj):
    """one more element in a generated document: -> (text, place used, "err" | "ok")"""
    import re

    place = inj["place"]
    pat, cands, what = INJECT[place]
    hits = list(re.finditer(pat, text))
    if not hits:
        place = "layer"
        pat, cands, what = INJECT[place]
        hits = list(re.finditer(pat, text))
    if not hits:
        return text, None, "ok"
    h = hits[inj["nth"] % len(hits)]
    if cands is None:      # drop the xml:id of an element that becomes a score object
        tag_end = text.index(" ", h.start())
        return text[:tag_end] + text[h.end():], place, what
    return text[:h.end()] + cands[inj["el"] % len(cands)] + text[h.end():], place, what


def eval_meirej(d):
    """documents with one element the reader refuses (model = code: both refuse) or skips (the oracle applies unchanged)"""
    asc, opt = d["asc"], d["opt"]
    text0 = write_mei(asc, opt, random.Random(d.get("seed", 0) ^ 0x5EED))
    text, place, what = inject(text0, d["inj"])
    ev = Eval(info={"text": text, "place": place, "expect": what})
    try:
        infos = extract_parts(load_text(text, ".mei", loader="mei"))
        err = None
    except Exception as e:
        infos, err = None, e
    evs = mei_events(text)
    for w_ in ("notes", "joined", "meas", "sigs", "ppq"):
        ev.requests.append(mei_request(w_, evs))
    if err is not None:
        ev.impl += ["err"] * 5
        if what == "ok":
            ev.oracle.append("load: load_mei raised %s: %s on a document with an element it has no reason to look at (%s)" % (
                type(err).__name__, str(err)[:160], place))
    else:
        tx = impl_texts(infos, "mei")
        ev.impl += [tx["notes"], tx["joined"], tx["meas"], tx["sigs"], W.f_list(lambda i: W.f_rat(i["divs"]), infos)]
        if what == "ok":
            exp = mei_expect(asc, opt)
            oracle_compare(exp, infos, ev.oracle)
    ev.key = "meirej:%s:%s" % (place, text)
    return ev


STRUCT_KEYS = ("tree", "nested_section", "ending", "slurs", "ctl_shuffle", "tie_at", "ctl_before", "sd_at")


def plain_structure(opt):
    """the same document options with the music in ONE flat section, every tie written after the staves of the
    measure in which it ends, no slurs, scoreDef changes right before their measure"""
    o = {k: v for k, v in opt.items() if k not in STRUCT_KEYS}
    o.update(nested_section=False, ending=None)
    return o


def structure_clause(d, infos, fails):
    """the notes denoted do not depend on how the same measures are cut into sections / endings or on where the
    control events (<tie>, <slur>) are written: the document is written a second time, flat, and must load to the same
    notes (with their tie links), sounding notes, measures, signatures, clefs and divisions"""
    opt = d["opt"]
    flat = plain_structure(opt)
    if flat == {k: v for k, v in opt.items() if k != "ctl_seed"} or flat == opt:
        return
    text0 = write_mei(d["asc"], flat, random.Random(d.get("seed", 0) ^ 0x5EED))
    try:
        infos0 = extract_parts(load_text(text0, ".mei", loader="mei"))
    except Exception:
        return      # nothing to compare with
    if len(infos0) != len(infos):
        fails.append("structure: %d part(s) loaded, %d from the same music in one flat section" % (len(infos), len(infos0)))
        return
    for pi, (a, b) in enumerate(zip(infos, infos0)):
        for fld, label in (("notes", "notes (onset,dur,kind,step,alter,oct,voice,staff,tied back,tied on)"),
                           ("joined", "sounding notes"), ("measures", "measures (number,name,start,end)"),
                           ("ts", "time signatures"), ("ks", "key signatures"), ("clefs", "clefs"), ("divs", "divisions")):
            if a[fld] != b[fld]:
                if isinstance(a[fld], list):
                    sub = []
                    multiset_diff(b[fld], a[fld], "x", sub)
                    det = sub[0][3:] if sub else "same elements in another order"
                else:
                    det = "%s instead of %s" % (a[fld], b[fld])
                fails.append("structure: part %d %s differ from those of the same music written in one flat section: %s"
                             % (pi, label, det))
                return


def has_tied_chord(d):
    a = d.get("asc")
    if not a:
        return False
    return any(e.get("tie") and len(e.get("p", [])) > 1
               for st in a["staves"] for v in st["voices"] for mm in v if mm for e in mm)


def score_level_items(d):
    """does the MEI document hold a scoreDef change or an ending directly in <score>, between the sections (F-C19-29)?"""
    if d.get("k") != "mei":
        return False
    try:
        opt = d["opt"]
        toks = tree_tokens(mei_tree(opt, n_measures(d["asc"])))
        chg = set(int(k) for k in list(d["asc"].get("meterchg", {})) + list(d["asc"].get("keychg", {})))
        depth, after_closes, in_closes = 0, 0, False
        for t in toks:
            if t[0] == "o":
                if depth == 0 and t[1] == "end":
                    return True
                depth += 1
                in_closes = False
            elif t[0] == "c":
                depth -= 1
                if in_closes:
                    after_closes = depth      # depth after the closing tags that follow the last measure
            else:
                if opt.get("sd_at") == "between" and t[1] > 0 and t[1] in chg and after_closes == 0 and not in_closes:
                    return True               # the scoreDef stands after those closing tags: directly in <score>
                in_closes, after_closes = True, depth
    except Exception:
        return False
    return False


def finding_key(d, f):
    clause = f.split(":")[0]
    if d["k"] == "kern" and clause == "ties" and has_tied_chord(d):
        return "kern:ties:chord"
    if d["k"] == "mei" and score_level_items(d):
        return "mei:score-level"
    return d["k"] + ":" + clause


def shrink(d):
    import copy

    if d["k"] == "kdur":
        toks = d["toks"]
        for i in range(len(toks)):
            if len(toks) > 1:
                yield dict(d, toks=toks[:i] + toks[i + 1:])
        for i, (rc, dots, kind) in enumerate(toks):
            if dots:
                yield dict(d, toks=toks[:i] + [[rc, dots - 1, kind]] + toks[i + 1:])
            if kind in ("c", "r"):
                yield dict(d, toks=toks[:i] + [[rc, dots, "n"]] + toks[i + 1:])
        return
    if d["k"] not in ("kern", "mei", "xkern", "xmei", "kern3", "meirej"):
        return
    asc = d["asc"]
    nm = n_measures(asc)

    def mk(a, **kw):
        c = dict(d)
        c["asc"] = untie_last(a)
        c.update(kw)
        return c

    def shrunk():
        yield from _shrink(d, asc, nm, mk)

    for c in shrunk():
        if spaces_aligned(c["asc"]):
            yield c


def _shrink(d, asc, nm, mk):
    import copy

    # fewer staves
    if len(asc["staves"]) > 1:
        for si in range(len(asc["staves"])):
            a = copy.deepcopy(asc)
            del a["staves"][si]
            yield mk(a)
    # fewer voices
    for si, st in enumerate(asc["staves"]):
        if len(st["voices"]) > 1:
            a = copy.deepcopy(asc)
            del a["staves"][si]["voices"][1]
            yield mk(a)
    # fewer measures (drop the last / the first non-pickup)
    if nm > 1:
        a = copy.deepcopy(asc)
        for st in a["staves"]:
            for v in st["voices"]:
                v.pop()
        a["meterchg"] = {k: v for k, v in a["meterchg"].items() if int(k) < nm - 1}
        yield mk(a)
        if not asc.get("pickup"):
            a = copy.deepcopy(asc)
            ok = all(v[1] is not None for st in a["staves"] for v in st["voices"][:1])
            for st in a["staves"]:
                for v in st["voices"]:
                    v.pop(0)
            if "1" in a["meterchg"]:
                a["meter"] = a["meterchg"]["1"]
            a["meterchg"] = {str(int(k) - 1): v for k, v in a["meterchg"].items() if int(k) > 1}
            if ok and (d.get("opt") or {}).get("tree") is not None:
                yield mk(a, opt=dict(d["opt"], tree=tree_fit(d["opt"]["tree"], nm - 1, shift=1)))
            elif ok:
                yield mk(a)
    if asc.get("pickup"):
        a = copy.deepcopy(asc)
        a["pickup"] = None
        for st in a["staves"]:
            for v in st["voices"]:
                if v[0] is not None:
                    v[0] = [{"t": "r", "v": vv, "d": dd, "tup": None} for (vv, dd) in rest_fill(meter_len(a["meter"]))]
        yield mk(a)
    # plainer document structure (MEI): first everything at once, then one dimension at a time
    if d["k"] in ("mei", "meirej"):
        opt = d["opt"]
        flat = plain_structure(opt)
        if any(opt.get(k) != flat.get(k) for k in STRUCT_KEYS):
            yield mk(copy.deepcopy(asc), opt=flat)
        if opt.get("tree") is not None:
            tree = tree_fit(opt["tree"], nm)
            for k in range(1, nm):
                two = [{"t": "sec", "c": list(range(k))}, {"t": "sec", "c": list(range(k, nm))}]
                if tree != two:
                    yield mk(copy.deepcopy(asc), opt=dict(opt, tree=two))
            for two in ([{"t": "sec", "c": list(range(nm))}, {"t": "sec", "c": []}],
                        [{"t": "sec", "c": [{"t": "sec", "c": list(range(nm))}]}],
                        [{"t": "sec", "c": [{"t": "end", "c": list(range(nm))}]}]):
                if tree != two:
                    yield mk(copy.deepcopy(asc), opt=dict(opt, tree=two))
        if opt.get("mrest_staff"):
            yield mk(copy.deepcopy(asc), opt=dict(opt, mrest_staff=None))
        if opt.get("decor"):
            yield mk(copy.deepcopy(asc), opt=dict(opt, decor=False))
        if opt.get("space_noid"):
            yield mk(copy.deepcopy(asc), opt=dict(opt, space_noid=False))
        if any(e.get("clefb") for st in asc["staves"] for v in st["voices"] for mm in v if mm for e in mm):
            a = copy.deepcopy(asc)
            for st in a["staves"]:
                for v in st["voices"]:
                    for mm in v:
                        for e in (mm or []):
                            e.pop("clefb", None)
            yield mk(a)
        if any(e.get("xs") or e.get("cs") for st in asc["staves"] for v in st["voices"] for mm in v if mm for e in mm):
            a = copy.deepcopy(asc)
            for st in a["staves"]:
                for v in st["voices"]:
                    for mm in v:
                        for e in (mm or []):
                            e.pop("xs", None)
                            e.pop("cs", None)
            yield mk(a)
        for key, plain in (("slurs", 0), ("ctl_shuffle", False), ("ctl_before", False), ("tie_at", "end"), ("tie_at", "start"),
                           ("sd_at", "next"), ("short", None), ("sb", False), ("beams", False), ("rptstart", []), ("rptend", [])):
            if opt.get(key, plain) != plain and not (key == "tie_at" and opt.get(key) in ("end", "start")):
                yield mk(copy.deepcopy(asc), opt=dict(opt, **{key: plain}))
    # simplify events: chord -> single, drop grace, untie, plain pitch; a measure -> rests
    for si, st in enumerate(asc["staves"]):
        for vi, voice in enumerate(st["voices"]):
            for mi, mm in enumerate(voice):
                if not mm:
                    continue
                lens = measure_lengths(asc)
                if not all(e["t"] == "r" for e in mm):
                    a = copy.deepcopy(asc)
                    a["staves"][si]["voices"][vi][mi] = [{"t": "r", "v": vv, "d": dd, "tup": None} for (vv, dd) in rest_fill(lens[mi])]
                    yield mk(a)
                for ei, e in enumerate(mm):
                    if e["t"] == "g":
                        a = copy.deepcopy(asc)
                        del a["staves"][si]["voices"][vi][mi][ei]
                        yield mk(a)
                    elif e["t"] == "n":
                        if len(e["p"]) > 1:
                            a = copy.deepcopy(asc)
                            a["staves"][si]["voices"][vi][mi][ei]["p"] = e["p"][:1]
                            yield mk(a)
                        if e.get("tie"):
                            a = copy.deepcopy(asc)
                            a["staves"][si]["voices"][vi][mi][ei].pop("tie")
                            yield mk(a)
                        if len(e["p"]) == 1 and e["p"][0] != ["C", 0, 4]:
                            a = copy.deepcopy(asc)
                            a["staves"][si]["voices"][vi][mi][ei]["p"] = [["C", 0, 4]]
                            yield mk(a)
    # plainer layout
    if d["k"] == "kern3":
        for key in ("multi", "joinall", "same_part"):
            if d["lay"].get(key):
                yield mk(copy.deepcopy(asc), lay=dict(d["lay"], **{key: False}))
    elif "lay" in d:
        plain = {"same_part": d["lay"]["same_part"], "split": d["lay"]["split"], "bar0": True, "barstyle": "", "bar0style": "",
                 "final": "==", "deco": False, "comments": False, "staff_tags": True, "part_tag": "*part1", "tempo": None,
                 "first_bar": 1, "dynam": d["lay"].get("dynam"), "dynam_seed": d["lay"].get("dynam_seed", 0),
                 "dynam_type": d["lay"].get("dynam_type", "**dynam")}
        if d["lay"].get("dynam"):
            yield mk(copy.deepcopy(asc), lay=dict(d["lay"], dynam=None))
        if d["lay"] != plain:
            yield mk(copy.deepcopy(asc), lay=plain)
        for key in ("same_part", "split"):
            if d["lay"][key]:
                l2 = dict(d["lay"])
                l2[key] = False
                yield mk(copy.deepcopy(asc), lay=l2)
    if asc.get("meterchg"):
        # keep lengths: only possible when no change -> skip
        pass


def distribution(descs, results):
    from collections import Counter

    c = Counter(d["k"] for d in descs)
    feats = Counter()
    for d in descs:
        if "asc" in d:
            a = d["asc"]
            feats["staves=%d" % len(a["staves"])] += 1
            feats["pickup"] += 1 if a.get("pickup") else 0
            feats["meterchg"] += 1 if a.get("meterchg") else 0
            feats["keychg"] += 1 if a.get("keychg") else 0
            evs = [e for st in a["staves"] for v in st["voices"] for mm in v if mm for e in mm]
            feats["tuplet_docs"] += 1 if any(e.get("tup") for e in evs) else 0
            feats["tie_docs"] += 1 if any(e.get("tie") for e in evs) else 0
            feats["chord_docs"] += 1 if any(len(e.get("p", [])) > 1 for e in evs) else 0
            feats["grace_docs"] += 1 if any(e["t"] == "g" for e in evs) else 0
            feats["dots2_docs"] += 1 if any(e.get("d", 0) >= 2 for e in evs) else 0
            feats["breve_docs"] += 1 if any(e["v"] <= 0 for e in evs) else 0
            feats["dotted_odd_tuplet_docs_%s" % d["k"]] += 1 if any(
                e.get("d") and e.get("tup") and e["tup"][0] not in (3, 6, 12) for e in evs) else 0
            two = any(len(st["voices"]) == 2 for st in a["staves"])
            if d["k"] == "kern":
                feats["kern_subspine_docs"] += 1 if (d["lay"]["split"] and two) else 0
                feats["kern_midmeasure_split_docs"] += 1 if (d["lay"]["split"] and any(e["t"] == "s" for e in evs)) else 0
                feats["kern_one_part_docs"] += 1 if d["lay"]["same_part"] else 0
                feats["kern_via_load_score"] += 1 if d.get("via", "load_kern") != "load_kern" else 0
                feats["kern_other_spine_%s" % d["lay"].get("dynam")] += 1 if d["lay"].get("dynam") else 0
            if d["k"] == "kern3":
                feats["kern3_max_subspines=%d" % max(len(st["voices"]) for st in a["staves"])] += 1
                rows_ = [ln.split("\t") for ln in write_kern3(a, d["lay"], random.Random(0))[0].split("\n")]
                feats["kern3_join_of_3_or_more"] += 1 if any(
                    any(r_[x:x + 3] == ["*v"] * 3 for x in range(len(r_))) for r_ in rows_) else 0
                feats["kern3_several_splits_in_a_row"] += 1 if any(r_.count("*^") > 1 for r_ in rows_) else 0
                feats["kern3_rows_with_paths_of_two_spines"] += 1 if (d["lay"].get("merge") and any(
                    ("*^" in r_ or "*v" in r_) and len([1 for x in range(len(r_)) if r_[x] != "*" and (x == 0 or r_[x - 1] == "*")]) > 1
                    and any(c_ == "*" for c_ in r_[r_.index(next(c for c in r_ if c != "*")):len(r_) - [c != "*" for c in r_][::-1].index(True)])
                    for r_ in rows_ if r_ and all(c_ in ("*", "*^", "*v") for c_ in r_))) else 0
            if d["k"] in ("xkern", "xmei"):
                feats["export_shuffled"] += 1 if (d.get("xopt") or {}).get("shuffle") else 0
                feats["export_not_exportable"] += 1 if d.get("nonexp") else 0
                feats["export_silent_staff"] += 1 if "silent_staff" in (d.get("xopt") or {}) else 0
            if d["k"] == "meirej":
                feats["meirej_%s" % d["inj"]["place"]] += 1
            if d["k"] == "mei":
                toks = tree_tokens(mei_tree(d["opt"], n_measures(a)))
                depth, maxd, top = 0, 0, 0
                for t in toks:
                    if t[0] == "o":
                        top += 1 if depth == 0 else 0
                        depth += 1
                        maxd = max(maxd, depth)
                    elif t[0] == "c":
                        depth -= 1
                feats["mei_endings"] += 1 if any(t[:2] == ("o", "end") for t in toks) else 0
                feats["mei_top_level_sections=%d" % min(top, 3)] += 1
                feats["mei_section_depth=%d" % min(maxd, 4)] += 1
                feats["mei_tie_at_" + str(d["opt"].get("tie_at", "end"))] += 1
                feats["mei_ctl_before_staves"] += 1 if d["opt"].get("ctl_before") else 0
                feats["mei_slurs"] += 1 if d["opt"].get("slurs") else 0
                feats["mei_sd_at_" + str(d["opt"].get("sd_at", "next"))] += 1
                tied_over = False
                if top > 1:
                    # a tie whose two notes stand in different top-level sections
                    sec_of, cur, depth = {}, -1, 0
                    for t in toks:
                        if t[0] == "o":
                            cur += 1 if depth == 0 else 0
                            depth += 1
                        elif t[0] == "c":
                            depth -= 1
                        else:
                            sec_of[t[1]] = cur
                    for st_ in a["staves"]:
                        for v in st_["voices"]:
                            for mi, mm in enumerate(v):
                                if mm and mi + 1 < len(v) and v[mi + 1]:
                                    last = [e for e in mm if e["t"] != "g"]
                                    if last and last[-1].get("tie") and sec_of.get(mi) != sec_of.get(mi + 1):
                                        tied_over = True
                feats["mei_tie_across_top_level_sections"] += 1 if tied_over else 0
                feats["mei_repeats"] += 1 if (d["opt"].get("rptstart") or d["opt"].get("rptend")) else 0
                feats["mei_ppq_inferred"] += 1 if not (d["opt"].get("ppq")) else 0
                feats["mei_dur_ppq_only"] += 1 if (d["opt"].get("ppq") and d["opt"].get("declare") == "durppq") else 0
                feats["mei_sig_" + d["opt"]["sig_loc"]] += 1
                feats["mei_short_layer"] += 1 if d["opt"].get("short") else 0
                feats["mei_decorated"] += 1 if d["opt"].get("decor") else 0
                feats["mei_spaces_without_id"] += 1 if (d["opt"].get("space_noid") and any(
                    e["t"] == "s" for st_ in a["staves"] for v in st_["voices"] for mm in v if mm for e in mm)) else 0
                cb = [(e, mm) for st_ in a["staves"] for v in st_["voices"] for mm in v if mm for e in mm if e.get("clefb")]
                feats["mei_clef_change_docs"] += 1 if cb else 0
                feats["mei_clef_change_in_beam_or_tuplet"] += 1 if any(
                    e.get("tup") or (d["opt"].get("beams") and e["v"] >= 8) for e, mm in cb) else 0
                if d.get("fine"):
                    feats["mei_finest_by_%s%s" % (d["fine"], "" if not d["opt"].get("ppq") else "(ppq declared)")] += 1
                for sh in xstaff_shapes(a, d["opt"]):
                    feats["mei_xstaff_" + sh] += 1
    errs = sum(1 for r in results for x in r["impl"] if x == "err")
    # sub-spine bookkeeping stream: observations and the shapes of the rows of spine paths they contain
    pbv = Counter()
    for r in results:
        for rq, im in zip(r.get("requests", []), r.get("impl", [])):
            if rq.startswith("kpbv code ") and isinstance(im, str) and im != "err":
                pbv["observations(code+sem)"] += 2
                trs = [[int(x) for x in tr.strip("[]").split(",") if x] for tr in im[1:-1].split("],[")]
                pbv["max_columns_of_a_spine=%d" % max([max(tr) for tr in trs if tr] or [0])] += 1
                for tr in trs:
                    for a, b2 in zip(tr, tr[1:]):
                        if b2 - a >= 2:
                            pbv["rows_adding_2_or_more_columns"] += 1
                        elif b2 - a <= -2:
                            pbv["rows_removing_2_or_more_columns"] += 1
                        elif b2 != a:
                            pbv["rows_changing_1_column"] += 1
    return {"by_kind": dict(c), "features": dict(feats), "error_observations": errs, "kern_subspine_bookkeeping": dict(pbv)}
