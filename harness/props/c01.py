"""C01 - a part is a consistent time-ordered collection under any edit history.

Reading (where the property text leaves a choice, the one under which the minimally repaired code is right):
* valid arguments: integer times; a NEGATIVE time point must be rejected with InvalidTimePointException and
  leave the part untouched; `add(o, start, end)` supplies a side only if `o` is not currently registered on
  that side (re-adding after `remove` is valid; `add(o, start)` followed by `add(o, end=...)` is valid and is
  the same as the one-call form); quarter durations are integers >= 1 set at times >= 0;
* "never empty": a time point without objects may exist only if its time was the argument of
  `get_or_add_point` since the point was created (the API creates such points on request);
* "in time order": the order among objects of ONE time point is not part of the property (the oracle checks
  one segment per time point, set equality inside a segment; the correspondence compares the exact sequence and
  Props/C01Order proves it: class-walk order, then insertion order);
* "integer" means exact: quarter durations / times that differ by 1 are different at EVERY magnitude (1e5, 2^24,
  2^31, 2^53 - 12, as Python or numpy integers); the code's own binary64 limit (interp1d) is 2^53, the generator
  stays below it;
* outside the property's quantifier but covered (round 5, Model/TimelineX.lean): TimePoint.add_*_object /
  remove_*_object called directly on a point of the part, the Slur.start_note / end_note setters, `which` / `mode`
  given as arbitrary strings or omitted, iter_all bounds given as int / numpy int / float / TimePoint.
  remove_*_object never cleans up: the point it empties is from then on an ALLOWED empty point (like a requested
  one) in the oracle's and the model's bookkeeping; when the point is NOT the one the object refers to, the oracle
  accepts either fate of the reference; an unknown `which` string is not a valid argument: the oracle only demands
  that a rejection is atomic and otherwise follows the part (the model pins today's behaviour: nothing happens);
  an unknown `mode` string means "starting" (the code says so in its warning);
* outside the property's quantifier but covered (round 6, Model/TimelineY.lean): the Tuplet.start_note / end_note
  setters (one TimePoint.remove_*_object at the point where the PREVIOUS note starts / ends - bookkeeping as for a
  direct remove_*_object); the class-query wrappers of Part (`notes`, `measures`, `rests`, ... - "class queries" of
  the property: the oracle judges them by their documentation, table DOC_VIEWS); `Part.number_of_staves`, a memo
  that only Part.add / Part.remove invalidate: the oracle demands the documented value (largest `staff` of the
  registered notes, clefs, directions, words; at least 1) whenever no direct TimePoint / Slur / Tuplet call happened
  since the last add / remove (after such a call - outside the quantifier - a stale memo is what the code does and
  is not judged); `TimedObject.duration` = end time - start time of the registered times, None unless both are
  registered (judged only when both point times are Python ints: a time handed over as a numpy scalar stays one in
  TimePoint.t and `duration` is then numpy arithmetic - an unsigned kind wraps when end < start);
  the six rich comparisons of TimePoints must be the comparisons of their times;
  the memo `_number_of_staves` is not part of "the part" in the frame conditions (reading number_of_staves fills it,
  a remove of an unregistered object resets it);
* "the next later change" of `set_quarter_duration(t, q)`: the next entry of `quarter_durations()` (as it was
  before the call) with a time > t;
* double registration (`add(o, start=5)` then `add(o, start=7)`) is OUTSIDE the property's quantifier, but the
  check covers it: the code moves `o.start` to the new point and leaves `o` listed by the old point as well.
  All clauses of the property except "only the point an object refers to lists it" must still hold (theorem
  `winv_reachable`), and the oracle checks them against a bookkeeping of LISTINGS (object, side, time) that
  follows `add_any_effect` / `remove_any_effect`; `remove` of an unregistered object must change nothing.

Correspondence: a random edit history is applied to a REAL `partitura.score.Part`; after EVERY operation
the full observable state (points with t/quarter/prev/next and both registries per class in order, every
object's start/end, quarter_durations(), the raw quarter lists, the cached quarter map at probe times) and
the operation's result are compared with the Lean model's answer (Model/Timeline.lean through drv_c01).
`quarter_duration_map` (fresh and cached) is additionally called on arbitrary rational times as scalar, list
and array; numpy's searchsorted / insert / delete on object arrays of TimePoints are compared with the modelled
algorithms (binary search, slice copies) on sorted AND unsorted arrays and on the part's own arrays.
Oracle: the invariant, the frame conditions, the set_quarter_duration law and query correctness evaluated on
the real part against this module's own bookkeeping of what is registered (independent of the Lean model).
"""
import os
import warnings
from fractions import Fraction

import wire as W
from core import Eval

PROPERTY = "C01"
DRIVER = "drv_c01"
PROPS = ["PartituraModel.Props.C01", "PartituraModel.Props.C01Any", "PartituraModel.Props.C01Np",
         "PartituraModel.Props.C01Classes", "PartituraModel.Props.C01X", "PartituraModel.Props.C01Order",
         "PartituraModel.Props.C01Buckets", "PartituraModel.Props.C01Y", "PartituraModel.Props.C01YQ"]
TRUSTED = [
    "numpy runs the textbook algorithms: np.searchsorted(side=left) = the binary search `bsearch`, np.insert/np.delete "
    "for one index = slice copies `npInsert/npDelete` (compared on sorted and unsorted TimePoint object arrays); that the "
    "model's prefix count / List.insertIdx / List.eraseIdx equal them on the part's sorted arrays is PROVED "
    "(bsearch_eq_searchsorted, timeline_np); that numpy compares the elements of an object array through the element's "
    "`__lt__` is trusted - that TimePoint.__lt__ and the other five rich comparisons (ComparableMixin lambdas, "
    "regenerated from the source) are the comparisons of t is PROVED (timepoint_compare, timepoint_order_total, "
    "searchsorted_through_lt) and compared (stream `cmp`)",
    "scipy interp1d(kind=previous, fill_value=(y0, y-1)) = value of the last table entry <= x (modelled by qdAtQ/qdAt, "
    "specified by quarterMap_correct; compared at every table/point time after every operation and at random rational "
    "times as scalar/list/array, fresh map and memo); interp1d works in binary64: times and quarter durations are exact "
    "below 2^53 only (the generator draws magnitudes up to 2^53 - 12 + small offsets; above 2^53 a new point's quarter "
    "is the rounded value - see PARTIAL)",
    "numpy integer scalars (int8 ... uint32, int64, intp) given as times / quarter durations compare and search like "
    "Python ints (compared: ~25% of the histories hand over numpy scalars of assorted widths)",
    "identity of TimePoint objects abstracted to their time (sound under the invariant: times are unique); the oracle "
    "checks prev/next/start/end by object identity on the real part",
    "class-keyed defaultdict(_OrderedSet) registries: the timeline model keeps one insertion-ordered list per side and "
    "filters per class; that this is a sound abstraction of the dictionary (keys created by reading included) is PROVED "
    "(registry_refinement, cleanup_test_sound, reading_is_harmless over Model/TimelineBuckets.lean, itself compared with "
    "a real TimePoint registry operation by operation); trusted: dict / defaultdict semantics (insertion-ordered keys, "
    "a missing key read appears empty); dict key order and empty buckets are not observable through the API and not compared",
    "harness/translate_classes.py: the class DAG, __subclasses__() order and iter_subclasses sequences are the live ones; "
    "harness/translate_c01sig.py: default argument values (inspect.signature), the initial quarter table and the accepted "
    "`which` / `mode` strings (behaviour of every string constant of the function on a two-object part) are the live ones; "
    "harness/translate_c01views.py: the (class, include_subclasses) pair of every Part property that is one iter_all call, "
    "the lambdas of ComparableMixin / the key order of _compare / TimePoint._cmpkey, the loops and the initial value of "
    "compute_number_of_staves are read from the live source by ast",
    "`staff` attributes do not change while an object is on the part (number_of_staves has no way to notice; the "
    "generator never changes them); `duration` on numpy-typed times is numpy scalar arithmetic (not modelled: the dump "
    "reports the exact difference of the two referenced times there)",
]
PARTIAL = [
    "histories with double registration of one side (outside Valid, ~15% of the generated ones): proved are WInv (all "
    "clauses but 'only the referenced point lists the object'), the exact effect on references and listings "
    "(add_any_effect, add_twice_effect, remove_any_effect, remove_unregistered_effect) and the query results per "
    "listing; that such a part is no longer 'exactly the collection of the registered objects' is what the code does "
    "(add_twice_effect proves the negation of Inv there) - the property excludes the call",
    "cls=None is modelled as `object` restricted to timed classes; objects of classes defined outside partitura.* are "
    "not generated (ClsOk: class ids of added objects are rows of the generated table)",
    "set_quarter_duration with a negative time is not rejected by the code; it is outside Valid/QDNonneg and not generated "
    "(the memo theorem cache_fresh_reachable needs no such hypothesis)",
    "TimePoint.add_*_object / remove_*_object called directly and the Slur.start_note / end_note setters ARE operations of "
    "the extended machine (tpAdd_effect, tpRemove_effect, slurStart_effect, slurEnd_effect, winvX_reachable); "
    "remove_*_object never cleans up, so the point may stay EMPTY: the model records it in the ghost field `requested` "
    "(= points allowed to be empty) - 'never empty' holds only in that weakened form after such a call (example in "
    "Props/C01X); the Tuplet setters (they need the per-object `_start_note` state) and Note.tie_next/tie_prev (no "
    "timeline effect) are not separate operations; the Tuplet setters ARE operations since round 6 (tuplet_setter_effect, "
    "tuplet_setter_inv, winvY_reachable) with the same weakened 'never empty'",
    "the memo _number_of_staves is proved fresh (staves_memo_fresh, number_of_staves_correct) along histories of operations "
    "that go through Part; after a direct TimePoint.add_*/remove_*_object or a Slur / Tuplet setter call it can be STALE "
    "(example in Props/C01Y: the code has no way to notice) - outside the property's quantifier, compared only; "
    "Part properties that filter or do more than one iter_all call (notes_tied, segments, the *_map properties) are not "
    "modelled (listed in Gen.C01Views.otherViews)",
    "non-termination of iter_prev/iter_next on cyclic links is modelled as an error value (never reached under WInv: "
    "iterPrev_any_history/iterNext_any_history show the walk succeeds in every reachable state)",
    "times and quarter durations above 2^53: get_or_add_point reads the quarter through the binary64 interp1d memo, so "
    "Part(quarter_duration=2^53) ; set_quarter_duration(2^53, 2^53+1) ; add(o, 2^53+1) gives the point quarter 2^53; "
    "not generated (proposed as an open finding in the round-5 report, no patch: it would retire the memo)",
]
RULE = ("random edit histories of 1-60 operations (add by start/end/both, remove start/end/both, set_quarter_duration, "
        "get_or_add_point, iter_all, iter_prev/next, first/last/get_point, quarter_durations with both bounds, "
        "quarter_duration_map on rational times as scalar/list/array, numpy searchsorted/insert/delete on TimePoint arrays) "
        "over 2-12 objects of 3-8 classes drawn from the whole TimedObject DAG (biased to GraceNote<Note<GenericNote and the "
        "multiply-inheriting direction classes), times from a pool of 2-6 small values (coincidences, first/last point, "
        "equal start/end), occasionally huge or negative; MAGNITUDES: 14% of the histories take their times and 20% their "
        "quarter durations from base + {-3..4} with base in 1e5 ... 2^24, 2^31, 2^32, 2^40, 2^53-12 (values differing by 1 "
        "at that scale), 25% hand over numpy integer scalars of assorted widths; ~15% of the histories register a side "
        "twice and remove unregistered objects; 45% are EXTENDED: TimePoint.add_*_object / remove_*_object on the part's "
        "points, Slur.start_note / end_note setters, remove with `which` omitted / 'start' / 'end' / 'both' / unknown "
        "strings, add with omitted times, iter_all with omitted arguments, unknown mode strings and bounds given as int / "
        "numpy int / float / own TimePoint / foreign TimePoint, Part(id) with the default quarter duration; a sweep over "
        "every class x include_subclasses x mode closes each history; 40% are ROUND-6 histories: objects carry `staff` "
        "attributes (None, 1..7), one or two are Tuplets, classes the wrappers ask for are planted, and 27% of their "
        "operations are Tuplet.start_note / end_note = note (None, registered or unregistered notes), a class-query wrapper "
        "(part.notes, .measures, ... all 12), part.number_of_staves (memo hit and recomputation), or the six rich "
        "comparisons of two TimePoints (equal, adjacent, arbitrary times); the dump after EVERY operation also holds every "
        "object's duration and the memo _number_of_staves; "
        "distinct = distinct (classes, operation list); non-trivial = at least one removal or quarter change succeeded "
        "on a non-empty timeline")
LEVEL_TEXT = ("Machine-checked proof (Lean 4) that the modelled timeline state machine keeps the full invariant along every "
              "valid history and the weak invariant (everything but 'only the referenced point lists the object') along "
              "EVERY history - also of the extended machine with direct TimePoint.add/remove_*_object calls and the Slur "
              "setters -, rejects negative times without effect, obeys the set_quarter_duration law, keeps the memoised "
              "quarter map equal to the map of the current table in every reachable state (the machine that reads the "
              "memo is proved equal to the memo-free one), evaluates quarter_duration_map as the step function of the "
              "table at arbitrary times, and answers queries with exactly the registered matching objects in time order "
              "- inside a point in class-walk order then insertion order, the registries being followed as lists through "
              "every operation - for arbitrary query classes (the MRO table is proved to be the reflexive-transitive "
              "closure of the __subclasses__() table) and bounds given in any accepted form; numpy's "
              "searchsorted/insert/delete are replaced by proved algorithm models; the model is tied to the code by a "
              "lock-step differential comparison of the complete observable state after every operation of random "
              "histories, and the class DAG, the default argument values and the accepted `which`/`mode` strings are "
              "regenerated from the live source and re-checked by kernel evaluation.  Round 6: the rich comparisons of "
              "TimePoints (lambdas regenerated from ComparableMixin) are proved to be the strict total order of the times "
              "that the search theorems assume; the class-query wrappers of Part (class and flag regenerated) are proved "
              "to return exactly the matching listed objects in time order and to ask for their documented classes; "
              "duration is proved to be the distance of the two listing points; the Tuplet setters are operations of "
              "the machine (weak invariant after every history); the memo _number_of_staves is a model component proved "
              "fresh after every history of operations that go through Part (compute_number_of_staves, loops "
              "regenerated, is proved to be a maximum that depends on the starting listings only).")
SEARCH_LIMIT = 6000

_CT = None


def _tables():
    """live class tables (same code as the translator) + live classes by id"""
    global _CT
    if _CT is None:
        import translate_classes as TC

        classes, _ = TC.timed_classes()
        t = TC.class_tables()
        _CT = (t, classes)
    return _CT


# ------------------------------------------------------------------ generator
# class groups by NAME (resolved to ids at generation time; unknown names are skipped)
NOTEISH = ["GenericNote", "Note", "GraceNote", "Rest", "UnpitchedNote"]
DIRS = ["Direction", "LoudnessDirection", "ConstantLoudnessDirection", "DynamicLoudnessDirection",
        "IncreasingLoudnessDirection", "ConstantDirection", "DynamicDirection", "TempoDirection",
        "ConstantTempoDirection", "ResetTempoDirection", "DynamicTempoDirection", "ImpulsiveLoudnessDirection",
        "ImpulsiveDirection", "DecreasingTempoDirection"]
OTHERS = ["TimedObject", "Measure", "Slur", "TimeSignature", "Harmony", "RomanNumeral", "Segment", "Clef"]


# magnitudes the small pools never reach: around 1e5 .. 1e9, float32 (2^24), int32 (2^31) and binary64 (2^53) limits
BIG = [10 ** 5, 3 * 10 ** 5, 10 ** 6, 2 ** 24 - 2, 2 ** 24, 10 ** 8, 2 ** 31 - 3, 2 ** 31, 10 ** 9, 2 ** 32, 2 ** 40,
       2 ** 53 - 12]
NPKINDS = [("int8", -2 ** 7, 2 ** 7 - 1), ("int16", -2 ** 15, 2 ** 15 - 1), ("int32", -2 ** 31, 2 ** 31 - 1),
           ("int64", -2 ** 63, 2 ** 63 - 1), ("uint8", 0, 2 ** 8 - 1), ("uint16", 0, 2 ** 16 - 1),
           ("uint32", 0, 2 ** 32 - 1), ("intp", -2 ** 63, 2 ** 63 - 1)]


def _np(v, op, j):
    """the argument v of operation op, as the numpy integer kind recorded at op[j] (if any)"""
    if v is None or len(op) <= j or op[j] is None:
        return v
    import numpy as np

    return getattr(np, op[j])(v)


def gen_history(rng, tier):
    t, _ = _tables()
    names = t["names"]
    ncls = len(names)
    idx = {n: i for i, n in enumerate(names)}
    r = rng.random()
    if r < 0.35:
        pool_names = NOTEISH + rng.sample(DIRS, 2) + rng.sample(OTHERS, 1)
    elif r < 0.7:
        pool_names = rng.sample(DIRS, 5) + rng.sample(NOTEISH, 2) + ["TimedObject"]
    else:
        pool_names = [names[rng.randrange(ncls)] for _ in range(6)] + rng.sample(NOTEISH, 1)
    cpool = [idx[n] for n in pool_names if n in idx] or [0]
    ccount = rng.randint(3, min(8, len(cpool)))
    cpool = rng.sample(cpool, ccount) if len(cpool) >= ccount else cpool
    nobj = rng.randint(2, 12)
    cls = [rng.choice(cpool) for _ in range(nobj)]
    # query classes: the pool, their ancestors, sometimes anything
    anc = sorted(set(a for c in cpool for a in t["mro"][c]))
    k = rng.randint(2, 6)
    tpool = sorted(rng.sample(range(0, 12), k))
    if rng.random() < 0.15:
        tpool.append(rng.choice([10 ** 6, 2 ** 40, 255, 65536]))
    # MAGNITUDES: times and quarter durations that are large and differ by 1 at that scale (exact integers are
    # demanded: a tolerance-based or float32 comparison shows only there); all values stay <= 2^53 (binary64
    # exactness of scipy's interp1d is TRUSTED, see module TRUSTED)
    qpool = [1, 1, 2, 3, 4, 12, 480]
    q0 = rng.choice([1, 1, 4, 480])
    if rng.random() < 0.14:
        base = rng.choice(BIG)
        tpool = sorted(set(rng.sample(range(0, 4), 2) + [base + d for d in rng.sample(range(-3, 5), k)]))
    if rng.random() < 0.2:
        qb = rng.choice(BIG)
        qpool = [qb + d for d in (-2, -1, 0, 0, 1, 1, 2, 3)] + [1, qb + qb // 10 ** 6]
        q0 = rng.choice(qpool)
    npish = rng.random() < 0.25   # arguments handed over as numpy integers of assorted widths

    def nk(v):
        """numpy integer kind for the argument v (None = plain int)"""
        if not npish or v is None or rng.random() < 0.5:
            return None
        fit = [n for n, lo, hi in NPKINDS if lo <= v <= hi]
        return rng.choice(fit) if fit else None

    def time_(neg_ok=True):
        x = rng.random()
        if neg_ok and x < 0.03:
            return rng.choice([-1, -2, -7])
        if x < 0.06:
            return rng.randrange(0, 30)
        return rng.choice(tpool)

    def qcls():
        x = rng.random()
        if x < 0.45:
            return rng.choice(cpool)
        if x < 0.85:
            return rng.choice(anc)
        if x < 0.93:
            return rng.randrange(ncls)
        return None

    def bound():
        x = rng.random()
        if x < 0.35:
            return None
        return time_()

    nops = rng.randint(1, 60) if rng.random() < 0.85 else rng.randint(1, 8)
    lenient = rng.random() < 0.15  # histories with double registration (outside Valid; WInv + listings oracle)
    reg = [[None, None] for _ in range(nobj)]
    ops = []
    # round 5: TimePoint methods called directly, the Slur setters, string / omitted arguments, bound forms
    extended = rng.random() < 0.45
    # round 6: Tuplet setters, the class-query wrappers (part.notes, ...), number_of_staves (a memo), comparisons
    ext6 = rng.random() < 0.4
    staff = [None] * nobj
    tuplets = []
    tupnote = {}
    if ext6:
        staff = [rng.choice([None, None, 1, 1, 2, 3, 4, 7]) for _ in range(nobj)]
        if "Tuplet" in idx and rng.random() < 0.6:
            for _ in range(rng.randint(1, 2)):
                cls[rng.randrange(nobj)] = idx["Tuplet"]
            tuplets = [i for i in range(nobj) if cls[i] == idx["Tuplet"]]
            tupnote = {i: [None, None] for i in tuplets}
        # the wrappers ask for fixed classes: put some of them on the timeline
        for nm in rng.sample(VIEW_CLASSES, 3):
            if nm in idx and rng.random() < 0.5:
                j = rng.randrange(nobj)
                if j not in tuplets:
                    cls[j] = idx[nm]
    slurs = []
    if extended and "Slur" in idx and rng.random() < 0.6:
        for _ in range(rng.randint(1, 2)):
            j = rng.randrange(nobj)
            if j not in tuplets:
                cls[j] = idx["Slur"]
        slurs = [i for i in range(nobj) if cls[i] == idx["Slur"]]

    def bform(allow_none=True):
        """a bound of iter_all in one of the accepted forms: [form, numerator, denominator]"""
        y = rng.random()
        if allow_none and y < 0.25:
            return ["-", 0, 1]
        t_ = time_()
        y = rng.random()
        if y < 0.25:
            return ["int", t_, 1]
        if y < 0.45:
            return ["np", t_, 1, nk2(t_)]
        if y < 0.65:
            h = 2 * t_ + rng.choice([-1, 1, 1])
            if abs(h) < 2 ** 53:
                return [rng.choice(["float", "tpf"]), h, 2]
            return ["float", t_, 1]
        if y < 0.85:
            return ["tp", t_, 1]      # the part's own TimePoint at t_ when there is one, else a foreign TimePoint(t_)
        return ["tpf", t_, 1]         # a TimePoint that is not on the timeline

    def nk2(v):
        fit = [n for n, lo, hi in NPKINDS if lo <= v <= hi]
        return rng.choice(fit) if fit else None

    for _ in range(nops):
        x = rng.random()
        if ext6 and rng.random() < 0.27:
            y = rng.random()
            if y < 0.3 and tuplets:
                tu = rng.choice(tuplets)
                sd = rng.randrange(2)
                cand = [i for i in range(nobj) if reg[i][sd] is not None and i != tu]
                nt = None if rng.random() < 0.12 else (rng.choice(cand) if cand and rng.random() < 0.8
                                                      else rng.randrange(nobj))
                old = tupnote[tu][sd]
                if nt is not None and reg[nt][sd] is not None and old is not None and reg[old][sd] is not None:
                    reg[tu][sd] = None
                tupnote[tu][sd] = nt
                ops.append(["tupS" if sd == 0 else "tupE", tu, nt])
            elif y < 0.55:
                ops.append(["view", rng.choice(VIEW_NAMES)])
            elif y < 0.85:
                ops.append(["staves"])
            else:
                a_ = time_(neg_ok=False)
                ops.append(["cmp", a_, rng.choice([a_, a_ + 1, a_ - 1, time_(neg_ok=False), rng.randrange(0, 30)])])
            continue
        if extended and rng.random() < 0.3:
            y = rng.random()
            if y < 0.2:
                # tp.add_*_object: inside Valid only on a free side
                sd = rng.randrange(2)
                cand = [i for i in range(nobj) if reg[i][sd] is None]
                if lenient or not cand:
                    cand = list(range(nobj))
                o = rng.choice(cand)
                used = sorted(set(v for r in reg for v in r if v is not None))
                t_ = rng.choice(used) if used and rng.random() < 0.85 else time_()
                if t_ >= 0:
                    reg[o][sd] = t_
                ops.append(["tpadd", sd, t_, o])
            elif y < 0.4:
                # tp.remove_*_object: mostly on the point the object refers to (what the Slur/Tuplet setters do)
                sd = rng.randrange(2)
                cand = [i for i in range(nobj) if reg[i][sd] is not None]
                if cand and not (lenient and rng.random() < 0.4):
                    o = rng.choice(cand)
                    t_ = reg[o][sd]
                else:
                    o = rng.randrange(nobj)
                    t_ = time_()
                reg[o][sd] = None
                ops.append(["tprm", sd, t_, o])
            elif y < 0.55 and slurs:
                sl = rng.choice(slurs)
                nt = rng.randrange(nobj)
                if rng.random() < 0.4:
                    reg[sl][0] = None
                    ops.append(["slurS", sl, nt])
                else:
                    reg[sl][1] = reg[nt][1]
                    ops.append(["slurE", sl, nt])
            elif y < 0.7:
                cand = [i for i in range(nobj) if reg[i][0] is not None or reg[i][1] is not None] or list(range(nobj))
                o = rng.choice(cand)
                w = rng.choice([None, None, "start", "end", "both", "Both", "starting", "", "s", "all"])
                if w in (None, "both", "start"):
                    reg[o][0] = None
                if w in (None, "both", "end"):
                    reg[o][1] = None
                ops.append(["rmx", o, w])
            elif y < 0.82:
                cand = [i for i in range(nobj) if reg[i][0] is None and reg[i][1] is None] or list(range(nobj))
                o = rng.choice(cand)
                st = rng.choice(["_", "_", None, time_(), time_()])
                en = rng.choice(["_", "_", None, time_(), time_()])
                if all(v in ("_", None) or v >= 0 for v in (st, en)):
                    if st not in ("_", None):
                        reg[o][0] = st
                    if en not in ("_", None):
                        reg[o][1] = en
                ops.append(["addd", o, st, en])
            else:
                c = qcls()
                ops.append(["allx", c, bform(), bform(), rng.choice(["_", "_", True, False]),
                            rng.choice(["_", "_", "starting", "ending", "ending", "Ending", "end", ""])])
            continue
        if x < 0.28:
            # add: prefer an object with a free side
            cand = [i for i in range(nobj) if reg[i][0] is None or reg[i][1] is None]
            if not cand or (lenient and rng.random() < 0.3):
                cand = list(range(nobj))
            o = rng.choice(cand)
            free_s, free_e = reg[o][0] is None, reg[o][1] is None
            if lenient and rng.random() < 0.5:
                free_s = free_e = True
            y = rng.random()
            s = e = None
            if free_s and free_e:
                if y < 0.55:
                    s = time_()
                    z = rng.random()
                    e = s if z < 0.3 else (time_() if z < 0.9 else (s + rng.randint(0, 3) if s >= 0 else 0))
                elif y < 0.8:
                    s = time_()
                else:
                    e = time_()
            elif free_s:
                s = time_()
            elif free_e:
                e = time_()
            else:
                continue
            if (s is None or s >= 0) and (e is None or e >= 0):
                if s is not None:
                    reg[o][0] = s
                if e is not None:
                    reg[o][1] = e
            ops.append(["add", o, s, e] + ([nk(s), nk(e)] if npish else []))
        elif x < 0.49:
            cand = [i for i in range(nobj) if reg[i][0] is not None or reg[i][1] is not None]
            if not cand or rng.random() < (0.25 if lenient else 0.08):
                cand = list(range(nobj))
            o = rng.choice(cand)
            w = rng.choice(["s", "e", "b", "b"])
            if w in "sb":
                reg[o][0] = None
            if w in "eb":
                reg[o][1] = None
            ops.append(["rm", o, w])
        elif x < 0.59:
            t_, q_ = time_(neg_ok=False), rng.choice(qpool)
            ops.append(["qd", t_, q_] + ([nk(t_), nk(q_)] if npish else []))
        elif x < 0.64:
            t_ = time_()
            ops.append(["goa", t_] + ([nk(t_)] if npish else []))
        elif x < 0.77:
            c = qcls()
            if c is None and rng.random() < 0.6:
                c = rng.choice(cpool)
            ops.append(["all", c, bound(), bound(), rng.random() < 0.6,
                        rng.choice(["starting", "starting", "ending", "ending", "ending", "foo"])])
        elif x < 0.85:
            c = qcls()
            if c is None and rng.random() < 0.8:
                c = rng.choice(anc)
            ops.append([rng.choice(["prev", "next"]), time_(), c, rng.random() < 0.5, rng.random() < 0.6])
        elif x < 0.88:
            ops.append([rng.choice(["first", "last"])])
        elif x < 0.91:
            t_ = time_()
            ops.append(["gp", t_] + ([nk(t_)] if npish else []))
        elif x < 0.945:
            a = bound()
            b = bound()
            if a is not None and b is not None and rng.random() < 0.5:
                a, b = min(a, b), max(a, b) + rng.randint(0, 6)
            ops.append(["qds", a, b])
        elif x < 0.975:
            # quarter_duration_map at arbitrary (non-point, rational) times: [numerator, denominator] pairs
            xs = []
            for _ in range(rng.randint(1, 5)):
                y = rng.random()
                if y < 0.35:
                    xs.append([time_(neg_ok=False), 1])
                elif y < 0.65:
                    h = 2 * time_(neg_ok=False) + rng.choice([-1, 1])
                    xs.append([h, 2] if abs(h) < 2 ** 53 else [h // 2, 1])   # must be exact in binary64
                elif y < 0.85:
                    xs.append([rng.randrange(0, 100), 8])
                elif y < 0.93:
                    xs.append([-rng.randrange(1, 9), rng.choice([1, 2, 4])])
                else:
                    xs.append([rng.choice([10 ** 6, 2 ** 40 + 1, 65537]), rng.choice([1, 2])])
            ops.append(["qmap", xs, rng.choice(["scalar", "list", "array", "array", "array2d"])])
        else:
            # numpy primitives on TimePoint object arrays (stateless), or on the part's own arrays
            y = rng.random()
            n = rng.randint(0, 9)
            arr = [rng.randint(0, 12) for _ in range(n)]
            if rng.random() < 0.7:
                arr.sort()
                if rng.random() < 0.6:
                    arr = sorted(set(arr))
            if y < 0.3:
                ops.append(["npstate", time_(neg_ok=False) if rng.random() < 0.8 else rng.randrange(0, 30)])
            elif y < 0.6:
                ops.append(["np_ss", arr, rng.randint(-1, 13)])
            elif y < 0.8:
                ops.append(["np_ins", arr, rng.randint(0, len(arr) + 1), rng.randint(0, 12)])
            else:
                ops.append(["np_del", arr, rng.randint(0, len(arr) + 1)])
    ops.append(["sweep", bound() if rng.random() < 0.5 else None, bound() if rng.random() < 0.5 else None,
                rng.random() < 0.12])
    if extended and rng.random() < 0.3:
        q0 = None      # Part(id): the default quarter duration
    d = {"q0": q0, "cls": cls, "ops": ops}
    if ext6:
        d["staff"] = staff
    return d


# the documented meaning of the class-query wrappers of Part (docstrings of the properties): name -> (class,
# subclasses included).  The ORACLE uses this table; the model uses the one regenerated from the source.
DOC_VIEWS = {"notes": ("Note", True), "measures": ("Measure", False), "rests": ("Rest", False),
             "cadences": ("Cadence", False), "repeats": ("Repeat", False), "key_sigs": ("KeySignature", False),
             "time_sigs": ("TimeSignature", False), "dynamics": ("LoudnessDirection", True),
             "tempo_directions": ("TempoDirection", True), "harmony": ("Harmony", True), "phrases": ("Phrase", False),
             "articulations": ("ArticulationDirection", True)}
VIEW_NAMES = sorted(DOC_VIEWS) + ["notes", "dynamics", "harmony", "tempo_directions"]
VIEW_CLASSES = sorted(set(v[0] for v in DOC_VIEWS.values())) + ["GraceNote", "ChordSymbol", "RomanNumeral", "Clef", "Words"]
# number_of_staves (docstring of Part / compute_number_of_staves): the largest `staff` of the notes (any GenericNote),
# clefs, directions (any Direction) and words on the part, at least 1
STAVES_CLASSES = [("GenericNote", True), ("Clef", False), ("Direction", True), ("Words", False)]


def gen_buckets(rng):
    """operations on ONE registry (the starting objects of one time point kept alive by a sentinel): the
    class-keyed defaultdict of ordered sets against Model/TimelineBuckets.lean"""
    t, _ = _tables()
    names = t["names"]
    idx = {n: i for i, n in enumerate(names)}
    pool = [idx[n] for n in rng.sample(NOTEISH, 3) + rng.sample(DIRS, 2) + ["TimedObject"] if n in idx]
    nobj = rng.randint(1, 8)
    cls = [rng.choice(pool) for _ in range(nobj)]
    anc = sorted(set(a for c in pool for a in t["mro"][c]))
    ops = []
    for _ in range(rng.randint(1, 40)):
        x = rng.random()
        if x < 0.35:
            ops.append(["badd", rng.randrange(nobj)])
        elif x < 0.5:
            ops.append(["brmt", rng.randrange(nobj)])
        elif x < 0.65:
            ops.append(["brmk", rng.randrange(nobj)])
        elif x < 0.9:
            y = rng.random()
            c = rng.choice(pool) if y < 0.4 else (rng.choice(anc) if y < 0.8 else (None if y < 0.9 else rng.randrange(len(names))))
            ops.append(["biter", c, True if c is None else rng.random() < 0.6])
        else:
            ops.append(["btotal"])
    return {"kind": "buckets", "cls": cls, "ops": ops}


def gen_open(rng):
    """OPEN class hierarchy (round 6, seed C01-l): classes of timed objects defined DURING the history, after queries
    have already been made (`type(name, (parent,), {})` of a random timed class or of an earlier new class), instances
    of them added, and the class / interval / neighbour queries asked for their ancestors, for None and for the new
    classes themselves.  Judged by the oracle alone (isinstance / type on the registered objects): the class tables of
    the Lean model are closed, so these cases send no requests to the driver.
    class reference: a name of partitura.score, or an int k = the k-th class defined by the history; None = no class"""
    base = rng.sample(NOTEISH, 2) + rng.sample(DIRS, 2) + rng.sample(OTHERS, 2)
    known = list(base)          # class references usable so far
    nnew = 0
    nobj = 0
    ops = []
    tpool = sorted(rng.sample(range(0, 12), rng.randint(2, 5)))

    def anc_of(c):
        return ["anc", c, rng.randrange(0, 4)]      # the j-th timed ancestor of c (clamped), resolved at run time

    def qref():
        x = rng.random()
        c = rng.choice(known)
        if x < 0.5:
            return anc_of(c)
        if x < 0.75:
            return c
        if x < 0.9:
            return None
        return "TimedObject"

    def query():
        x = rng.random()
        if x < 0.6 or nobj == 0:
            b = sorted(rng.sample(tpool + [0, 13], 2))
            return ["all", qref(), rng.random() < 0.75, rng.choice(["starting", "ending"]),
                    b[0] if rng.random() < 0.3 else None, b[1] if rng.random() < 0.3 else None]
        return [rng.choice(["prev", "next"]), rng.choice(tpool), qref(), rng.random() < 0.5, rng.random() < 0.75]

    for c in rng.sample(base, 3):
        s = rng.choice(tpool)
        ops.append(["add", c, s, rng.choice([None, s + rng.randint(0, 4)])])
        nobj += 1
    for _ in range(rng.randint(2, 30)):
        x = rng.random()
        if x < 0.2:
            par = rng.choice(known)
            if rng.random() < 0.85:
                # a query for an ancestor of the parent BEFORE the class exists (a memo of the family would be filled)
                q = query()
                q[1 if q[0] == "all" else 2] = rng.choice([anc_of(par), par, None])
                q[2 if q[0] == "all" else 4] = True
                ops.append(q)
            ops.append(["new", par])
            known.append(nnew)
            if rng.random() < 0.9:
                s = rng.choice(tpool)
                ops.append(["add", nnew, s, rng.choice([None, s, s + rng.randint(1, 4)])])
                nobj += 1
            nnew += 1
        elif x < 0.4:
            s = rng.choice(tpool)
            y = rng.random()
            ops.append(["add", rng.choice(known), s if y < 0.85 else None,
                        (s + rng.randint(0, 4)) if y < 0.5 or y >= 0.85 else None])
            nobj += 1
        elif x < 0.5 and nobj:
            ops.append(["rm", rng.randrange(nobj), rng.choice(["start", "end", "both", "both"])])
        else:
            ops.append(query())
    ops.append(["all", None, True, "starting", None, None])
    ops.append(["all", "TimedObject", True, "ending", None, None])
    return {"kind": "openclass", "cls": [], "ops": ops}


def cases(rng, tier):
    n = {"quick": 300, "thorough": 20000, "search": 6000}.get(tier, 300)
    for _ in range(n):
        x = rng.random()
        if x < 0.07:
            yield gen_buckets(rng)
        elif x < 0.13:
            yield gen_open(rng)
        else:
            yield gen_history(rng, tier)


# ------------------------------------------------------------------ running the real code
def _mk(cls):
    import partitura.score as S

    o = cls.__new__(cls)
    S.TimedObject.__init__(o)
    return o


def _num(x):
    """canonical text of something that should be a python/numpy integer"""
    import numbers

    if isinstance(x, bool) or not isinstance(x, numbers.Integral):
        if isinstance(x, float) and x == int(x):
            return "%d" % int(x)
        return "?" + type(x).__name__
    return "%d" % int(x)


class Ctx:
    def __init__(self, desc):
        import partitura.score as S

        self.S = S
        t, classes = _tables()
        self.t = t
        self.classes = classes
        self.cid = {c: i for i, c in enumerate(classes)}
        self.part = S.Part("P") if desc["q0"] is None else S.Part("P", quarter_duration=desc["q0"])
        self.objs = [_mk(classes[c]) for c in desc["cls"]]
        for o in self.objs:
            # what the Slur setters touch on the note handed to them (GenericNote.__init__ creates them)
            o.slur_starts = []
            o.slur_stops = []
            # what the Tuplet setters touch (GenericNote.__init__ / Tuplet.__init__ create them)
            o.tuplet_starts = []
            o.tuplet_stops = []
            o._start_note = None
            o._end_note = None
        for o, st in zip(self.objs, desc.get("staff") or [None] * len(self.objs)):
            o.staff = st
        self.oid = {id(o): i for i, o in enumerate(self.objs)}

    # ---- canonical dump of the real part (the same text Driver/C01.lean prints)
    def reg_text(self, d):
        rows = []
        for cls, oset in d.items():
            if len(oset):
                rows.append((self.cid.get(cls, 10 ** 6), [self.oid.get(id(o), 10 ** 6) for o in oset]))
        rows.sort(key=lambda r: r[0])
        return "[" + ",".join("(%d,[%s])" % (c, ",".join("%d" % i for i in ids)) for c, ids in rows) + "]"

    def dump(self):
        p = self.part
        pts = []
        for tp in p._points:
            pts.append("(%s,%s,%s,%s,%s,%s)" % (
                _num(tp.t), _num(tp.quarter),
                "-" if tp.prev is None else _num(tp.prev.t), "-" if tp.next is None else _num(tp.next.t),
                self.reg_text(tp.starting_objects), self.reg_text(tp.ending_objects)))
        ob = ["(%s,%s)" % ("-" if o.start is None else _num(o.start.t), "-" if o.end is None else _num(o.end.t))
              for o in self.objs]
        try:
            qd = ["(%s,%s)" % (_num(r[0]), _num(r[1])) for r in p.quarter_durations().tolist()]
        except Exception as e:
            qd = ["err:" + type(e).__name__]
        qt, qv = list(p._quarter_times), list(p._quarter_durations)
        try:
            probes = [int(x) for x in qt] + [int(tp.t) for tp in p._points] + [(int(qt[-1]) + 1) if qt else 0, -1]
        except Exception:
            probes = []
        m = []
        for x in probes:
            try:
                v = float(p._quarter_map(x))
                m.append("%d" % int(v) if v == int(v) else "?%r" % v)
            except Exception as e:
                m.append("err:" + type(e).__name__)
        du = []
        for o in self.objs:
            try:
                if o.start is not None and o.end is not None and not (type(o.start.t) is int and type(o.end.t) is int):
                    # a time handed over as a numpy scalar stays one in TimePoint.t; `end.t - start.t` is then numpy
                    # arithmetic (an unsigned kind wraps when end < start) - not modelled: the exact difference of
                    # the two referenced times is reported instead of the property's value
                    v = int(o.end.t) - int(o.start.t)
                else:
                    v = self.S.TimedObject.duration.fget(o)
                du.append("-" if v is None else _num(v))
            except Exception as e:
                du.append("err:" + type(e).__name__)
        ns = getattr(p, "_number_of_staves", "?")
        return ("P[" + ",".join(pts) + "];O[" + ",".join(ob) + "];Q[" + ",".join(qd) + "];QT[" +
                ",".join(_num(x) for x in qt) + "];QD[" + ",".join(_num(x) for x in qv) + "];M[" + ",".join(m) +
                "];D[" + ",".join(du) + "];S" + ("-" if ns is None else _num(ns)))

    def ids(self, it):
        return [self.oid.get(id(o), 10 ** 6) for o in it]

    def cls_of(self, c):
        return object if c is None else self.classes[c]


def _o(x):
    return "-" if x is None else "%d" % x


def request_of(op):
    k = op[0]
    if k == "add":
        return "add %d %s %s" % (op[1], _o(op[2]), _o(op[3]))
    if k == "rm":
        return "rm %d %s" % (op[1], op[2])
    if k == "qd":
        return "qd %d %d" % (op[1], op[2])
    if k == "goa":
        return "goa %d" % op[1]
    if k == "all":
        return "all %s %s %s %s %s" % (_o(op[1]), _o(op[2]), _o(op[3]), W.b(op[4]), W.s(op[5]))
    if k in ("prev", "next"):
        return "%s %d %s %s %s" % (k, op[1], _o(op[2]), W.b(op[3]), W.b(op[4]))
    if k in ("first", "last"):
        return k
    if k == "gp":
        return "gp %d" % op[1]
    if k == "qds":
        return "qds %s %s" % (_o(op[1]), _o(op[2]))
    if k == "sweep":
        return "sweep %s %s %s" % (_o(op[1]), _o(op[2]), W.b(op[3]))
    if k == "qmap":
        xs = op[1][:1] if op[2] == "scalar" else op[1]
        return "qmap " + W.lst(lambda nd: W.q(Fraction(nd[0], nd[1])), xs)
    if k == "np_ss":
        return "np ss %s %d" % (W.lst(W.i, op[1]), op[2])
    if k == "np_ins":
        return "np ins %s %d %d" % (W.lst(W.i, op[1]), op[2], op[3])
    if k == "np_del":
        return "np del %s %d" % (W.lst(W.i, op[1]), op[2])
    if k == "npstate":
        return "npstate %d" % op[1]
    if k in ("tpadd", "tprm"):
        return "%s %s %d %d" % (k, "se"[op[1]], op[2], op[3])
    if k in ("slurS", "slurE"):
        return "%s %d %d" % (k, op[1], op[2])
    if k == "rmx":
        return "rmx %d %s" % (op[1], "-" if op[2] is None else W.s(op[2]))
    if k == "addd":
        return "addd %d %s %s" % (op[1], "_" if op[2] == "_" else _o(op[2]), "_" if op[3] == "_" else _o(op[3]))
    if k == "allx":
        def bd(b):
            if b[0] == "-":
                return "-"
            return ("p " if b[0] in ("tp", "tpf") else "n ") + W.q(Fraction(b[1], b[2]))
        return "allx %s %s %s %s %s" % (_o(op[1]), bd(op[2]), bd(op[3]), "_" if op[4] == "_" else W.b(op[4]),
                                        "_" if op[5] == "_" else W.s(op[5]))
    if k in ("tupS", "tupE"):
        return "%s %d %s" % (k, op[1], _o(op[2]))
    if k == "view":
        return "view %s" % W.s(op[1])
    if k == "staves":
        return "staves"
    if k == "cmp":
        return "cmp %d %d" % (op[1], op[2])
    raise ValueError(k)


def _ilist(xs):
    return "[" + ",".join("%d" % x for x in xs) + "]"


def perform(cx, op):
    """run one operation on the real part; returns (result text, raw result for the oracle)"""
    p, k = cx.part, op[0]
    S = cx.S
    WHICH = {"s": "start", "e": "end", "b": "both"}
    if k == "add":
        p.add(cx.objs[op[1]], _np(op[2], op, 4), _np(op[3], op, 5))
        return "ok", None
    if k == "rm":
        p.remove(cx.objs[op[1]], WHICH[op[2]])
        return "ok", None
    if k == "qd":
        p.set_quarter_duration(_np(op[1], op, 3), _np(op[2], op, 4))
        return "ok", None
    if k == "goa":
        tp = p.get_or_add_point(_np(op[1], op, 2))
        return "pt:" + _num(tp.t), tp
    if k == "all":
        kw = {}
        a, b = op[2], op[3]
        # sometimes hand over the part's own TimePoint instead of a number
        if a is not None and a >= 0 and (a + len(p._points)) % 3 == 0:
            tp = p.get_point(a)
            a = tp if tp is not None else a
        if op[1] is not None:
            kw["cls"] = cx.classes[op[1]]
        res = list(p.iter_all(start=a, end=b, include_subclasses=op[4], mode=op[5], **kw))
        return "objs:" + _ilist(cx.ids(res)), res
    if k in ("prev", "next"):
        tp = p.get_point(op[1])
        if tp is None:
            return "nopoint", None
        f = tp.iter_prev if k == "prev" else tp.iter_next
        res = list(f(cx.cls_of(op[2]), eq=op[3], include_subclasses=op[4]))
        return "objs:" + _ilist(cx.ids(res)), res
    if k == "first":
        tp = p.first_point
        return "pt:" + ("-" if tp is None else _num(tp.t)), tp
    if k == "last":
        tp = p.last_point
        return "pt:" + ("-" if tp is None else _num(tp.t)), tp
    if k == "gp":
        tp = p.get_point(_np(op[1], op, 2))
        return "pt:" + ("-" if tp is None else _num(tp.t)), tp
    if k == "qds":
        res = p.quarter_durations(op[1], op[2]).tolist()
        return "qds:[" + ",".join("(%s,%s)" % (_num(r[0]), _num(r[1])) for r in res) + "]", res
    if k == "sweep":
        rows = []
        raw = {}
        clss = ([None] if op[3] else []) + list(range(len(cx.classes)))
        for c in clss:
            cell = []
            for incl, mode in ((False, "starting"), (False, "ending"), (True, "starting"), (True, "ending")):
                kw = {} if c is None else {"cls": cx.classes[c]}
                res = list(p.iter_all(start=op[1], end=op[2], include_subclasses=incl, mode=mode, **kw))
                raw[(c, incl, mode)] = res
                cell.append(_ilist(cx.ids(res)))
            rows.append("[" + ",".join(cell) + "]")
        return "sweep:[" + ",".join(rows) + "]", raw
    if k == "qmap":
        import numpy as np

        fr = [Fraction(n, d) for n, d in op[1]]
        fl = [float(x) for x in fr]  # denominators are powers of two: exact
        if op[2] == "scalar":
            arg = fl[0] if fr[0].denominator != 1 else int(fr[0])
            fr = fr[:1]
        elif op[2] == "list":
            arg = [int(x) if x.denominator == 1 else float(x) for x in fr]
        elif op[2] == "array2d":
            arg = np.array([fl, fl])
        else:
            arg = np.array(fl)
        fresh = np.asarray(p.quarter_duration_map(arg), dtype=float)
        cached = np.asarray(p._quarter_map(arg), dtype=float)
        if op[2] == "array2d":
            shape_ok = fresh.shape == (2, len(fl)) and bool((fresh[0] == fresh[1]).all())
            fresh, cached = fresh[0], cached[0]
        else:
            shape_ok = fresh.shape == (() if op[2] == "scalar" else (len(fr),))
        fv = [float(v) for v in fresh.reshape(-1)]
        cv = [float(v) for v in cached.reshape(-1)]
        def tx(vs):
            return "qmap:[" + ",".join(("%d" % int(v)) if v == int(v) else "?%r" % v for v in vs) + "]"

        return tx(fv) + "/" + tx(cv), {"x": fr, "fresh": fv, "cached": cv, "shape_ok": shape_ok}
    if k in ("tpadd", "tprm"):
        tp = p.get_point(op[2])
        if tp is None:
            return "nopoint", None
        o = cx.objs[op[3]]
        if k == "tpadd":
            (tp.add_starting_object if op[1] == 0 else tp.add_ending_object)(o)
        else:
            (tp.remove_starting_object if op[1] == 0 else tp.remove_ending_object)(o)
        return "ok", tp
    if k == "slurS":
        S.Slur.start_note.__set__(cx.objs[op[1]], cx.objs[op[2]])
        return "ok", None
    if k == "slurE":
        S.Slur.end_note.__set__(cx.objs[op[1]], cx.objs[op[2]])
        return "ok", None
    if k == "rmx":
        if op[2] is None:
            p.remove(cx.objs[op[1]])
        else:
            p.remove(cx.objs[op[1]], op[2])
        return "ok", None
    if k == "addd":
        kw = {}
        if op[2] != "_":
            kw["start"] = op[2]
        if op[3] != "_":
            kw["end"] = op[3]
        p.add(cx.objs[op[1]], **kw)
        return "ok", None
    if k == "allx":
        import numpy as np

        def arg(b):
            x = Fraction(b[1], b[2])
            if b[0] == "int":
                return int(x)
            if b[0] == "np":
                return getattr(np, b[3])(int(x)) if b[3] else int(x)
            if b[0] == "float":
                return float(x)
            if b[0] == "tp":
                tp = p.get_point(int(x)) if x >= 0 else None
                return tp if tp is not None else S.TimePoint(int(x))
            return S.TimePoint(int(x) if x.denominator == 1 else float(x))

        kw = {}
        if op[1] is not None:
            kw["cls"] = cx.classes[op[1]]
        if op[2][0] != "-":
            kw["start"] = arg(op[2])
        if op[3][0] != "-":
            kw["end"] = arg(op[3])
        if op[4] != "_":
            kw["include_subclasses"] = op[4]
        if op[5] != "_":
            kw["mode"] = op[5]
        res = list(p.iter_all(**kw))
        return "objs:" + _ilist(cx.ids(res)), res
    if k in ("tupS", "tupE"):
        prop = S.Tuplet.start_note if k == "tupS" else S.Tuplet.end_note
        prop.__set__(cx.objs[op[1]], None if op[2] is None else cx.objs[op[2]])
        return "ok", None
    if k == "view":
        res = getattr(p, op[1])
        return "objs:" + _ilist(cx.ids(res)), res
    if k == "staves":
        r = p.number_of_staves
        return "n:" + _num(r), r
    if k == "cmp":
        a, b = S.TimePoint(op[1]), S.TimePoint(op[2])
        r = [a < b, a <= b, a == b, a >= b, a > b, a != b]
        return "cmp:[" + ",".join(("1" if v else "0") if isinstance(v, bool) else "?" for v in r) + "]", r
    if k in ("np_ss", "np_ins", "np_del"):
        import numpy as np

        S = cx.S
        arr = np.array([S.TimePoint(t) for t in op[1]], dtype=object) if op[1] else np.array([], dtype=S.TimePoint)
        try:
            if k == "np_ss":
                r = int(np.searchsorted(arr, S.TimePoint(op[2])))
                return "np:%d" % r, r
            if k == "np_ins":
                r = [tp.t for tp in np.insert(arr, op[2], S.TimePoint(op[3]))]
            else:
                r = [tp.t for tp in np.delete(arr, op[2])]
            return "np:" + _ilist(r), r
        except IndexError:
            return "np:-", None
    if k == "npstate":
        import numpy as np

        a = int(np.searchsorted(p._points, cx.S.TimePoint(op[1])))
        b = int(np.searchsorted(p._quarter_times, op[1]))
        return "np:(%d,%d,%d,%d,%d)" % (a, a, b, b, a), (a, b)
    raise ValueError(k)


# ------------------------------------------------------------------ oracle (plain python, no model)
def qfn(table, x):
    """value in force at x of a table [(t, q)...] sorted by t (first value below the table)"""
    v = table[0][1]
    for t, q in table:
        if t <= x:
            v = q
        else:
            break
    return v


class Book:
    """the harness's own record of the history: the back reference (start/end time) of every object, the
    LISTINGS (object, time) per side that the registries must hold, the requested points.
    In a history inside `Valid` the listings are exactly the back references; a double registration leaves the
    former listing behind (it is what `add` does: nothing is ever deregistered by `add`)."""

    def __init__(self, n):
        self.reg = [[None, None] for _ in range(n)]
        self.listed = [set(), set()]
        self.requested = set()
        self.valid = True
        # the memo `_number_of_staves` is only invalidated by Part.add / Part.remove: after a direct TimePoint /
        # Slur / Tuplet call (outside the property's quantifier) it may be stale until the next add / remove
        self.staves_dirty = False
        self.tupnote = {}

    def times(self):
        return set(t for side in self.listed for _, t in side)

    def resync(self, cx):
        """take references, listings and allowed-empty points from the part as it is (after a call whose effect the
        property does not fix); the state clauses are still checked against it"""
        pts = list(cx.part._points)
        for i, o in enumerate(cx.objs):
            self.reg[i] = [None if o.start is None else o.start.t, None if o.end is None else o.end.t]
        self.listed = [set(), set()]
        for tp in pts:
            for side, d in ((0, tp.starting_objects), (1, tp.ending_objects)):
                for oset in d.values():
                    for o in oset:
                        if id(o) in cx.oid:
                            self.listed[side].add((cx.oid[id(o)], tp.t))
        ts = set(tp.t for tp in pts)
        self.requested = set(t for t in self.requested if t in ts)

    def unlist(self, side, i):
        """Part.remove on one side: the listing the reference points to goes away (and with the last listing of a
        time its point, requested or not)"""
        t = self.reg[i][side]
        self.listed[side].discard((i, t))
        self.reg[i][side] = None
        if t not in self.times():
            self.requested.discard(t)

    def tp_remove(self, side, t, i, keep_ref=False):
        """TimePoint.remove_*_object of the point at t: the listing AT t goes away, the reference is cleared (the
        code clears it whatever it was; when it pointed to ANOTHER point the property does not say whether it
        must survive - the caller passes keep_ref after looking at the part), and the point stays even when nothing
        is listed there any more (no clean-up: from now on it is an allowed empty point, like a requested one)"""
        self.listed[side].discard((i, t))
        if not keep_ref:
            self.reg[i][side] = None
        if t not in self.times():
            self.requested.add(t)

    def strict(self):
        return all(self.listed[sd] == set((i, r[sd]) for i, r in enumerate(self.reg) if r[sd] is not None)
                   for sd in (0, 1))


def check_invariant(cx, bk):
    """the property's state clauses evaluated on the real part against the bookkeeping"""
    fails = []
    p = cx.part
    pts = list(p._points)
    import numbers

    ts = [tp.t for tp in pts]
    if not all(isinstance(t, numbers.Integral) and not isinstance(t, bool) for t in ts):
        fails.append("times: non-integer time point %r" % (ts,))
        return fails
    if any(t < 0 for t in ts):
        fails.append("times: negative time point in %r" % (ts,))
    if any(a >= b for a, b in zip(ts, ts[1:])):
        fails.append("times: not strictly increasing %r" % (ts,))
    for i, tp in enumerate(pts):
        want_prev = pts[i - 1] if i > 0 else None
        want_next = pts[i + 1] if i + 1 < len(pts) else None
        if tp.prev is not want_prev:
            fails.append("links: point t=%s has prev=%s, true predecessor is %s" % (
                tp.t, None if tp.prev is None else "TimePoint(t=%s%s)" % (tp.prev.t, "" if any(tp.prev is q for q in pts) else ", not on the timeline"),
                None if want_prev is None else want_prev.t))
        if tp.next is not want_next:
            fails.append("links: point t=%s has next=%s, true successor is %s" % (
                tp.t, None if tp.next is None else "TimePoint(t=%s%s)" % (tp.next.t, "" if any(tp.next is q for q in pts) else ", not on the timeline"),
                None if want_next is None else want_next.t))
    # registries -> bookkeeping
    seen = {}
    for tp in pts:
        cnt = 0
        for side, d in ((0, tp.starting_objects), (1, tp.ending_objects)):
            for cls, oset in d.items():
                for o in oset:
                    cnt += 1
                    i = cx.oid.get(id(o))
                    if i is None:
                        fails.append("registry: unknown object listed at t=%s" % tp.t)
                        continue
                    seen[(side, i, tp.t)] = seen.get((side, i, tp.t), 0) + 1
                    if type(o) is not cls:
                        fails.append("registry: object %d listed under %s" % (i, cls.__name__))
                    if (i, tp.t) not in bk.listed[side]:
                        fails.append("registry: object %d listed as %s at t=%s but registered at %s" % (
                            i, ("starting", "ending")[side], tp.t, bk.reg[i][side]))
                    ref = o.start if side == 0 else o.end
                    if bk.reg[i][side] == tp.t and ref is not tp:
                        fails.append("backref: object %d is listed at t=%s but its %s refers to %s" % (
                            i, tp.t, ("start", "end")[side], None if ref is None else ref.t))
        if cnt == 0 and tp.t not in bk.requested:
            fails.append("empty: time point t=%s has no objects and was not requested" % tp.t)
    # bookkeeping -> registries
    for side in (0, 1):
        for (i, t) in sorted(bk.listed[side]):
            n = seen.get((side, i, t), 0)
            if n == 0 and bk.reg[i][side] != t:
                # a STALE listing (left behind by a double registration, outside the property's quantifier) is
                # gone: the property does not ask for it to stay - follow the part (the model comparison still
                # reports the behavioural difference)
                bk.listed[side].discard((i, t))
                if t not in bk.times() and t not in ts:
                    bk.requested.discard(t)
                continue
            if n != 1:
                fails.append("registry: object %d listed %d times as %s at t=%s" % (
                    i, n, ("starting", "ending")[side], t))
    for i, o in enumerate(cx.objs):
        for side in (0, 1):
            want = bk.reg[i][side]
            ref = o.start if side == 0 else o.end
            if want is None:
                if ref is not None:
                    fails.append("backref: object %d is not registered by %s but refers to t=%s" % (
                        i, ("start", "end")[side], ref.t))
            else:
                if ref is None or ref.t != want or not any(ref is q for q in pts):
                    fails.append("backref: object %d registered at %s=%s refers to %s" % (
                        i, ("start", "end")[side], want,
                        None if ref is None else "t=%s%s" % (ref.t, "" if any(ref is q for q in pts) else " (not on the timeline)")))
    # o.duration: the distance between the two registered times, None unless both are registered
    for i, o in enumerate(cx.objs):
        a, b = bk.reg[i]
        want = None if a is None or b is None else int(b) - int(a)   # (resync may have taken numpy scalars from the part)
        if o.start is not None and o.end is not None and not (type(o.start.t) is int and type(o.end.t) is int):
            continue   # numpy scalar arithmetic: not judged
        try:
            got = cx.S.TimedObject.duration.fget(o)
        except Exception as e:
            got = "raises " + type(e).__name__
        if got != want:
            fails.append("backref: object %d registered at start=%s end=%s has duration %r, expected %r" % (i, a, b, got, want))
    # quarter table and quarter per point
    try:
        table = [(int(r[0]), int(r[1])) for r in p.quarter_durations().tolist()]
    except Exception as e:
        fails.append("qtable: quarter_durations() raised %s" % type(e).__name__)
        return fails
    if [t for t, _ in table] != list(p._quarter_times) or [q for _, q in table] != list(p._quarter_durations):
        fails.append("qtable: quarter_durations() differs from the stored lists")
    qts = [t for t, _ in table]
    if not table or qts[0] != 0 or any(a >= b for a, b in zip(qts, qts[1:])):
        fails.append("qtable: change times not strictly increasing from 0: %r" % (qts,))
        return fails
    for tp in pts:
        if tp.quarter != qfn(table, tp.t):
            fails.append("quarter: point t=%s carries %s, in force is %s (table %r)" % (tp.t, tp.quarter, qfn(table, tp.t), table))
    for x in set(qts + ts + [qts[-1] + 1]):
        try:
            v = float(p._quarter_map(x))
        except Exception as e:
            fails.append("quarter: cached quarter map raised %s at %s" % (type(e).__name__, x))
            break
        if v != qfn(table, x):
            fails.append("quarter: cached quarter map gives %r at %s, table says %s" % (v, x, qfn(table, x)))
    return fails


def strip_quarters(cx):
    """the state without anything set_quarter_duration may touch"""
    p = cx.part
    return ([(tp.t, id(tp), id(tp.prev), id(tp.next), cx.reg_text(tp.starting_objects), cx.reg_text(tp.ending_objects))
             for tp in p._points], [(id(o.start), id(o.end)) for o in cx.objs])


def matches(cx, i, c, incl):
    ty = type(cx.objs[i])
    if c is None:
        return incl  # cls=object: only through include_subclasses
    cls = cx.classes[c]
    return issubclass(ty, cls) if incl else ty is cls


def check_objs(cx, bk, what, res, side, pred, cls, incl, descending=False):
    """res (list of objects) must be, time point by time point in time order, exactly the matching objects
    listed there on `side` (inside `Valid`: the registered objects satisfying pred on their time)"""
    from collections import Counter

    fails = []
    ids = cx.ids(res)
    groups = {}
    for (i, t) in bk.listed[side]:
        if pred(t) and matches(cx, i, cls, incl):
            groups.setdefault(t, set()).add(i)
    want = Counter(i for g in groups.values() for i in g)
    if Counter(ids) != want:
        fails.append("query: %s returned %r, registered matching objects are %r" % (
            what, sorted(ids), sorted(want.elements())))
        return fails
    pos = 0
    for t in sorted(groups, reverse=descending):
        g = groups[t]
        seg = ids[pos:pos + len(g)]
        pos += len(g)
        if set(seg) != g:
            fails.append("query: %s not in time order: objects %r, expected at t=%s: %r" % (what, ids, t, sorted(g)))
            break
    return fails


NP_KINDS = ("np_ss", "np_ins", "np_del", "npstate")
NODUMP = NP_KINDS + ("cmp",)


def _nomemo(dump):
    """the dump without the `_number_of_staves` memo (reading number_of_staves fills it: not a change of the part)"""
    return dump.rsplit(";S", 1)[0]


def evaluate_buckets(desc):
    """one registry: after every operation the result and the non-empty buckets (by class id, each in its order)
    are compared with the dictionary model; oracle (sets only - order is not part of the property): every bucket
    holds exactly the registered objects of exactly that class, a read yields exactly the registered matching
    objects once each, the clean-up count is the number of registered objects"""
    import partitura.score as S

    t, classes = _tables()
    cx = Ctx({"q0": 1, "cls": desc["cls"]})
    p = cx.part
    requests = ["reset 1 %s" % W.lst(W.i, desc["cls"]), "bkreset"]
    impl = ["ok;" + cx.dump()]
    keep = S.TimedObject()
    p.add(keep, None, 5)
    tp = p.get_point(5)
    impl.append("ok;" + cx.reg_text(tp.starting_objects))
    oracle = []
    registered = []
    removed = 0
    for opi, op in enumerate(desc["ops"]):
        k = op[0]
        res = None
        try:
            if k == "badd":
                p.add(cx.objs[op[1]], start=5)
                if op[1] not in registered:
                    registered.append(op[1])
                txt, req = "ok", "bkadd %d" % op[1]
            elif k == "brmt":
                p.remove(cx.objs[op[1]], "start")
                if op[1] in registered:
                    registered.remove(op[1])
                    removed += 1
                txt, req = "ok", "bkrmt %d" % op[1]
            elif k == "brmk":
                tp.remove_starting_object(cx.objs[op[1]])
                if op[1] in registered:
                    registered.remove(op[1])
                    removed += 1
                txt, req = "ok", "bkrmk %d" % op[1]
            elif k == "biter":
                res = list(tp.iter_starting(cx.cls_of(op[1]), op[2]))
                txt, req = "objs:" + _ilist(cx.ids(res)), "bkiter %s %s" % (_o(op[1]), W.b(op[2]))
            else:
                res = sum(len(oo) for oo in tp.starting_objects.values())
                txt, req = "n:%d" % res, "bktotal"
        except Exception as e:  # noqa
            txt = "err:" + type(e).__name__
            req = "bktotal"
            if len(oracle) < 12:
                oracle.append("raises: %s: %s on valid arguments [op %d %r]" % (type(e).__name__, e, opi, op))
        requests.append(req)
        impl.append(txt + ";" + cx.reg_text(tp.starting_objects))
        fails = []
        if p.get_point(5) is not tp:
            fails.append("empty: the time point with an ending object was removed or replaced")
        for c, oset in tp.starting_objects.items():
            want = set(i for i in registered if type(cx.objs[i]) is c)
            got = cx.ids(oset)
            if set(got) != want or len(got) != len(want):
                fails.append("registry: bucket %s holds %r, registered objects of that class are %r" % (
                    c.__name__, sorted(got), sorted(want)))
        for i in registered:
            if cx.objs[i] not in tp.starting_objects.get(type(cx.objs[i]), {}):
                fails.append("registry: object %d is registered but not listed" % i)
        for i, o in enumerate(cx.objs):
            if (o.start is tp) != (i in registered) or (o.start is not None and o.start is not tp):
                fails.append("backref: object %d has start=%s, registered=%s" % (
                    i, None if o.start is None else o.start.t, i in registered))
        if k == "biter":
            want = sorted(i for i in registered if matches(cx, i, op[1], op[2]))
            if sorted(cx.ids(res)) != want:
                fails.append("query: iter_starting returned %r, registered matching objects are %r" % (
                    sorted(cx.ids(res)), want))
        if k == "btotal" and res != len(registered):
            fails.append("registry: the clean-up count is %r, %d objects are registered" % (res, len(registered)))
        for f in fails:
            if len(oracle) < 12:
                oracle.append("%s [op %d %r]" % (f, opi, op))
    key = ("B|%r|%r" % (desc["cls"], desc["ops"])) if removed else None
    br = {}
    for op in desc["ops"]:
        br[op[0]] = br.get(op[0], 0) + 1
    return Eval(requests, impl, oracle, key, {"branches": br, "valid": True, "strict": True,
                                              "nops": len(desc["ops"])})


def evaluate_open(desc):
    """histories that define new classes of timed objects while they run (see gen_open).  ORACLE only, independent of
    the code's own subclass enumeration: an object matches a class query iff `type(o) is cls` (exact), `isinstance(o,
    cls)` (subclasses included) or always (cls None); registered = what this function itself added and did not remove.
    Clauses: query (iter_all: exactly the registered matching objects whose start/end lies in [start, end), each once,
    times non-decreasing), neighbour (iter_prev / iter_next: exactly the registered matching objects starting before /
    after the point, eq = at it too; times monotone), backref, raises."""
    import partitura.score as S

    part = S.Part("P0", quarter_duration=1)
    newc = []
    objs = []       # [object, start, end] as registered by this function
    oracle = []
    br = {}
    nq = 0

    def cref(r):
        if r is None:
            return None
        if isinstance(r, int):
            return newc[r] if r < len(newc) else S.TimedObject
        if isinstance(r, list):
            c = cref(r[1])
            line = [a for a in c.__mro__[1:] if issubclass(a, S.TimedObject)] or [c]
            return line[min(r[2], len(line) - 1)]
        return getattr(S, r)

    def match(o, c, incl):
        return c is None or (isinstance(o, c) if incl else type(o) is c)

    def name(c):
        return None if c is None else c.__name__

    for opi, op in enumerate(desc["ops"]):
        k = op[0]
        br[k] = br.get(k, 0) + 1
        fails = []
        try:
            if k == "new":
                par = cref(op[1])
                # the class is defined AFTER its ancestors (and None) have been queried in this very history, so the
                # case does not depend on what earlier cases of the process asked (replays run in a fresh process)
                scratch = S.Part("scratch", quarter_duration=1)     # never empty: the per-point iterators do run
                scratch.add(_mk(S.TimedObject), 0, 1)
                for a in [None] + [a for a in par.__mro__ if issubclass(a, S.TimedObject)]:
                    for md in ("starting", "ending"):
                        list(part.iter_all(a, include_subclasses=True, mode=md))
                        list(scratch.iter_all(a, include_subclasses=True, mode=md))
                    if a is not None:
                        list(scratch.first_point.iter_next(a, eq=True, include_subclasses=True))
                        list(scratch.last_point.iter_prev(a, eq=True, include_subclasses=True))
                    if a is not None and part.first_point is not None:
                        list(part.first_point.iter_next(a, eq=True, include_subclasses=True))
                        list(part.last_point.iter_prev(a, eq=True, include_subclasses=True))
                newc.append(type("Open%d" % len(newc), (par,), {}))
            elif k == "add":
                o = _mk(cref(op[1]))
                part.add(o, op[2], op[3])
                objs.append([o, op[2], op[3]])
            elif k == "rm":
                if op[1] < len(objs):
                    r = objs[op[1]]
                    w = op[2]
                    if (w == "start" and r[1] is None) or (w == "end" and r[2] is None) or (r[1] is None and r[2] is None):
                        continue     # removing what is not there: outside the histories of this kind
                    if w == "both" and (r[1] is None or r[2] is None):
                        w = "start" if r[2] is None else "end"
                    part.remove(r[0], w)
                    if w in ("start", "both"):
                        r[1] = None
                    if w in ("end", "both"):
                        r[2] = None
            elif k == "all":
                c = cref(op[1])
                incl, mode, lo, hi = op[2], op[3], op[4], op[5]
                if lo is not None and hi is not None and lo > hi:
                    continue
                res = list(part.iter_all(c, lo, hi, include_subclasses=incl, mode=mode))
                sd = 1 if mode == "starting" else 2
                want = [r for r in objs if r[sd] is not None and match(r[0], c, incl)
                        and (lo is None or r[sd] >= lo) and (hi is None or r[sd] < hi)]
                nq += 1 if want else 0
                if sorted(map(id, res)) != sorted(id(r[0]) for r in want):
                    fails.append("query: iter_all(%s, %r, %r, include_subclasses=%r, mode=%r) returned %d objects %r, "
                                 "the registered matching objects are %d %r" % (
                                     name(c), lo, hi, incl, mode, len(res), sorted(type(o).__name__ for o in res),
                                     len(want), sorted(type(r[0]).__name__ for r in want)))
                ts = [(o.start if sd == 1 else o.end).t for o in res if (o.start if sd == 1 else o.end) is not None]
                if ts != sorted(ts):
                    fails.append("query: iter_all results are not in time order: %r" % ts)
            elif k in ("prev", "next"):
                tp = part.get_point(op[1])
                c = cref(op[2])
                if tp is None or c is None:
                    continue
                eq, incl = op[3], op[4]
                res = list((tp.iter_prev if k == "prev" else tp.iter_next)(c, eq=eq, include_subclasses=incl))
                t0 = op[1]
                want = [r for r in objs if r[1] is not None and match(r[0], c, incl)
                        and ((r[1] < t0 if k == "prev" else r[1] > t0) or (eq and r[1] == t0))]
                nq += 1 if want else 0
                if sorted(map(id, res)) != sorted(id(r[0]) for r in want):
                    fails.append("neighbour: iter_%s(%s, eq=%r, include_subclasses=%r) from t=%d returned %d objects %r, "
                                 "the registered matching objects are %d %r" % (
                                     k, name(c), eq, incl, t0, len(res), sorted(type(o).__name__ for o in res),
                                     len(want), sorted(type(r[0]).__name__ for r in want)))
                ts = [o.start.t for o in res if o.start is not None]
                if ts != sorted(ts, reverse=(k == "prev")):
                    fails.append("neighbour: iter_%s results are not in time order: %r" % (k, ts))
        except Exception as e:  # noqa
            fails.append("raises: %s: %s on valid arguments" % (type(e).__name__, e))
        for o, s_, e_ in objs:
            if (None if o.start is None else o.start.t) != s_ or (None if o.end is None else o.end.t) != e_:
                fails.append("backref: a %s registered at (%r, %r) refers to (%r, %r)" % (
                    type(o).__name__, s_, e_, None if o.start is None else o.start.t, None if o.end is None else o.end.t))
                break
        for f in fails:
            if len(oracle) < 12:
                oracle.append("%s [op %d %r]" % (f, opi, op))
    key = ("O|%r" % (desc["ops"],)) if nq and newc else None
    return Eval([], [], oracle, key, {"branches": {"open:" + a: b for a, b in br.items()}, "valid": True,
                                      "strict": True, "nops": len(desc["ops"])})


def evaluate(desc):
    warnings.filterwarnings("ignore")
    if desc.get("kind") == "buckets":
        return evaluate_buckets(desc)
    if desc.get("kind") == "openclass":
        return evaluate_open(desc)
    cx = Ctx(desc)
    bk = Book(len(cx.objs))
    S = cx.S
    requests = ["reset0 %s" % W.lst(W.i, desc["cls"]) if desc["q0"] is None
                else "reset %d %s" % (desc["q0"], W.lst(W.i, desc["cls"]))]
    impl = ["ok;" + cx.dump()]
    if desc.get("staff"):
        requests.append("staff " + W.lst(lambda v: "-" if v is None else "%d" % v, desc["staff"]))
        impl.append("ok")
    oracle = []
    nontrivial = 0
    branches = {}

    def fail(opi, op, msg):
        if len(oracle) < 12:
            oracle.append("%s [op %d %r]" % (msg, opi, op))

    for opi, op in enumerate(desc["ops"]):
        k = op[0]
        before = _nomemo(cx.dump())   # the oracle's frame conditions do not look at the memo `_number_of_staves`
        before_sq = strip_quarters(cx)
        try:
            before_table = [(int(r[0]), int(r[1])) for r in cx.part.quarter_durations().tolist()]
        except Exception:
            before_table = None
        npts_before = len(cx.part._points)
        exc = None
        raw = None
        try:
            res, raw = perform(cx, op)
        except Exception as e:  # noqa
            exc = e
            res = "err:" + type(e).__name__
        after_full = cx.dump()
        after = _nomemo(after_full)
        requests.append(request_of(op))
        impl.append(res if k in NODUMP else res + ";" + after_full)
        branches[k + ("!" if exc is not None else "")] = branches.get(k + ("!" if exc is not None else ""), 0) + 1
        if not bk.valid:
            continue
        # ------------- oracle
        neg = False
        if k == "add":
            neg = (op[2] is not None and op[2] < 0) or (op[3] is not None and op[3] < 0)
        elif k in ("goa", "gp", "prev", "next"):
            neg = op[1] < 0
        elif k in ("tpadd", "tprm"):
            neg = op[2] < 0       # the harness fetches the point with part.get_point(t)
        elif k == "addd":
            neg = any(v not in ("_", None) and v < 0 for v in (op[2], op[3]))
        if neg:
            if not isinstance(exc, S.InvalidTimePointException):
                fail(opi, op, "reject: negative time not rejected with InvalidTimePointException (%s)" % (
                    "no exception" if exc is None else type(exc).__name__))
            if after != before:
                fail(opi, op, "atomic: rejected call changed the part: before %s after %s" % (before, after))
            continue
        if k == "rmx" and op[2] not in (None, "start", "end", "both"):
            # a `which` string that is none of the three documented ones is NOT a valid argument: the property
            # does not say whether the call is rejected, ignored or read leniently.  Only atomicity of a rejection
            # is demanded; otherwise the bookkeeping follows the part (the correspondence pins what the code does)
            if exc is not None:
                if after != before:
                    fail(opi, op, "atomic: rejected call changed the part: before %s after %s" % (before, after))
            else:
                bk.resync(cx)
                for f in check_invariant(cx, bk):
                    fail(opi, op, f)
            continue
        if exc is not None:
            fail(opi, op, "raises: %s: %s on valid arguments" % (type(exc).__name__, exc))
            if after != before:
                fail(opi, op, "atomic: failed call left the part partly updated: before %s after %s" % (before, after))
            # the bookkeeping can no longer be trusted to describe what the part should be
            bk.valid = False
            continue
        # update the bookkeeping
        if k == "add":
            # a supplied side is (re)set and listed at its point; nothing is ever deregistered by `add`
            for side, t in ((0, op[2]), (1, op[3])):
                if t is not None:
                    bk.listed[side].add((op[1], t))
                    bk.reg[op[1]][side] = t
        elif k == "rm":
            # exactly the listing the object's reference points to goes away; an unregistered side: nothing
            if bk.reg[op[1]][0] is None and bk.reg[op[1]][1] is None and after != before:
                fail(opi, op, "frame: remove of an unregistered object changed the part: before %s after %s" % (before, after))
            for side, ch in ((0, "s"), (1, "e")):
                if op[2] in (ch, "b") and bk.reg[op[1]][side] is not None:
                    t = bk.reg[op[1]][side]
                    bk.listed[side].discard((op[1], t))
                    bk.reg[op[1]][side] = None
                    if t not in bk.times():
                        bk.requested.discard(t)
                    if npts_before > 0:
                        nontrivial += 1
        elif k == "goa":
            bk.requested.add(op[1])
            if raw is None or raw.t != op[1] or not any(raw is q for q in cx.part._points):
                fail(opi, op, "query: get_or_add_point did not return the point of the timeline at t")
        elif k == "addd":
            for side, t in ((0, op[2]), (1, op[3])):
                if t not in ("_", None):
                    bk.listed[side].add((op[1], t))
                    bk.reg[op[1]][side] = t
        elif k == "rmx":
            # `which` as the documentation gives it: 'start', 'end', 'both' (the default); any other string is
            # not one of the three and must leave the part alone
            sides = {None: (0, 1), "both": (0, 1), "start": (0,), "end": (1,)}[op[2]]
            if not any(bk.reg[op[1]][sd] is not None for sd in sides) and after != before:
                fail(opi, op, "frame: remove(which=%r) of an object not registered on that side changed the part: "
                              "before %s after %s" % (op[2], before, after))
            for side in sides:
                if bk.reg[op[1]][side] is not None:
                    bk.unlist(side, op[1])
                    if npts_before > 0:
                        nontrivial += 1
        elif k == "tpadd" and raw is not None:
            # TimePoint.add_*_object: the object refers to this point and is listed by it; nothing is deregistered
            bk.listed[op[1]].add((op[3], op[2]))
            bk.reg[op[3]][op[1]] = op[2]
        elif k == "tprm" and raw is not None:
            cur = bk.reg[op[3]][op[1]]
            ref = cx.objs[op[3]].start if op[1] == 0 else cx.objs[op[3]].end
            foreign = cur is not None and cur != op[2]
            bk.tp_remove(op[1], op[2], op[3], keep_ref=foreign and ref is not None and ref.t == cur)
        elif k == "slurS":
            # Slur.start_note = note: `if self.start: self.start.remove_starting_object(self)`
            if bk.reg[op[1]][0] is not None:
                bk.tp_remove(0, bk.reg[op[1]][0], op[1])
        elif k == "slurE":
            # Slur.end_note = note: leave the current end point, join the ending objects of note.end
            if bk.reg[op[1]][1] is not None:
                bk.tp_remove(1, bk.reg[op[1]][1], op[1])
            if bk.reg[op[2]][1] is not None:
                bk.listed[1].add((op[1], bk.reg[op[2]][1]))
                bk.reg[op[1]][1] = bk.reg[op[2]][1]
        elif k in ("tupS", "tupE"):
            # Tuplet.start_note / end_note = note: when the note is given and has a start (end) and the tuplet's
            # previous note has one too, the tuplet leaves the point where the PREVIOUS note starts (ends): one
            # TimePoint.remove_*_object there (no clean-up)
            sd = 0 if k == "tupS" else 1
            tu, nt = op[1], op[2]
            old = bk.tupnote.get((tu, sd))
            if nt is not None and bk.reg[nt][sd] is not None and old is not None and bk.reg[old][sd] is not None:
                t = bk.reg[old][sd]
                cur = bk.reg[tu][sd]
                ref = cx.objs[tu].start if sd == 0 else cx.objs[tu].end
                foreign = cur is not None and cur != t
                bk.tp_remove(sd, t, tu, keep_ref=foreign and ref is not None and ref.t == cur)
            bk.tupnote[(tu, sd)] = nt
            got = cx.objs[tu]._start_note if sd == 0 else cx.objs[tu]._end_note
            if got is not (None if nt is None else cx.objs[nt]):
                fail(opi, op, "backref: tuplet %d does not keep the note it was given" % tu)
        if k in ("add", "rm", "addd") or (k == "rmx" and op[2] in (None, "start", "end", "both")):
            bk.staves_dirty = False
        elif k in ("tpadd", "tprm", "slurS", "slurE", "tupS", "tupE", "rmx"):
            bk.staves_dirty = True
        if k in ("tpadd", "tprm") and raw is None:
            if op[2] in bk.times() or op[2] in [tp.t for tp in cx.part._points]:
                fail(opi, op, "query: get_point(%d) found no point although one exists" % op[2])
            if after != before:
                fail(opi, op, "frame: read-only query changed the part: before %s after %s" % (before, after))
        # frame conditions
        if k in ("staves", "all", "allx", "prev", "next", "first", "last", "gp", "qds", "sweep", "qmap", "view", "cmp") + NP_KINDS:
            if after != before:
                fail(opi, op, "frame: read-only query changed the part: before %s after %s" % (before, after))
        if k in ("add", "rm", "goa", "addd", "rmx", "tpadd", "tprm", "slurS", "slurE", "tupS", "tupE", "staves",
                 "view") and before_table is not None:
            try:
                tab = [(int(r[0]), int(r[1])) for r in cx.part.quarter_durations().tolist()]
            except Exception:
                tab = None
            if tab != before_table:
                fail(opi, op, "frame: quarter table changed by %s" % k)
        if k == "qd":
            t, q = op[1], op[2]
            if strip_quarters(cx) != before_sq:
                fail(opi, op, "frame: set_quarter_duration changed points/registries/links")
            try:
                tab = [(int(r[0]), int(r[1])) for r in cx.part.quarter_durations().tolist()]
            except Exception:
                tab = None
            if before_table and tab:
                later = [x for x, _ in before_table if x > t]
                nxt = min(later) if later else None
                probes = set(range(-1, 32)) | set(x for x, _ in before_table) | set(x for x, _ in tab) | {t, t + 1}
                probes |= set(x + d for x, _ in before_table for d in (-1, 1))
                if tab != before_table and npts_before > 0:
                    nontrivial += 1
                for x in sorted(x for x in probes if x >= 0):  # times are non-negative
                    want = q if (t <= x and (nxt is None or x < nxt)) else qfn(before_table, x)
                    if qfn(tab, x) != want:
                        fail(opi, op, "qdlaw: after set_quarter_duration(%d,%d) on %r the duration in force at %d is %d, "
                                      "expected %d (table now %r)" % (t, q, before_table, x, qfn(tab, x), want, tab))
                        break
        # the state clauses
        for f in check_invariant(cx, bk):
            fail(opi, op, f)
        # query correctness
        if k == "all":
            side = 1 if op[5] == "ending" else 0
            a, b = op[2], op[3]
            incl = True if op[1] is None else op[4]
            for f in check_objs(cx, bk, "iter_all", raw, side,
                                lambda x: (a is None or a <= x) and (b is None or x < b), op[1], incl):
                fail(opi, op, f)
        elif k == "allx":
            # omitted arguments: the documented defaults (cls=None, start=None, end=None, include_subclasses=False,
            # mode="starting"); bounds in any numeric form or as TimePoint mean their time; an unknown mode
            # string means "starting" (documented: a warning, then "starting")
            side = 1 if op[5] == "ending" else 0
            a = None if op[2][0] == "-" else Fraction(op[2][1], op[2][2])
            b = None if op[3][0] == "-" else Fraction(op[3][1], op[3][2])
            incl = True if op[1] is None else (False if op[4] == "_" else op[4])
            for f in check_objs(cx, bk, "iter_all(%s..%s)" % (op[2][0], op[3][0]), raw, side,
                                lambda x: (a is None or a <= x) and (b is None or x < b), op[1], incl):
                fail(opi, op, f)
        elif k == "view" and op[1] in DOC_VIEWS:
            cname, incl = DOC_VIEWS[op[1]]
            cid_ = cx.t["names"].index(cname) if cname in cx.t["names"] else None
            if cid_ is not None:
                for f in check_objs(cx, bk, "part.%s" % op[1], raw, 0, lambda x: True, cid_, incl):
                    fail(opi, op, f)
        elif k == "staves" and not bk.staves_dirty:
            want = 1
            for (i, t) in bk.listed[0]:
                st = getattr(cx.objs[i], "staff", None)
                ty = type(cx.objs[i])
                hit = any((issubclass(ty, getattr(S, cn)) if incl else ty is getattr(S, cn))
                          for cn, incl in STAVES_CLASSES if hasattr(S, cn))
                if hit and st is not None and st > want:
                    want = st
            if raw != want:
                fail(opi, op, "query: number_of_staves is %r, the largest staff of the registered notes, clefs, "
                              "directions and words is %d" % (raw, want))
        elif k == "cmp":
            a, b = op[1], op[2]
            want = [a < b, a <= b, a == b, a >= b, a > b, a != b]
            if raw != want:
                fail(opi, op, "order: TimePoint(%d) <,<=,==,>=,>,!= TimePoint(%d) gives %r, the times compare as %r" % (
                    a, b, raw, want))
        elif k in ("prev", "next") and raw is not None:
            t, eq = op[1], op[3]
            if k == "prev":
                pred = (lambda x: x <= t) if eq else (lambda x: x < t)
            else:
                pred = (lambda x: x >= t) if eq else (lambda x: x > t)
            for f in check_objs(cx, bk, "iter_" + k, raw, 0, pred, op[2], op[4], descending=(k == "prev")):
                fail(opi, op, f)
        elif k in ("prev", "next") and raw is None:
            if op[1] in bk.times() or op[1] in [tp.t for tp in cx.part._points]:
                fail(opi, op, "query: get_point(%d) found no point although one exists" % op[1])
        elif k in ("first", "last"):
            ts = [tp.t for tp in cx.part._points]
            want = None if not ts else (min(ts) if k == "first" else max(ts))
            got = None if raw is None else raw.t
            if got != want or (raw is not None and not any(raw is q for q in cx.part._points)):
                fail(opi, op, "query: %s_point is %s, expected %s" % (k, got, want))
        elif k == "gp":
            ts = [tp.t for tp in cx.part._points]
            if (raw is None) != (op[1] not in ts) or (raw is not None and (raw.t != op[1] or not any(raw is q for q in cx.part._points))):
                fail(opi, op, "query: get_point(%d) returned %s, point times are %r" % (op[1], None if raw is None else raw.t, ts))
            if raw is None and op[1] in bk.times():
                fail(opi, op, "query: get_point(%d) is None although an object is registered there" % op[1])
        elif k == "qds" and before_table is not None:
            a, b = op[1], op[2]
            want = [[x, q] for x, q in before_table if (a is None or x >= a) and (b is None or x < b)]
            if [[int(r[0]), int(r[1])] for r in raw] != want:
                fail(opi, op, "query: quarter_durations(%s,%s) returned %r, expected %r" % (a, b, raw, want))
        elif k == "qmap" and before_table:
            if not raw["shape_ok"]:
                fail(opi, op, "quarter: quarter_duration_map(%s argument) returned a result of the wrong shape" % op[2])
            for x, fv, cv in zip(raw["x"], raw["fresh"], raw["cached"]):
                want = qfn(before_table, x)
                if fv != want:
                    fail(opi, op, "quarter: quarter_duration_map(%s) = %r, in force is %s (table %r)" % (x, fv, want, before_table))
                    break
                if cv != want:
                    fail(opi, op, "quarter: cached quarter map gives %r at %s, table says %s" % (cv, x, want))
                    break
        elif k == "np_ss":
            arr, key = op[1], op[2]
            if all(a <= b for a, b in zip(arr, arr[1:])):
                want = min([j for j, v in enumerate(arr) if v >= key] + [len(arr)])
                if raw != want:
                    fail(opi, op, "np: searchsorted(%r, %d) = %r, least index with element >= key is %d" % (arr, key, raw, want))
        elif k in ("np_ins", "np_del"):
            arr, j = op[1], op[2]
            if k == "np_ins":
                want = arr[:j] + [op[3]] + arr[j:] if j <= len(arr) else None
            else:
                want = arr[:j] + arr[j + 1:] if j < len(arr) else None
            if raw != want:
                fail(opi, op, "np: %s(%r, %d) = %r, expected %r" % (k, arr, j, raw, want))
        elif k == "npstate":
            ts = [tp.t for tp in cx.part._points]
            qt = list(cx.part._quarter_times)
            want = (len([v for v in ts if v < op[1]]), len([v for v in qt if v < op[1]]))
            if raw != want:
                fail(opi, op, "np: searchsorted on the part's arrays at %d = %r, expected %r" % (op[1], raw, want))
        elif k == "sweep":
            a, b = op[1], op[2]
            for (c, incl, mode), res in raw.items():
                for f in check_objs(cx, bk, "iter_all(cls=%s,incl=%s,%s)" % (
                        "None" if c is None else cx.classes[c].__name__, incl, mode), res,
                        1 if mode == "ending" else 0,
                        lambda x: (a is None or a <= x) and (b is None or x < b), c, True if c is None else incl):
                    fail(opi, op, f)
    # the (decidable) weak invariant must hold of the model state at the end of EVERY history,
    # and the model's memo must be the map of its table
    requests.append("winv")
    impl.append("1")
    requests.append("cache")
    impl.append("1")
    if bk.valid:
        # the full invariant holds exactly when no stale listing is left (Inv <-> WInv and Strict)
        requests.append("inv")
        impl.append("1" if bk.strict() else "0")
    key = None
    if nontrivial:
        key = "%r|%r" % (desc["cls"], desc["ops"])
    return Eval(requests, impl, oracle, key, {"branches": branches, "valid": bk.valid, "strict": bk.strict(),
                                              "nops": len(desc["ops"])})


def finding_key(desc, failure):
    return "C01/" + failure.split(":", 1)[0]


def shrink(desc):
    ops = desc["ops"]
    n = len(ops)
    size = max(1, n // 2)
    while size >= 1:
        for i in range(0, n, size):
            cand = ops[:i] + ops[i + size:]
            if cand and len(cand) < n:
                yield dict(desc, ops=cand)
        if size == 1:
            break
        size //= 2
    if desc.get("kind") in ("buckets", "openclass"):
        return
    # drop the trailing objects no operation mentions
    used = [op[1] for op in ops if op[0] in ("add", "rm", "rmx", "addd")]
    used += [op[3] for op in ops if op[0] in ("tpadd", "tprm")]
    used += [v for op in ops if op[0] in ("slurS", "slurE") for v in op[1:3]]
    used += [v for op in ops if op[0] in ("tupS", "tupE") for v in op[1:3] if v is not None]
    top = max(used) + 1 if used else 1
    if top < len(desc["cls"]):
        d2 = dict(desc, cls=desc["cls"][:top])
        if desc.get("staff"):
            d2["staff"] = desc["staff"][:top]
        yield d2


def distribution(descs, results):
    from collections import Counter

    br = Counter()
    nops = Counter()
    valid = 0
    strict = 0
    for r in results:
        info = r.get("info") or {}
        for k, v in (info.get("branches") or {}).items():
            br[k] += v
        nops[min(60, (info.get("nops") or 0)) // 10 * 10] += 1
        valid += 1 if info.get("valid") else 0
        strict += 1 if info.get("strict") else 0
    mag = Counter()
    npk = Counter()
    forms = Counter()
    strs = Counter()
    views = Counter()
    mag["registry (bucket) cases"] = sum(1 for d in descs if d.get("kind") == "buckets")
    mag["open class hierarchy cases"] = sum(1 for d in descs if d.get("kind") == "openclass")
    for d in descs:
        if d.get("kind") in ("buckets", "openclass"):
            continue
        qs = [op[2] for op in d["ops"] if op[0] == "qd"] + ([d["q0"]] if d["q0"] is not None else [])
        ts = [v for op in d["ops"] if op[0] in ("add", "qd", "goa", "gp") for v in op[1:4]
              if isinstance(v, int) and not isinstance(v, bool)]
        mag["quarter durations >= 1e5" if any(q >= 10 ** 5 for q in qs) else "quarter durations small"] += 1
        mag["times >= 1e5" if any(t >= 10 ** 5 for t in ts) else "times small"] += 1
        if any(q >= 10 ** 5 and (q + 1 in qs or q - 1 in qs) for q in qs):
            mag["two quarter durations >= 1e5 differing by 1"] += 1
        if d["q0"] is None:
            mag["Part(id) default quarter"] += 1
        for op in d["ops"]:
            if op[0] in ("add", "qd", "goa", "gp"):
                for v in op[3:]:
                    if isinstance(v, str) and v != "_":
                        npk[v] += 1
            if op[0] == "allx":
                forms[op[2][0]] += 1
                forms[op[3][0]] += 1
                strs["mode=" + repr(op[5])] += 1
                strs["incl=" + repr(op[4])] += 1
            if op[0] == "rmx":
                strs["which=" + repr(op[2])] += 1
            if op[0] == "view":
                views[op[1]] += 1
            if op[0] == "addd":
                strs["add(%s,%s)" % ("omitted" if op[2] == "_" else "given", "omitted" if op[3] == "_" else "given")] += 1
    return {"operations (! = raised)": dict(br), "history length (decade)": dict(nops),
            "magnitudes (histories)": dict(mag), "numpy scalar arguments": dict(npk),
            "iter_all bound forms": dict(forms), "class-query wrappers read": dict(views),
            "histories with staff attributes / tuplet setters": [sum(1 for d in descs if d.get("staff")),
                                                                sum(1 for d in descs if any(
                                                                    op[0] in ("tupS", "tupE") for op in d.get("ops", [])))], "string / omitted arguments": dict(strs),
            "histories without an unexpected exception": valid, "histories": len(descs),
            "histories ending without a stale listing (inside Valid, or double registration undone)": strict,
            "objects": dict(Counter(len(d["cls"]) for d in descs)),
            "classes used": len(set(c for d in descs for c in d["cls"]))}
