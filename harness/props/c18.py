"""C18 - decoding an encoded performance reproduces the performance.

Readings chosen (where the property text leaves room):

* "within single-precision rounding": the expressive parameters are stored as float32 columns, so
  every parameter carries a relative rounding of 2^-24; a decoded quantity must agree with the
  performance within the error these roundings can cause, taken generously as 2^-20 times the
  magnitude of the quantities that were rounded: for an onset the largest equivalent onset plus
  the largest timing value (for the `standardized` normalisation also mean beat period x score
  span, because z*std + mean is evaluated in float32), for a duration the duration times
  max(1, |articulation_log|) (times the cancellation factor of z*std + mean for `standardized`).
  Velocities must be equal.
* "the performed onset up to one common shift": decoded onset - performed onset is the same
  number for every matched note (the median difference is taken as the shift).
* "ordered by score onset then pitch": rows non-decreasing in (onset_div, pitch); the order of rows
  with equal onset and pitch is not fixed by the property.
* "matches whose ids exist in both score and performance": for `get_matched_notes` exactly that;
  `to_matched_score` raises KeyError for a match whose score id exists and whose performance id
  does not - the oracle does not judge such alignments (they are compared with the model only).
* "time maps ... interpolate the matched onsets (chords by their mean) in both directions": the
  score->performance map takes every unique matched score onset (of a non-ornament note when
  remove_ornaments) to the mean performed onset of its notes and is linear between neighbours;
  the performance->score map is checked when these means are strictly increasing.
* ids in an alignment entry that are not strings (round 6): `to_matched_score` passes the score id of a match through `str`
  (rewriting the caller's list in place) and looks the performance id up as it is, `get_matched_notes` does the opposite.  An
  integer therefore "exists" on the side the function normalises when its decimal string is an id of that table; the oracle
  judges to_matched_score on alignments whose matches carry a string performance id and a string-or-integer score id, and
  get_matched_notes on those with a string score id and a string-or-integer performance id; every other form (None, missing
  keys, unlabelled entries, integers on the other side) is compared with the model only (Model/CodecAl.lean).
* the performed duration used is `duration_sec` of the performance note array.
* "against the same score": the score object AS IT IS at the time of the call.  A score object may have a past - it was
  read (maps, note arrays ...) while it was built, it was encoded before with this or another performance, it was
  edited in place (notes moved, lengthened, re-pitched, removed, added) - and none of that may show: every use of the
  codec must return, bit for bit, what the same call returns on a fresh score object of equal value (same construction
  and edit steps, never read in between; compared only when the two `note_array()`s are identical), and the round trip is
  judged against the note array the object has now.
* a float32 column x that is read back as 2^x (`beat_period_log`, `beat_period_ratio_log`, `articulation_log`) carries
  ln 2 * |x| * 2^-24 into what is computed from it: the tolerances grow with |x| / 4 beyond 1.
* NaN / inf in a parameter column or in a decoded onset / duration is a failure of its own whenever something is matched.
  The two open findings are exactly: a grace note decodes to duration 0 (F-C18-2), a note played for less than 0.075 s to
  0.075 s (F-C18-4); any other decoded duration of such a note is judged like every other note's.
* `beat_period_standardized` stores z, mean and std as float32 and the decoder evaluates z*std + mean in float32: a beat period
  smaller than 2^-21 of the two terms that cancel (|z*std| + mean) is not represented by the parameters at all (it can come back
  with the wrong sign, and PerformedPart refuses the negative duration).  Such a combination - seen only when score onsets 1e-4
  beat apart meet performed onsets that collide - is neither decoded nor judged (thorough tier, round 5).
* performed onsets of successive score onsets may be EQUAL as the codec sees them (a strictly positive inter-onset interval below
  the float32 resolution of a late passage, or exactly equal onsets): the round-trip clauses are judged on them like on any other
  performance (monotonize_times interpolates over the plateau; seeded change C18-i).
* `include_score_markings=True` adds columns and nothing else: the table holds the same rows in the same order under the same
  ids as without, for a score object and for a note array, and every marking column holds what the score-side note table
  (`compute_note_array` with the four feature functions) says about that note (repairs C18-12, C18-13).
* "beat period": seconds per beat.  For the two built-in tempo curves every beat period is a slope of a piecewise linear
  function through (matched score onset or `last_time`, time inside the performance), so it cannot exceed
  (span of the matched performance + 1) / (smallest interval between these score times); the score times are taken from the
  exact integer columns (`onset_div`, `duration_div`: does any matched note sound past the last matched onset?), the
  clause is skipped when two matched onsets are closer than 0.02 beat.
"""
import math
import random
from fractions import Fraction

import numpy as np

import wire as W
from core import Eval

PROPERTY = "C18"
DRIVER = "drv_c18"
PROPS = ["PartituraModel.Props.C18", "PartituraModel.Props.C18Real", "PartituraModel.Props.C18Pipeline",
         "PartituraModel.Props.C18Hist", "PartituraModel.Props.C18Ext", "PartituraModel.Props.C18Src", "PartituraModel.Props.C18Float",
         "PartituraModel.Props.C18Groups", "PartituraModel.Props.C18Al", "PartituraModel.Props.C18Seq"]
TRUSTED = [
    "numpy argsort(kind='mergesort') / lexsort are stable; np.unique = sorted distinct values; np.split; np.maximum.accumulate",
    "scipy interp1d linear with fill_value='extrapolate' (knots sorted stably by x, segment by searchsorted-left clipped to 1..n-1); "
    "scipy interp1d kind='zero' with bounds_error=False, fill_value=(lo, hi): the value of the last knot at or before the query, lo / hi "
    "outside the knots (model `zeroHold`, compared on its own stream `zh`); that tempo_by_average's default sampling returns the beat "
    "periods themselves is no longer assumed but proved (tempo_average_default)",
    "binary64 arithmetic of the codec: the model is exact; the tempo curves are compared in binary64 within 1e-7, encoder outputs within "
    "2^-18, decoder outputs (float32 group means and rescaling, binary64 accumulation) within 2^-20 (for standardized: times the "
    "cancellation factor of z*std + mean).  The float32 STORAGE of the logarithmic columns, of the articulation and of the velocity is "
    "covered by theorems (Props/C18Float exp2_stored_column, decoded_duration_stored; velocity_roundtrip_float32) whose bounds lie below "
    "these tolerances (stored_log_tolerance, decoded_duration_tolerance)",
    "log2 / 2**x in binary32/64: the model works with the articulation RATIO and with 2^column for the two logarithmic "
    "normalisations (the harness exponentiates the stored columns); performance_roundtrip takes E(L r) = r for r > 0 as a hypothesis, "
    "proved for log2 / 2^x over the reals (Props/C18Real exp2_log2)",
    "np.std (a square root) enters the model as a parameter (StdOk: its square is the variance of the beat periods)",
    "note_array() / compute_note_array() (property C05) provide the score table, with include_score_markings also the voice and the "
    "*feature* columns (the model carries their names and the voice column; the oracle compares their values with the table); "
    "PerformedPart.note_array() the performance table; PerformedPart(notes).notes hands the decoded notes back as given",
    "histories: an in-place edit enters the model as the change it makes to the note table (row of the note replaced / dropped / "
    "added, read off two fresh builds); that Part.add / remove / attribute assignment change note_array() that way is C01 / C05",
    "np.isclose in get_unique_seq (repair C18-11) is modelled over exact rationals: |a - b| <= 1e-8 + 1e-5 |b| (the two numbers are "
    "numpy's defaults, regenerated into Gen/C18Lits on every run)",
    "harness/translate_c18.py (ast over the live performance_codec.py / generic.py): the scale / rescale bodies, constants, column "
    "names, list literals, defaults and (round 6) the keys each alignment function passes through str() / looks up as they are, "
    "are what the source says (Props/C18Src ties the model to them: source_id_forms, source_column_names)",
    "Python / numpy semantics the alignment-form model assumes (Model/CodecAl): str(int) is the decimal numeral, str(None) = 'None'; a "
    "dict keyed by numpy strings finds a str key and no int / None key; `array_of_strings == non_string` matches nothing; a missing "
    "dict key raises KeyError; a missing field of a structured array raises (Model/CodecSeq decodeFullC); np.mean of an empty "
    "selection is NaN (uniqueSeq / toOnsetwise answer `none`)",
]
PARTIAL = [
    "duration_roundtrip_partial / matched_row_duration_partial / the duration clause of performance_roundtrip: performed durations "
    "below 0.075 s are replaced by 0.075 s in to_matched_score (open finding F-C18-4)",
    "articulation_grace_partial: the performed duration of grace notes (score duration 0) decodes to 0 (open finding F-C18-2)",
    "performance_roundtrip_matched_ids needs every id NAMED BY A MATCH to occur once in the score (decode_performance looks an id up "
    "by its last row, to_matched_score by its first; duplicate_matched_id_breaks: the condition cannot be dropped) and snote_ids as "
    "returned by the encoder; for snote_ids in another order decode_user_ids states exactly what is returned (values in sorted "
    "order, labels in the given order) - outside the property (its parameters come from encode_performance)",
    "a user-supplied tempo callable is covered by timing_roundtrip for any positive beat-period sequence; positivity is proved for the "
    "two built-in methods only - at any input_onsets, for the built-in grouping and (round 6, Props/C18Groups) for every caller-given "
    "unique_onset_idxs of non-empty groups whose mean score onsets increase in the order listed (groups_order_needed: listed "
    "backwards the same groups give negative beat periods, so the condition stays)",
    "rounding inside the binary64 / float32 ARITHMETIC (the float32 timing column, float32 group means, z*std + mean) is outside the "
    "theorems (exact rationals / reals) and bounded by the oracle's tolerance on every case; only the storage roundings named in "
    "TRUSTED are proved",
    "the VALUES of the feature columns of include_score_markings=True are judged by the oracle against compute_note_array, not modelled",
    "alignment entries whose ids are neither strings, integers nor None (floats, numpy scalars), labels that are not strings, and "
    "negative indices in a caller's unique_onset_idxs are outside the model (Model/CodecAl, pickGroups); that to_matched_score and "
    "get_matched_notes pass OPPOSITE sides of an entry through str() (id_sides_differ) is mirrored, not judged - the property "
    "does not say what a non-string id names",
]
RULE = ("seeded random single-part scores (1-3 voices, chords, ties, grace notes, grace notes at the very end of the part, optional "
        "pickup, divisions 1..24 and rare large divisions; built plainly or with read-only views interleaved - gen_score `warm`; "
        "passed as Part or as Score, the performance as PerformedPart or Performance) x note-for-note performances on a dyadic grid "
        "(free IOIs, tempo-following IOIs, constant tempo, chord spread, rare non-monotone chord means, rare short notes, `tie`: "
        "successive score onsets performed at EXACTLY the same time, `late`: a passage 100..5000 s into the recording with "
        "inter-onset intervals of microseconds that collide in the float32 note array) x "
        "alignments with deletions, insertions, ornaments, matches to unknown ids, shuffled order; in 3 of 10 cases the deletions "
        "are placed structurally (the performance stops at a grace note so that the matched table ends in notes without duration, "
        "stops / starts at an onset, first onset, main notes of grace notes, whole chords, everything but the grace notes, score "
        "ending in grace notes) x normalisation x tempo method (average, derivative, a user callable with arbitrary positive beat "
        "periods); every codec case also with include_score_markings (score object); in 3 of 10 cases a HISTORY on one score "
        "object: 1-3 stages of uses of the codec (to_matched_score with and "
        "without score markings, encode, encode+decode, time maps; with the case's or another performance / alignment) followed by "
        "in-place edits (note moved later, length changed, re-pitched, removed, new note), then the full evaluation on the edited "
        "object; plus direct note-array tables with duplicate/missing ids and pitches outside 1..127 (matched tables with and without "
        "markings, decode_performance with any subset/order of snote_ids, without snote_ids, with surplus / missing parameter rows, "
        "with return_alignment), direct monotonize_times inputs (increasing, random, plateaus, non-decreasing plateaus, decreasing, "
        "shuffled abscissae, no abscissae), direct ARRAYS for encode_tempo / decode_time / both tempo curves with input_onsets and a "
        "coarser unique_onset_idxs (negative, unsorted, third-of-a-beat score onsets; ties, collisions, non-monotone performed onsets; "
        "arrays of different lengths), direct inputs of the zero-order interpolator, get_unique_onset_idxs(eps, "
        "return_unique_onsets), notewise_to_onsetwise / onsetwise_to_notewise (partitions, overlapping and out-of-range groups), "
        "time-map cases, exhaustive velocities 1..127 and random scale/rescale rows; (round 6) alignments of any FORM on direct "
        "tables (entries without label, matches without score_id / performance_id, ids that are strings, integers whose str() "
        "names a note or not, None; numeric-looking and 'None' note ids) with to_matched_score twice on the list it rewrites and "
        "get_matched_notes before / after, parameter arrays with dropped / extra / reordered fields decoded under every "
        "normalisation, get_unique_seq on its own (both last_time branches, inferred and caller-given groups, empty group, index "
        "too far, arrays of different length, return_diff), the onset-wise helpers on 2-D and structured arrays.  distinct = distinct structural key "
        "(kind, #notes, #groups, flags, history length, structural pattern, normalisation, method); non-trivial = at least two onset "
        "groups matched")
LEVEL_TEXT = ("Lean theorems over exact rationals/reals for the whole pipeline: positivity of both built-in tempo curves for any performed "
              "onsets - ties and collisions included - at the unique score onsets and at any input_onsets (tempo_average_at_pos, "
              "tempo_derivative_at_pos; also when the matched table ends in notes without duration: last_time_grace_end), "
              "monotonize_times with and without abscissae, the zero-order tempo function, "
              "timing/duration/velocity round trip composed with to_matched_score and decode_performance's bookkeeping "
              "(performance_roundtrip, performance_roundtrip_matched_ids with the weakest condition on ids), decode_performance with all "
              "it returns (pitch clip, alignment, default and user-given snote_ids), the column dispatch of include_score_markings, "
              "normalisations, matched tables and time maps from an alignment (monotone when the performed onsets are), the helpers "
              "get_unique_onset_idxs(eps) / notewise<->onsetwise (1-D, 2-D, structured), get_unique_seq on its own, both tempo curves on any "
              "caller-given grouping with increasing mean onsets, alignments of any form (missing keys, integer / None ids, the in-place "
              "rewriting of the caller's list: matched_table_any_form, matched_score_twice, matched_notes_after_matched_score), the column "
              "dispatch of decode_performance across normalisations (encoded_columns_decode), proved bounds for the float32 storage of the logarithmic columns, "
              "articulation and velocity, and the same round trip after "
              "any history of in-place edits and earlier uses of one score object (history_roundtrip, history_fresh); tied to the Python "
              "code by a translator that regenerates scale/rescale bodies, constants, column names and defaults from the live source "
              "(Props/C18Src), by differential testing of every intermediate table (matched score with and without markings, onset "
              "groups, monotonized times, tempo curve of "
              "either method in binary64 at default and caller-given sampling points / groupings, timing, articulation ratio, "
              "normalisation columns, encode_tempo and encode_performance as a whole incl. "
              "snote_ids, decoded notes incl. pitch and returned alignment, time-map knots and both maps, whole histories of edits and "
              "uses on one object), and by the "
              "oracle's comparison of every use with the same call on a fresh score of equal value.")

NORMS = ["beat_period", "beat_period_log", "beat_period_ratio", "beat_period_ratio_log", "beat_period_standardized"]
METHODS = ["average", "derivative", "callable"]
T32 = 2.0 ** -20
CLIP = 60 / 200 * 0.25


# ---------------------------------------------------------------------------------- generation
def _dy(rng, lo, hi, den):
    return rng.randint(lo, hi) / den


STRUCTS = ["stop_at_grace", "stop_at_grace", "stop_at", "late_start", "del_first", "grace_mains", "del_chords", "only_graces",
           "end_grace", "end_grace"]
STEPS = "CDEFGAB"


def _end_of(d):
    return max([n["t"] + n["dur"] for n in d["notes"]] or [0])


def add_end_graces(rng, d):
    """a score ENDING in grace notes: grace notes without a main note at the very end of the part (after the last note of
    a voice), optionally a second one"""
    end = _end_of(d)
    voices = sorted(set(n["voice"] for n in d["notes"])) or [1]
    for k in range(rng.choice([1, 1, 2])):
        d["notes"].append({"id": "ge%d" % k, "t": end, "dur": 0, "kind": "grace", "step": rng.choice(STEPS), "alter": 0,
                           "oct": rng.randint(3, 5), "voice": rng.choice(voices), "staff": 1,
                           "grace_type": rng.choice(["grace", "acciaccatura", "appoggiatura"])})


def add_grace_before(rng, d):
    """a grace note in front of a main note near the end of the part (so that `stop_at_grace` has something to stop at)"""
    mains = [n for n in d["notes"] if n["kind"] == "note"]
    if not mains:
        return
    ts = sorted(set(n["t"] for n in mains))
    t = rng.choice(ts[-3:])
    m = rng.choice([n for n in mains if n["t"] == t])
    i = d["notes"].index(m)
    d["notes"].insert(i, {"id": "gb0", "t": t, "dur": 0, "kind": "grace", "step": rng.choice(STEPS), "alter": 0,
                          "oct": rng.randint(3, 5), "voice": m["voice"], "staff": m.get("staff", 1),
                          "grace_type": rng.choice(["grace", "acciaccatura", "appoggiatura"])})


def gen_hist(rng, d):
    """a history on ONE score object: stages of (read-only uses of the codec, in-place edits).  The edits move a note
    later inside its own span, change its length, its pitch, remove it or add a new note; tied notes and the main notes of
    grace notes stay where they are."""
    cur = {n["id"]: dict(n) for n in d["notes"]}
    end = _end_of(d)
    tied = set(n["id"] for n in d["notes"] if n.get("tie")) | set(n.get("tie") for n in d["notes"] if n.get("tie"))
    gr = set((n["t"], n["voice"]) for n in d["notes"] if n["kind"] == "grace")
    voices = sorted(set(n["voice"] for n in d["notes"])) or [1]
    stages = []
    for s in range(rng.choice([1, 1, 2, 3])):
        obs = []
        for _ in range(rng.choice([1, 1, 2, 3])):
            f = rng.choice(["enc", "enc", "enc", "ms", "ms", "msf", "dec", "tm"])
            o = {"f": f, "alt": rng.random() < 0.3}
            if f in ("enc", "dec"):
                o["norm"], o["method"] = rng.choice(NORMS), rng.choice(["average", "derivative"])
            if f == "tm":
                o["ro"] = rng.random() < 0.5
            obs.append(o)
        edits = []
        cand = [i for i, n in cur.items() if n["kind"] == "note" and i not in tied and (n["t"], n["voice"]) not in gr]
        rng.shuffle(cand)
        for i in cand[:rng.choice([1, 1, 2, 3])]:
            n = cur[i]
            r = rng.random()
            if r < 0.3 and n["dur"] > 1:
                k = rng.randint(1, n["dur"] - 1)
                n["t"] += k
                n["dur"] -= k
                edits.append(["move", i, n["t"], n["dur"]])
            elif r < 0.55 and end - n["t"] > 1:
                n["dur"] = rng.choice([x for x in range(1, end - n["t"] + 1) if x != n["dur"]][:64])
                edits.append(["move", i, n["t"], n["dur"]])
            elif r < 0.85:
                n["step"], n["alter"], n["oct"] = rng.choice(STEPS), rng.choice([-1, 0, 0, 1]), rng.randint(2, 6)
                edits.append(["pitch", i, n["step"], n["alter"], n["oct"]])
            else:
                del cur[i]
                edits.append(["del", i])
        if rng.random() < 0.25 and end > 0:
            t = rng.randrange(0, end)
            n = {"id": "x%d" % s, "t": t, "dur": rng.randint(1, end - t), "kind": "note", "step": rng.choice(STEPS), "alter": 0,
                 "oct": rng.randint(2, 6), "voice": rng.choice(voices), "staff": 1}
            if (n["t"], n["voice"]) not in gr:
                cur[n["id"]] = n
                edits.append(["add", n])
        if edits:
            stages.append({"obs": obs, "edits": edits})
    return stages


def struct_deletions(rng, name, na):
    """ids of the score notes a structurally placed set of deletions removes from the matches"""
    if not len(na):
        return set()
    on = [int(x) for x in na["onset_div"]]
    du = [int(x) for x in na["duration_div"]]
    ids = [str(x) for x in na["id"]]
    idx = range(len(na))
    gon = sorted(set(on[i] for i in idx if du[i] == 0))
    ons = sorted(set(on))
    if name in ("stop_at_grace", "end_grace") and gon:
        # the performance stops at a grace note: everything sounding past its onset is a deletion, so that the
        # matched-note table ENDS in notes without duration
        late = [t for t in gon if t > ons[0]] or gon
        T = late[-1] if (name == "end_grace" or rng.random() < 0.5) else rng.choice(late)
        return set(ids[i] for i in idx if on[i] > T or (du[i] > 0 and on[i] + du[i] > T))
    if name in ("stop_at", "stop_at_grace", "end_grace"):
        T = rng.choice(ons)
        return set(ids[i] for i in idx if on[i] > T)
    if name == "late_start":
        T = rng.choice(ons)
        return set(ids[i] for i in idx if on[i] < T)
    if name == "del_first":
        keep_grace = rng.random() < 0.5
        return set(ids[i] for i in idx if on[i] == ons[0] and not (keep_grace and du[i] == 0))
    if name == "grace_mains":
        return set(ids[i] for i in idx if du[i] > 0 and on[i] in gon)
    if name == "del_chords":
        pick = set(t for t in ons if rng.random() < 0.4)
        return set(ids[i] for i in idx if on[i] in pick)
    if name == "only_graces":
        return set(ids[i] for i in idx if du[i] > 0) if gon else set()
    return set()


def gen_codec(rng, tier, big=False, flavour=None):
    """flavour: None (plain), "hist" (one score object used, edited in place, used again), "struct" (deletions placed at
    structurally special notes / scores ending in grace notes)"""
    from gen_score import random_part_desc, build_part

    divs = rng.choice([1, 2, 3, 4, 4, 6, 8, 12, 24])
    if big or rng.random() < 0.04:
        divs = rng.choice([480, 960, 10080, 20000, 40000])
    voices = rng.choice([1, 2, 2, 3])
    struct = rng.choice(STRUCTS) if flavour == "struct" else None
    p_grace = rng.choice([0, 0, 0, 0.2])
    if struct in ("stop_at_grace", "grace_mains", "only_graces", "del_first"):
        p_grace = rng.choice([0.15, 0.3])
        voices = rng.choice([1, 1, 2, 3])
    d = random_part_desc(rng, divs=divs, n_measures=rng.randint(1, 3 if tier == "quick" else 5), voices=voices,
                         p_grace=p_grace, p_rest=0.1, p_chord=rng.choice([0.1, 0.4]))
    if divs > 24 and rng.random() < 0.7:
        # move some notes by one or two divisions: distinct onsets closer than 1e-4 beat
        for n in d["notes"]:
            if n["kind"] == "note" and rng.random() < 0.3 and n["dur"] > 4:
                k = rng.choice([1, 2, 3])
                n["t"] += k
                n["dur"] -= k
    if rng.random() < 0.3 and d["notes"]:
        # pickup: a short first measure
        b, bt = d["ts"][0][1], d["ts"][0][2]
        blen = max(1, int(Fraction(4 * b * d["divs"], bt)))
        pk = rng.randint(1, max(1, blen - 1))
        end = max(n["t"] + n["dur"] for n in d["notes"])
        ms = [[0, pk, 1]]
        t = pk
        k = 2
        while t < end:
            ms.append([t, t + blen, k])
            t += blen
            k += 1
        d["measures"] = ms
    if struct == "end_grace" or rng.random() < 0.06:
        add_end_graces(rng, d)
    if struct == "stop_at_grace" and rng.random() < 0.6:
        add_grace_before(rng, d)
    if rng.random() < 0.35 and d["notes"]:
        # score markings (dynamics and tempo directions): what include_score_markings=True puts into the matched score
        end = max(1, _end_of(d))
        cuts = sorted(set([0, end] + [rng.randrange(0, end + 1) for _ in range(rng.choice([1, 2, 3]))]))
        for a, b in zip(cuts, cuts[1:]):
            r = rng.random()
            if r < 0.45:
                d["extras"].append(["ConstantLoudnessDirection", a, b, {"text": rng.choice(["pp", "p", "mf", "f", "ff"])}])
            elif r < 0.65:
                d["extras"].append([rng.choice(["IncreasingLoudnessDirection", "DecreasingLoudnessDirection"]), a, b, {"text": "hairpin"}])
            elif r < 0.8:
                d["extras"].append(["ConstantTempoDirection", a, b, {"text": rng.choice(["adagio", "allegro", "andante"])}])
            elif r < 0.9:
                d["extras"].append([rng.choice(["IncreasingTempoDirection", "DecreasingTempoDirection"]), a, b, {"text": "rit."}])
    if rng.random() < (0.5 if flavour == "hist" else 0.2):
        # read-only views interleaved with the construction of the part (gen_score.build_part)
        d["warm"] = rng.randrange(1, 128)
    hist = gen_hist(rng, d) if flavour == "hist" else []
    part = realise(dict(d, warm=0), hist)
    na = part.note_array()
    mode = rng.choice(["free", "free", "tempo", "tempo", "const", "nonmono", "tie", "late"])
    short = rng.random() < 0.12
    t = _dy(rng, 16, 256, 64)
    if mode == "late":
        # a late passage: the single-precision note array of the performance resolves 8e-6 s at 100 s, 5e-4 s at 5000 s, so
        # strictly positive inter-onset intervals of microseconds COLLIDE (equal performed onsets as the codec sees them)
        t += rng.choice([100, 100, 300, 1000, 5000])
    base = rng.choice([0.25, 0.5, 0.5, 0.75, 1.0])
    perf, al = [], []
    last_div, last_beat = None, None
    pk = 0
    order = list(range(len(na)))
    gone = struct_deletions(rng, struct, na) if struct else set()
    p_del = 0.08 if not struct else rng.choice([0, 0, 0.05])
    for i in order:
        n = na[i]
        if last_div is not None and n["onset_div"] != last_div:
            ds = float(n["onset_beat"]) - last_beat
            if mode in ("free", "nonmono"):
                t += _dy(rng, 1, 160, 64)
            elif mode == "tie":
                # successive score onsets performed at exactly the same time (and never earlier): a plateau of the mean
                # performed onsets, which monotonize_times has to interpolate over
                t += 0 if rng.random() < 0.4 else _dy(rng, 1, 160, 64)
            elif mode == "late":
                t += rng.randint(1, 40) * 1e-6 if rng.random() < 0.4 else _dy(rng, 1, 160, 64)
            elif mode == "tempo":
                t += max(1, round(ds * base * 2 ** rng.uniform(-0.4, 0.4) * 256)) / 256
            else:
                t += max(1, round(ds * base * 1024)) / 1024
        if last_div is None or n["onset_div"] != last_div:
            last_div, last_beat = n["onset_div"], float(n["onset_beat"])
        r = rng.random()
        if r < p_del and str(n["id"]) not in gone:
            al.append({"label": "deletion", "score_id": str(n["id"])})
            continue
        if mode in ("const", "tie"):
            sp = 0
        elif mode == "late":
            sp = rng.choice([0, 0, 0, 1e-6, 3e-6, 1 / 128])
        elif mode == "nonmono":
            sp = rng.randint(-96, 96) / 128
        else:
            sp = rng.choice([0, 0, 0, 1, 2, 3, -1, -2, 5]) / 128
        on = max(0.0, t + sp)
        if mode == "const" and float(n["duration_beat"]) > 0:
            du = max(1, round(float(n["duration_beat"]) * base * 1024)) / 1024
        elif short:
            du = _dy(rng, 1, 64, 256)
        else:
            du = _dy(rng, 5, 128, 64)
        pid = "p%d" % pk
        pk += 1
        perf.append({"id": pid, "pitch": int(n["pitch"]), "on": on, "dur": du, "vel": rng.randint(1, 127)})
        if str(n["id"]) in gone:
            # the score note was left out and the note played in its place is an extra one
            al.append({"label": "deletion", "score_id": str(n["id"])})
            if rng.random() < 0.7:
                al.append({"label": "insertion", "performance_id": pid})
            else:
                perf.pop()
            continue
        al.append({"label": "match", "score_id": str(n["id"]), "performance_id": pid})
    # insertions, ornaments, matches to ids the score does not have (among them the ids of notes the history removed)
    removed = [e[1] for st in hist for e in st["edits"] if e[0] == "del"]
    extra = [("match", i) for i in removed] + [(None, None)] * rng.choice([0, 0, 1, 2, 3])
    for lab, sid in extra:
        pid = "p%d" % pk
        pk += 1
        perf.append({"id": pid, "pitch": rng.randint(30, 90), "on": _dy(rng, 0, 1024, 64), "dur": _dy(rng, 5, 64, 64),
                     "vel": rng.randint(1, 127)})
        if lab == "match":
            al.append({"label": "match", "score_id": sid, "performance_id": pid})
            continue
        r = rng.random()
        if r < 0.5:
            al.append({"label": "insertion", "performance_id": pid})
        elif r < 0.75 and len(na):
            al.append({"label": "ornament", "score_id": str(na[rng.randrange(len(na))]["id"]), "performance_id": pid})
        else:
            tied = [n["tie"] for n in d["notes"] if n.get("tie")]
            look = [lookalike_id(rng, [m["id"] for m in d["notes"]]) for _ in range(2)]
            al.append({"label": "match", "score_id": rng.choice(tied + ["zz9"] + look), "performance_id": pid})
    if rng.random() < 0.5:
        rng.shuffle(al)
    if rng.random() < 0.3:
        rng.shuffle(perf)
    if tier == "quick":
        combos = [[rng.choice(NORMS), rng.choice(METHODS)] for _ in range(2)]
        if struct:
            # the mean-based normalisations spread one bad beat period over every note
            combos[0] = [rng.choice(NORMS[2:]), rng.choice(METHODS[:2])]
    else:
        combos = [[a, b] for a in NORMS for b in METHODS]
    out = {"k": "codec", "part": d, "perf": perf, "al": al, "combos": combos, "mode": mode, "short": short}
    if hist:
        out["hist"] = hist
    if struct:
        out["struct"] = struct
    if rng.random() < 0.25:
        out["as"] = "score"
    if rng.random() < 0.15:
        out["pas"] = "performance"
    return out


def lookalike_id(rng, ids, fallback="zz9"):
    """round 6 (missed seed k): an id that LOOKS LIKE an existing one without being it - the repetition suffix of an unfolded
    score (`n3-2` next to `n3`), other suffixes / prefixes, a proper prefix, another case, surrounding blanks.  Whatever
    normalisation of ids an implementation applies (strip the suffix, strip blanks, fold the case, prefix search), such a
    match names no note of THIS score and must be left out of the table."""
    ids = [str(i) for i in ids if str(i)]
    if not ids:
        return fallback
    x = rng.choice(ids)
    r = rng.random()
    if r < 0.5:
        return x + "-" + rng.choice(["1", "2", "2", "3", "10", "x", ""])
    return rng.choice([x + "-2-3", "-" + x, "2-" + x, x + "_2", x + ".2", x + "2", x[:-1] or fallback, x.upper() if x.upper() != x else x.lower(),
                       " " + x, x + " ", x + "-" + x, x.rsplit("-", 1)[0] + "-"])


def gen_tables(rng):
    """direct note-array tables: duplicate ids, ids missing on either side"""
    ns = rng.randint(0, 7)
    npf = rng.randint(0, 7)
    sids = ["s%d" % rng.randint(0, 6) if rng.random() < 0.3 else "s%d" % i for i in range(ns)]
    pids = ["p%d" % rng.randint(0, 6) if rng.random() < 0.2 else "p%d" % i for i in range(npf)]
    score = [{"id": sids[i], "odiv": rng.randint(0, 4), "pitch": rng.randint(58, 62), "so": 0.0, "sd": rng.choice([0, 1, 2]) / 2} for i in range(ns)]
    for sc in score:
        if rng.random() < 0.08:
            sc["pitch"] = rng.choice([0, -3, 128, 130])  # outside the MIDI range: decode_performance clips
    for s in score:
        s["so"] = s["odiv"] / 2
    perf = [{"id": pids[i], "on": _dy(rng, 0, 256, 64), "dur": rng.choice([_dy(rng, 1, 64, 256), _dy(rng, 5, 64, 64)]),
             "vel": rng.randint(1, 127), "pitch": 60} for i in range(npf)]
    al = []
    for _ in range(rng.randint(0, 9)):
        lab = rng.choice(["match", "match", "match", "insertion", "deletion", "ornament"])
        sid = "s%d" % rng.randint(0, 8)
        pid = "p%d" % rng.randint(0, 8 if rng.random() < 0.3 else max(0, npf - 1))
        if rng.random() < 0.2:
            sid = lookalike_id(rng, sids, sid)
        elif rng.random() < 0.06:
            pid = lookalike_id(rng, pids, pid)
        if lab == "insertion":
            al.append({"label": lab, "performance_id": pid})
        elif lab == "deletion":
            al.append({"label": lab, "score_id": sid})
        else:
            al.append({"label": lab, "score_id": sid, "performance_id": pid})
    return {"k": "tables", "score": score, "perf": perf, "al": al}


def gen_alforms(rng):
    """round 6: alignments of any FORM on direct note-array tables - entries without `label`, matches without `score_id` /
    `performance_id`, ids that are strings, integers (whose str() may or may not name a note) or None"""
    ns, npf = rng.randint(1, 6), rng.randint(1, 6)
    pool_s = ["s0", "s1", "3", "-2", "None", "7", "s2", "12"]
    pool_p = ["p0", "p1", "5", "-4", "None", "3", "p2", "9"]
    rng.shuffle(pool_s)
    rng.shuffle(pool_p)
    sids = [rng.choice(pool_s[:ns]) if rng.random() < 0.15 else pool_s[i] for i in range(ns)]
    pids = [rng.choice(pool_p[:npf]) if rng.random() < 0.15 else pool_p[i] for i in range(npf)]
    score = [{"id": sids[i], "odiv": rng.randint(0, 4), "pitch": rng.randint(58, 62), "so": 0.0, "sd": rng.choice([0, 1, 2]) / 2} for i in range(ns)]
    for sc in score:
        sc["so"] = sc["odiv"] / 2
    perf = [{"id": pids[i], "on": _dy(rng, 0, 256, 64), "dur": _dy(rng, 5, 64, 64), "vel": rng.randint(1, 127), "pitch": 60} for i in range(npf)]
    wild = rng.random() < 0.6     # else: every match complete and with string ids (the oracle judges those)

    def ident(pool, known):
        x = rng.choice(known) if rng.random() < 0.8 else rng.choice(pool)
        if rng.random() < 0.15:
            x = lookalike_id(rng, known, x)
        r = rng.random()
        if not wild or r < 0.45:
            return x
        if r < 0.8:
            try:
                return int(x)          # an integer whose str() names a note
            except ValueError:
                return rng.choice([0, 3, -2, 5, 41])
        if r < 0.9:
            return None
        return x

    al = []
    for _ in range(rng.randint(0, 7)):
        lab = rng.choice(["match", "match", "match", "match", "insertion", "deletion", "ornament"])
        a = {"label": lab}
        if lab != "insertion" or rng.random() < 0.2:
            a["score_id"] = ident(pool_s, sids)
        if lab != "deletion" or rng.random() < 0.2:
            a["performance_id"] = ident(pool_p, pids)
        if wild and lab == "match" and rng.random() < 0.12:
            del a[rng.choice(["score_id", "performance_id"])]
        if lab != "match" and rng.random() < 0.3:
            a.pop(rng.choice(["score_id", "performance_id"]), None)
        if wild and rng.random() < 0.05:
            del a["label"]
        al.append(a)
    return {"k": "alforms", "score": score, "perf": perf, "al": al, "wild": wild}


def gen_scale(rng):
    m = rng.randint(1, 8)
    r = rng.random()
    if r < 0.2:
        bps = [_dy(rng, 1, 256, 128)] * m
    else:
        bps = [_dy(rng, 1, 512, 128) for _ in range(m)]
    return {"k": "scale", "bps": bps}


def gen_mono(rng):
    """direct input of monotonize_times: abscissae (mostly increasing, sometimes shuffled) and arbitrary values"""
    n = rng.randint(1, 9)
    xs, x = [], _dy(rng, -64, 64, 16)
    for _ in range(n):
        xs.append(x)
        x += _dy(rng, 1, 48, 16)
    if rng.random() < 0.3:
        rng.shuffle(xs)
    mode = rng.choice(["inc", "rand", "rand", "plateau", "dec", "incplateau"])
    ss, s = [], _dy(rng, 0, 256, 32)
    for _ in range(n):
        ss.append(s)
        if mode == "inc":
            s += _dy(rng, 1, 64, 32)
        elif mode == "rand":
            s += _dy(rng, -64, 64, 32)
        elif mode == "plateau":
            s += rng.choice([0, 0, _dy(rng, 1, 64, 32), -_dy(rng, 1, 64, 32)])
        elif mode == "incplateau":
            s += rng.choice([0, _dy(rng, 1, 64, 32)])  # never decreasing, not strictly increasing
        else:
            s -= _dy(rng, 0, 64, 32)
    return {"k": "mono", "xs": xs, "ss": ss, "mode": mode}


def gen_arrays(rng):
    """direct input of encode_tempo / decode_time / tempo_by_average / tempo_by_derivative: four arrays (score onsets that
    may be negative, unsorted, a third of a beat apart; chords; notes without score duration), performed onsets of every
    kind (free, exact ties between successive score onsets, non-monotone, a late passage with colliding onsets), optional
    `input_onsets` and a coarser `unique_onset_idxs`, arrays of different lengths"""
    g = rng.randint(1, 7)
    so, sd, po, pd = [], [], [], []
    t = _dy(rng, -8, 16, 4)
    mode = rng.choice(["free", "free", "tie", "nonmono", "late"])
    p = _dy(rng, 16, 256, 64) + (rng.choice([100, 1000]) if mode == "late" else 0)
    third = rng.random() < 0.25
    for k in range(g):
        for _ in range(rng.choice([1, 1, 1, 2, 3])):
            so.append(float(np.float32(t / 3)) if third else t)
            sd.append(0 if rng.random() < 0.12 else _dy(rng, 1, 8, 4))
            sp = 0 if mode in ("tie", "late") else (rng.randint(-96, 96) / 128 if mode == "nonmono" else rng.choice([0, 0, 1, -2, 3]) / 128)
            po.append(max(0.0, p + sp))
            pd.append(_dy(rng, 1, 128, 64))
        t += rng.choice([1, 1, 2, 3, 4, 6]) / 4
        if mode == "tie":
            p += 0 if rng.random() < 0.4 else _dy(rng, 1, 160, 64)
        elif mode == "late":
            p += rng.randint(1, 40) * 1e-6 if rng.random() < 0.4 else _dy(rng, 1, 160, 64)
        else:
            p += _dy(rng, 1, 160, 64)
    if mode == "late":
        po = [float(np.float32(x)) for x in po]
    if rng.random() < 0.3:
        order = list(range(len(so)))
        rng.shuffle(order)
        so, sd, po, pd = ([a[i] for i in order] for a in (so, sd, po, pd))
    d = {"k": "arrays", "so": so, "sd": sd, "po": po, "pd": pd, "mode": mode, "norm": rng.choice(NORMS), "seed": rng.randrange(1 << 30)}
    r = rng.random()
    if r < 0.12:
        d["cut"] = rng.choice(["so", "po", "sd", "pd"])
    elif r < 0.15:
        d["cut"] = "all"
    return d


def gen_helpers(rng):
    """direct inputs of the helpers: the zero-order interpolator of tempo_by_average, monotonize_times without abscissae,
    get_unique_onset_idxs with eps / return_unique_onsets, notewise_to_onsetwise / onsetwise_to_notewise"""
    n = rng.randint(1, 7)
    xs, x = [], _dy(rng, -16, 16, 4)
    for _ in range(n):
        xs.append(x)
        x += _dy(rng, 1, 12, 4)
    ys = [_dy(rng, 1, 256, 64) for _ in xs]
    ks = list(zip(xs, ys))
    if rng.random() < 0.3:
        rng.shuffle(ks)
    qs = [xs[0] - 0.75, xs[-1] + 0.5] + list(xs) + [(a + b) / 2 for a, b in zip(xs, xs[1:])] + [_dy(rng, -80, 120, 8) for _ in range(3)]
    m = rng.randint(1, 8)
    mmode = rng.choice(["inc", "rand", "plateau", "incplateau", "dec"])
    ss, v = [], _dy(rng, 0, 256, 32)
    for _ in range(m):
        ss.append(v)
        v += {"inc": _dy(rng, 1, 64, 32), "rand": _dy(rng, -64, 64, 32), "plateau": rng.choice([0, 0, _dy(rng, 1, 64, 32), -_dy(rng, 1, 64, 32)]),
              "incplateau": rng.choice([0, _dy(rng, 1, 64, 32)]), "dec": -_dy(rng, 0, 64, 32)}[mmode]
    # onsets for get_unique_onset_idxs: clusters narrower / wider than eps
    eps = rng.choice([1e-6, 1e-6, 0.0, 0.125, 0.5])
    ons, o = [], _dy(rng, -8, 8, 4)
    for _ in range(rng.randint(1, 8)):
        ons.append(o)
        o += rng.choice([0, 2 ** -21, 2 ** -19, 0.125, 0.25, 0.5, 1.0])
    rng.shuffle(ons)
    # a partition of range(k) into groups (shuffled), or - rarely - index lists that overlap / leave cells out / go too far
    k = rng.randint(1, 8)
    cells = list(range(k))
    rng.shuffle(cells)
    groups, i = [], 0
    while i < k:
        j = min(k, i + rng.choice([1, 1, 2, 3]))
        groups.append(cells[i:j])
        i = j
    gkind = "partition"
    r = rng.random()
    if r < 0.1:
        groups[-1] = groups[-1] + [groups[0][0]]
        gkind = "overlap"
    elif r < 0.18:
        groups[0] = [groups[0][0] + k]
        gkind = "outside"
    vals = [_dy(rng, -64, 64, 8) for _ in range(k + (1 if gkind == "overlap" else 0))]
    wvals = [_dy(rng, -64, 64, 8) for _ in range(len(groups) - (1 if rng.random() < 0.08 else 0))]
    out = {"k": "helpers", "ks": ks, "lo": _dy(rng, 1, 64, 16), "hi": _dy(rng, 1, 64, 16), "qs": qs, "ss": ss, "mmode": mmode,
           "eps": eps, "ons": ons, "groups": groups, "gkind": gkind, "vals": vals, "wvals": wvals}
    # round 6: two-dimensional / structured inputs of the same helpers (1-3 columns), and get_unique_seq on its own:
    # onsets with offsets (durations 0 = notes without duration, so that `last_time` takes both branches), the groups inferred
    # or given by the caller (the partition above when it fits, rarely an index too far or an empty group), return_diff
    ncol = rng.randint(1, 3)
    out["cols"] = [[_dy(rng, -64, 64, 8) for _ in vals] for _ in range(ncol)]
    out["wcols"] = [[_dy(rng, -64, 64, 8) for _ in wvals] for _ in range(ncol)]
    out["structured"] = rng.random() < 0.4
    m = rng.randint(0, 7) if rng.random() < 0.1 else len(ons)
    uo = (ons * 2)[:m]
    durs = [rng.choice([0, 0, 0.25, 0.5, 1.0, 2.0]) for _ in uo]
    if rng.random() < 0.35:
        durs = [0 if x == max(uo) else d_ for x, d_ in zip(uo, durs)]       # the last onset carries only notes without duration
    r = rng.random()
    if r < 0.5 or not uo:
        uidx = None
    else:
        cells = list(range(len(uo)))
        rng.shuffle(cells)
        uidx, i = [], 0
        while i < len(cells):
            j = min(len(cells), i + rng.choice([1, 1, 2, 3]))
            uidx.append(cells[i:j])
            i = j
        if r < 0.56:
            uidx[-1] = uidx[-1] + [len(uo) + 1]
        elif r < 0.62:
            uidx.insert(rng.randrange(len(uidx) + 1), [])
    out["useq"] = {"ons": uo, "offs": [a + b for a, b in zip(uo, durs)][:len(uo) - (1 if (uo and rng.random() < 0.05) else 0)],
                   "idx": uidx, "diff": rng.random() < 0.5}
    return out


def cases(rng, tier):
    for v in range(1, 128):
        yield {"k": "vel", "v": v}
    for _ in range({"quick": 60, "thorough": 1500, "search": 1500}[tier]):
        sub = random.Random(rng.getrandbits(48))
        yield gen_mono(sub)
    n_codec = {"quick": 150, "thorough": 3600, "search": 3600}[tier]
    n_tab = {"quick": 80, "thorough": 1500, "search": 1500}[tier]
    for i in range(n_codec):
        sub = random.Random(rng.getrandbits(48))
        flavour = [None, None, "hist", "struct", None, "hist", "struct", None, "hist", "struct"][i % 10]
        yield gen_codec(sub, tier, big=(i % 25 == 7), flavour=flavour)
    for _ in range(n_tab):
        sub = random.Random(rng.getrandbits(48))
        yield gen_tables(sub)
    for _ in range(n_tab):
        sub = random.Random(rng.getrandbits(48))
        yield gen_scale(sub)
    for _ in range({"quick": 120, "thorough": 2500, "search": 2500}[tier]):
        sub = random.Random(rng.getrandbits(48))
        yield gen_arrays(sub)
    for _ in range({"quick": 80, "thorough": 1500, "search": 1500}[tier]):
        sub = random.Random(rng.getrandbits(48))
        yield gen_helpers(sub)
    for _ in range({"quick": 150, "thorough": 3000, "search": 3000}[tier]):
        sub = random.Random(rng.getrandbits(48))
        yield gen_alforms(sub)


# ---------------------------------------------------------------------------------- helpers
def fr(x):
    return W.as_fraction(x)


def q(x):
    return W.q(fr(x))


def al_tokens(al):
    out = [str(len(al))]
    for a in al:
        out += [W.s(a["label"]), W.opt(W.s, a.get("score_id")), W.opt(W.s, a.get("performance_id"))]
    return out


def score_tokens(na):
    out = [str(len(na))]
    for n in na:
        out += [W.s(n["id"]), W.i(n["onset_div"]), W.i(n["pitch"]), q(n["onset_beat"]), q(n["duration_beat"])]
    return out


def perf_tokens(pna):
    out = [str(len(pna))]
    for n in pna:
        out += [W.s(n["id"]), q(n["onset_sec"]), q(n["duration_sec"]), W.i(n["velocity"])]
    return out


def copy_al(al):
    return [dict(a) for a in al]


def call(f, *a, **kw):
    try:
        return f(*a, **kw), None
    except Exception as e:
        return None, e


def build_perf(perf):
    from partitura.performance import PerformedPart

    return PerformedPart([dict(id=p["id"], midi_pitch=p["pitch"], note_on=p["on"], note_off=p["on"] + p["dur"],
                               velocity=p["vel"]) for p in perf])


def note_objects(part):
    import partitura.score as S

    return dict((n.id, n) for n in part.iter_all(S.GenericNote, include_subclasses=True))


def apply_edits(part, edits):
    """in-place edits of a score object, the way an editor / a cleaning step does them (public API only)"""
    import partitura.score as S

    objs = note_objects(part)
    for e in edits:
        if e[0] == "add":
            n = e[1]
            o = S.Note(step=n["step"], octave=n["oct"], alter=n.get("alter"), id=n["id"], voice=n.get("voice"), staff=n.get("staff"))
            part.add(o, n["t"], n["t"] + n["dur"])
            objs[n["id"]] = o
            continue
        o = objs.get(e[1])
        if o is None:
            continue
        if e[0] == "move":
            part.remove(o)
            part.add(o, e[2], e[2] + e[3])
        elif e[0] == "pitch":
            o.step, o.alter, o.octave = e[2], e[3], e[4]
        elif e[0] == "del":
            part.remove(o)
            del objs[e[1]]


def realise(pd, hist, upto=None):
    """the part after the edits of the stages `hist[:upto]`, built without any use of the codec in between"""
    from gen_score import build_part

    part = build_part(pd)
    for st in (hist if upto is None else hist[:upto]):
        apply_edits(part, st["edits"])
    return part


def wrap(part, kind):
    """the score argument: a Part or a Score holding it (`ScoreLike`)"""
    if kind == "score":
        import partitura.score as S

        return S.Score([part])
    return part


def wrap_perf(pp, kind):
    if kind == "performance":
        from partitura.performance import Performance

        return Performance(pp)
    return pp


def alt_inputs(perf, al):
    """another performance of the same notes (other onsets, durations, velocities) and a thinner alignment: what an
    earlier use of the same score object may have been about"""
    perf2 = [dict(p, on=p["on"] * 1.25 + 0.5, dur=p["dur"] * 0.5 + 0.125, vel=128 - p["vel"]) for p in perf]
    k = 0
    al2 = []
    for a in al:
        if a["label"] == "match":
            k += 1
            if k % 3 == 0:
                continue
        al2.append(a)
    return perf2, al2


def _val(x):
    if isinstance(x, np.ndarray):
        return [_val(v) for v in x.tolist()]
    if isinstance(x, (list, tuple)):
        return [_val(v) for v in x]
    if isinstance(x, (float, np.floating)):
        x = float(x)
        return "nan" if x != x else x
    if isinstance(x, (np.integer,)):
        return int(x)
    return x


def observe(obj, pobj, al, o):
    """one read-only use of the codec with the score object `obj`; returns (value, raw): `value` is plain data (NaN as
    "nan") that two equal-valued scores must give bit for bit, `raw` the arrays themselves"""
    import partitura.musicanalysis.performance_codec as pc

    f = o["f"]
    try:
        if f in ("ms", "msf"):
            ms, sids = pc.to_matched_score(obj, pobj, copy_al(al), include_score_markings=(f == "msf"))
            val = ["ms"] + [_val(ms[c]) for c in ("onset", "duration", "pitch", "p_onset", "p_duration", "velocity")] + [[str(x) for x in sids]]
            return val, (ms, sids)
        if f in ("enc", "dec"):
            smooth = o["method"] if o["method"] != "callable" else make_callable(4711)
            params, sids = pc.encode_performance(obj, pobj, copy_al(al), beat_normalization=o["norm"], tempo_smooth=smooth)
            out = ["enc", list(params.dtype.names)] + [_val(params[c]) for c in params.dtype.names] + [[str(x) for x in sids]]
            if f == "dec":
                dec = pc.decode_performance(obj, params, snote_ids=list(sids), beat_normalization=o["norm"])
                out.append([[str(n["id"]), int(n["midi_pitch"]), _val(float(n["note_on"])), _val(float(n["note_off"])), int(n["velocity"])]
                            for n in dec.notes])
            return out, (params, sids)
        if f == "tm":
            p2s, s2p = pc.get_time_maps_from_alignment(pobj, obj, copy_al(al), bool(o.get("ro")))
            qs = np.array([-1.0, 0.0, 0.5, 1.0, 2.5, 7.0])
            return ["tm", _val(np.atleast_1d(s2p(qs))), _val(np.atleast_1d(p2s(qs)))], (p2s, s2p)
    except Exception as e:
        return ["err", type(e).__name__], None
    return ["?"], None


def table_edits(a, b):
    """the edits (model side, `SEdit`) that turn the note table `a` into `b`; rows are identified by their id"""
    ra = dict((str(r["id"]), r) for r in a)
    rb = dict((str(r["id"]), r) for r in b)
    ops = []
    for i, r in ra.items():
        if i not in rb:
            ops.append("e del %s" % W.s(i))
    for i, r in rb.items():
        if i not in ra:
            ops.append("e add %s" % " ".join([W.s(i), W.i(r["onset_div"]), W.i(r["pitch"]), q(r["onset_beat"]), q(r["duration_beat"])]))
            continue
        o = ra[i]
        if (int(o["onset_div"]), float(o["onset_beat"]), float(o["duration_beat"])) != (int(r["onset_div"]), float(r["onset_beat"]), float(r["duration_beat"])):
            ops.append("e move %s %s %s %s" % (W.s(i), W.i(r["onset_div"]), q(r["onset_beat"]), q(r["duration_beat"])))
        if int(o["pitch"]) != int(r["pitch"]):
            ops.append("e pitch %s %s" % (W.s(i), W.i(r["pitch"])))
    return ops


def knots_of(sna, pna, al, remove_orn):
    """(unique matched score onset, mean performed onset of its notes), exact"""
    by = {}
    for i, j in expected_pairs(sna, pna, al):
        if remove_orn and not float(sna["duration_beat"][i]) > 0:
            continue
        by.setdefault(fr(sna["onset_beat"][i]), []).append(fr(pna["onset_sec"][j]))
    return sorted((u, sum(v) / len(v)) for u, v in by.items())


def hist_query(tab, pna, al, o, raw):
    """a use of the codec as a query of the model's history (`hrun`), with what the implementation returned for it;
    None when the model's history does not carry that call (a user callable; np.std of `standardized`; decoding)"""
    f = o["f"]
    tail = " ".join(perf_tokens(pna) + al_tokens(al))
    if f in ("ms", "msf"):
        if raw is None:
            return "q ms " + tail, "err"
        ms, sids = raw
        return "q ms " + tail, [[str(sids[k]), float(ms["onset"][k]), float(ms["duration"][k]), int(ms["pitch"][k]), float(ms["p_onset"][k]),
                                float(ms["p_duration"][k]), int(ms["velocity"][k])] for k in range(len(ms))]
    if f in ("enc", "dec"):
        norm, method = o["norm"], o["method"]
        if method not in ("average", "derivative") or norm == "beat_period_standardized":
            return None
        req = "q enc %s %s 0 %s" % (norm, method, tail)
        if raw is None:
            return req, "err"
        params, sids = raw
        art = params["articulation_log"].astype(float)
        cols = [[float(x) for x in param_cols(norm, params, k)] for k in range(len(params))]
        return req, [[str(x) for x in sids], [float(x) for x in params["beat_period"]], [float(x) for x in params["timing"]],
                     [float(2.0 ** a) for a in art], cols, [float(x) for x in params["velocity"]]]
    if f == "tm":
        req = "q tm %s %s" % (W.b(bool(o.get("ro"))), tail)
        if not knots_of(tab, pna, al, bool(o.get("ro"))):
            # no matched note is left to build a time map from (e.g. only a grace note remains and ornaments are
            # removed): the code raises inside scipy, the model has an empty knot list, the property is silent -
            # not a query of the history (thorough tier, seed 11: a lone model/implementation disagreement)
            return None
        if raw is None:
            return req, "err"
        us = [float(u) for u, _ in knots_of(tab, pna, al, bool(o.get("ro")))]
        vs, e = call(lambda: [float(x) for x in np.atleast_1d(raw[1](np.array(us, dtype=float)))])
        if e is not None:
            return req, "err"
        return req, [[u, (v if math.isfinite(v) else None)] for u, v in zip(us, vs)]
    return None


def first_diff(a, b, path=""):
    if isinstance(a, list) and isinstance(b, list):
        if len(a) != len(b):
            return "%s: %d vs %d entries" % (path or "result", len(a), len(b))
        for i, (x, y) in enumerate(zip(a, b)):
            r = first_diff(x, y, "%s[%d]" % (path, i))
            if r:
                return r
        return None
    return None if a == b else "%s: %r vs %r" % (path or "result", a, b)


def same_table(a, b):
    return a.dtype == b.dtype and len(a) == len(b) and a.tobytes() == b.tobytes()


def score_array(rows):
    return np.array([(r["so"], r["sd"], r["odiv"], r["pitch"], r["id"]) for r in rows],
                    dtype=[("onset_beat", "f4"), ("duration_beat", "f4"), ("onset_div", "i4"), ("pitch", "i4"), ("id", "U256")])


def perf_array(rows):
    return np.array([(r["on"], r["dur"], r["pitch"], r["vel"], r["id"]) for r in rows],
                    dtype=[("onset_sec", "f4"), ("duration_sec", "f4"), ("pitch", "i4"), ("velocity", "i4"), ("id", "U256")])


def first_index(ids):
    d = {}
    for i, x in enumerate(ids):
        d.setdefault(str(x), i)
    return d


# ---------------------------------------------------------------------------------- matched tables
def alignment_rewritten(before, after):
    """matched-table clause, caller's side: the alignment handed in still names the same notes afterwards - same entries,
    same keys, same labels, identical performance ids, score ids equal as strings (the str() of an integer id in place is
    the documented behaviour and names the same note).  Returns a description of the first difference or None."""
    if len(before) != len(after):
        return "has %d entries, had %d" % (len(after), len(before))
    for k, (a, b) in enumerate(zip(before, after)):
        if sorted(a.keys()) != sorted(b.keys()):
            return "entry %d has keys %r, had %r" % (k, sorted(b.keys()), sorted(a.keys()))
        for key in a:
            same = str(a[key]) == str(b[key]) if key == "score_id" else (type(a[key]) is type(b[key]) and a[key] == b[key])
            if not same:
                return "entry %d: %s is %r, was %r" % (k, key, b[key], a[key])
    return None


def expected_pairs(na, pna, al):
    """the alignment's matches whose ids exist on both sides: (score index, performance index), alignment order"""
    si, pi = first_index(na["id"]), first_index(pna["id"])
    out = []
    for a in al:
        if a["label"] == "match" and str(a["score_id"]) in si and str(a["performance_id"]) in pi:
            out.append((si[str(a["score_id"])], pi[str(a["performance_id"])]))
    return out


MARKING_FEATURES = ["loudness_direction_feature", "articulation_feature", "tempo_direction_feature", "slur_feature"]


def eval_markings(ev, na, pna, al, part_or_na, perf_or_na, toks, ms, sids, rows, dangling):
    """to_matched_score(..., include_score_markings=True): the column dispatch (score object / note array), the voice and
    the feature columns.  Oracle: the table with markings holds the same rows in the same order under the same ids as the
    table without, and every marking column holds what the score-side note table says about that note."""
    import partitura.musicanalysis.performance_codec as pc
    from partitura.musicanalysis import note_features

    is_arr = isinstance(part_or_na, np.ndarray)
    feats, voices, fna = [], [0] * len(na), None
    if not is_arr:
        fna, e = call(note_features.compute_note_array, part_or_na, feature_functions=MARKING_FEATURES)
        if e is not None or len(fna) != len(na) or [str(x) for x in fna["id"]] != [str(x) for x in na["id"]]:
            return  # the score-side table itself is not this property's business (C05)
        feats = [f for f in fna.dtype.names if "feature" in f]
        voices = [int(v) for v in fna["voice"]]
    r, e = call(pc.to_matched_score, part_or_na, perf_or_na, copy_al(al), include_score_markings=True)
    ev.requests.append("msx 1 %s %s %s %s" % (W.b(is_arr), W.lst(W.s, feats), W.lst(W.i, voices), " ".join(toks)))
    if e is not None:
        ev.impl.append("err")
        if not dangling:
            ev.oracle.append("matched-table: to_matched_score(include_score_markings=True, %s) raised %s: %s, without the markings it returns %d rows" % (
                "note array" if is_arr else "score object", type(e).__name__, e, len(ms)))
        return
    mx, sx = r
    names = list(mx.dtype.names)
    vcol = "-" if is_arr else [int(v) for v in mx["voice"]] if "voice" in names else "?"
    rx = [[rows[k][0] if k < len(rows) else -2, float(mx["onset"][k]), float(mx["duration"][k]), int(mx["pitch"][k]), float(mx["p_onset"][k]),
           float(mx["p_duration"][k]), int(mx["velocity"][k])] for k in range(len(mx))]
    ev.impl.append(("@approx", [names, rx, [str(x) for x in sx], vcol], T32))
    if dangling:
        return
    base = ("onset", "duration", "pitch", "p_onset", "p_duration", "velocity")
    if [str(x) for x in sx] != [str(x) for x in sids] or any(mx[c].tobytes() != ms[c].tobytes() for c in base):
        ev.oracle.append("matched-table: with include_score_markings the rows / snote_ids differ from the table without: %r vs %r" % (
            [str(x) for x in sx][:8], [str(x) for x in sids][:8]))
        return
    if fna is not None:
        row = first_index(fna["id"])
        for k, sid in enumerate(sx):
            i = row.get(str(sid))
            if i is None:
                continue
            for f in ["voice"] + feats:
                # (which markings there are is not the property's business: a column the table does not have is left to the
                # comparison of the column names with the model)
                if f in names and mx[f][k] != fna[f][i]:
                    ev.oracle.append("matched-table: marking column %s of note %s is %r, the score's note table has %r" % (
                        f, sid, mx[f][k], fna[f][i]))
                    return


def eval_tables(ev, na, pna, al, part_or_na, perf_or_na, judge_ms=True):
    """requests ms / mn + oracle of the matched-table clause; returns (m_score, snote_ids) or None"""
    import partitura.musicanalysis.performance_codec as pc

    toks = score_tokens(na) + perf_tokens(pna) + al_tokens(al)
    exp = expected_pairs(na, pna, al)
    # get_matched_notes
    r, e = call(pc.get_matched_notes, na, pna, copy_al(al))
    ev.requests.append("mn " + " ".join(toks))
    if e is not None:
        ev.impl.append("err")
        ev.oracle.append("matched-table: get_matched_notes raised %s: %s" % (type(e).__name__, e))
    else:
        rows = [(int(a), int(b)) for a, b in np.asarray(r).reshape(-1, 2)]
        ev.impl.append(W.f_list(lambda p: W.f_tuple(W.f_int(p[0]), W.f_int(p[1])), rows))
        if sorted(rows) != sorted(exp):
            ev.oracle.append("matched-table: get_matched_notes returned %r, the matches with both ids present are %r" % (rows[:8], exp[:8]))
    # to_matched_score
    si, pi = first_index(na["id"]), first_index(pna["id"])
    dangling = any(a["label"] == "match" and str(a["score_id"]) in si and str(a.get("performance_id")) not in pi for a in al)
    al_given = copy_al(al)
    r, e = call(pc.to_matched_score, part_or_na, perf_or_na, al_given)
    ev.requests.append("ms " + " ".join(toks))
    rw = alignment_rewritten(al, al_given)
    if rw is not None:
        ev.oracle.append("matched-table: to_matched_score rewrote the caller's alignment: %s" % rw)
    if e is not None:
        ev.impl.append("err")
        if not dangling:
            ev.oracle.append("matched-table: to_matched_score raised %s: %s" % (type(e).__name__, e))
        return None
    ms, sids = r
    rows = []
    for k in range(len(ms)):
        rows.append([si.get(str(sids[k]), -1), float(ms["onset"][k]), float(ms["duration"][k]), int(ms["pitch"][k]),
                     float(ms["p_onset"][k]), float(ms["p_duration"][k]), int(ms["velocity"][k])])
    ev.impl.append(("@approx", rows, T32))
    eval_markings(ev, na, pna, al, part_or_na, perf_or_na, toks, ms, sids, rows, dangling)
    # oracle: rows = exactly the matches with both ids present, ordered by (onset, pitch)
    if not dangling:
        want = sorted((int(na["onset_div"][i]), int(na["pitch"][i]), str(na["id"][i]), float(na["onset_beat"][i]),
                       float(na["duration_beat"][i]), float(pna["onset_sec"][j]), int(pna["velocity"][j])) for i, j in exp)
        got = []
        for k in range(len(ms)):
            i = si.get(str(sids[k]), -1)
            od = int(na["onset_div"][i]) if i >= 0 else -(10 ** 9)  # a row whose id the score does not have (any more)
            got.append((od, int(ms["pitch"][k]), str(sids[k]), float(ms["onset"][k]), float(ms["duration"][k]),
                        float(ms["p_onset"][k]), int(ms["velocity"][k])))
        if sorted(got) != want:
            ev.oracle.append("matched-table: to_matched_score rows %r are not the matches with both ids present %r" % (sorted(got)[:6], want[:6]))
        elif any(got[k][:2] > got[k + 1][:2] for k in range(len(got) - 1)):
            ev.oracle.append("matched-table: rows are not ordered by (score onset, pitch): %r" % ([g[:3] for g in got][:10],))
    return ms, sids


# ---------------------------------------------------------------------------------- alignments of any form (round 6)
def _idtok(a, key):
    if key not in a:
        return "-"
    v = a[key]
    if v is None:
        return "N"
    if isinstance(v, str):
        return "S " + W.s(v)
    return "I %d" % v


def _idfmt(a, key):
    if key not in a:
        return "-"
    v = a[key]
    if v is None:
        return "N"
    if isinstance(v, str):
        return "S:" + v
    if isinstance(v, (int, np.integer)) and not isinstance(v, bool):
        return "I:%d" % v
    return "?" + repr(v)


def alx_tokens(al):
    out = [str(len(al))]
    for a in al:
        out += [W.opt(W.s, a.get("label")), _idtok(a, "score_id"), _idtok(a, "performance_id")]
    return out


def alx_fmt(al):
    return [[("L:" + a["label"]) if "label" in a else "-", _idfmt(a, "score_id"), _idfmt(a, "performance_id")] for a in al]


def eval_alforms(ev, d, info):
    """to_matched_score / get_matched_notes on an alignment of any form: the table (or the exception), the alignment the
    call LEAVES BEHIND (score ids of the matches rewritten to str in place, up to the entry that raised), the same call
    once more on that alignment, get_matched_notes before and after.  Oracle (matched-table clause): when every entry is
    labelled and every match carries two string ids, the table pairs exactly the matches whose ids exist on both sides -
    whatever keys the other entries carry."""
    import warnings
    import partitura.musicanalysis.performance_codec as pc

    na, pna, al = score_array(d["score"]), perf_array(d["perf"]), d["al"]
    base = score_tokens(na) + perf_tokens(pna)
    si, pi = first_index(na["id"]), first_index(pna["id"])
    plain = all("label" in a for a in al) and all(
        isinstance(a.get("score_id"), str) and isinstance(a.get("performance_id"), str) for a in al if a["label"] == "match")
    for a in al:
        for f in (["nolabel"] if "label" not in a else []) + [
                key[0] + kind for key in ("score_id", "performance_id") if a.get("label") == "match"
                for kind in [("missing" if key not in a else "none" if a[key] is None else "str" if isinstance(a[key], str) else "int")]]:
            info["alf_" + f] = info.get("alf_" + f, 0) + 1

    def ms_call(al_in, tag):
        a1 = [dict(a) for a in al_in]
        with warnings.catch_warnings():
            warnings.simplefilter("ignore")
            r, e = call(pc.to_matched_score, na, pna, a1)
        ev.requests.append("msa " + " ".join(base + alx_tokens(al_in)))
        if e is not None:
            rows = "err"
            info["alf_ms_err"] = info.get("alf_ms_err", 0) + 1
        else:
            ms, sids = r
            rows = [[si.get(str(sids[k]), -1), float(ms["onset"][k]), float(ms["duration"][k]), int(ms["pitch"][k]),
                     float(ms["p_onset"][k]), float(ms["p_duration"][k]), int(ms["velocity"][k])] for k in range(len(ms))]
        ev.impl.append(("@approx", [rows, alx_fmt(a1)], T32))
        if a1 != al_in:
            info["alf_rewritten"] = info.get("alf_rewritten", 0) + 1
        return r, e, a1

    def mn_call(al_in):
        with warnings.catch_warnings():
            warnings.simplefilter("ignore")
            r, e = call(pc.get_matched_notes, na, pna, [dict(a) for a in al_in])
        ev.requests.append("mna " + " ".join(base + alx_tokens(al_in)))
        if e is not None:
            ev.impl.append("err")
            info["alf_mn_err"] = info.get("alf_mn_err", 0) + 1
            return None
        rows = [(int(a), int(b)) for a, b in np.asarray(r).reshape(-1, 2)]
        ev.impl.append(W.f_list(lambda p: W.f_tuple(W.f_int(p[0]), W.f_int(p[1])), rows))
        return rows

    r, e, left = ms_call(al, "first")
    rw = alignment_rewritten(al, left)
    if rw is not None:
        ev.oracle.append("matched-table: to_matched_score rewrote the caller's alignment: %s" % rw)
    ms_call(left, "again")
    mn = mn_call(al)
    mn_call(left)
    if plain:
        info["alf_plain"] = 1
    # reading (module docstring): an integer names the note whose id is its decimal string, on the side the function passes
    # through str() - score ids for to_matched_score, performance ids for get_matched_notes
    matches = [a for a in al if a.get("label") == "match"]
    labelled = all("label" in a for a in al)
    both = all("score_id" in a and "performance_id" in a for a in matches)

    def isid(v):
        return isinstance(v, (str, int)) and not isinstance(v, bool)

    ms_judged = labelled and both and all(isinstance(a["performance_id"], str) and isid(a["score_id"]) for a in matches)
    mn_judged = labelled and both and all(isinstance(a["score_id"], str) and isid(a["performance_id"]) for a in matches)
    exp = expected_pairs(na, pna, al) if (ms_judged or mn_judged) else None
    if mn_judged:
        info["alf_mn_judged"] = 1
        if mn is None:
            ev.oracle.append("matched-table: get_matched_notes raised on an alignment whose matches all carry both ids")
        elif sorted(mn) != sorted(exp):
            ev.oracle.append("matched-table: get_matched_notes returned %r, the matches with both ids present are %r" % (mn[:8], exp[:8]))
    if ms_judged:
        info["alf_ms_judged"] = 1
        dangling = any(str(a["score_id"]) in si and a["performance_id"] not in pi for a in matches)
        if not dangling:
            if e is not None:
                ev.oracle.append("matched-table: to_matched_score raised %s: %s on an alignment whose matches all carry both ids" % (type(e).__name__, e))
            else:
                ms, sids = r
                got = sorted((str(sids[k]), float(ms["p_onset"][k]), int(ms["velocity"][k])) for k in range(len(ms)))
                want = sorted((str(na["id"][i]), float(pna["onset_sec"][j]), int(pna["velocity"][j])) for i, j in exp)
                if got != want:
                    ev.oracle.append("matched-table: to_matched_score rows %r are not the matches with both ids present %r" % (got[:6], want[:6]))
    return len(al)


# ---------------------------------------------------------------------------------- codec
def group_lists(uidx):
    return W.f_list(lambda g: W.f_list(W.f_int, g), [[int(i) for i in g] for g in uidx])


def pow2(col):
    """2 ** (float32 column), evaluated the way the decoder does (numpy's float32 ARRAY power; the scalar
    power differs from it in the last bit for one value in five)"""
    return 2 ** np.asarray(col, dtype="f4")


def param_cols(norm, params, k):
    """the tempo columns of row k as the model's decoder reads them (2^x for logarithmic columns)"""
    if norm == "beat_period":
        return [params["beat_period"][k]]
    if norm == "beat_period_log":
        return [pow2(params["beat_period_log"])[k]]
    if norm == "beat_period_ratio":
        return [params["beat_period_ratio"][k], params["beat_period_mean"][k]]
    if norm == "beat_period_ratio_log":
        return [pow2(params["beat_period_ratio_log"])[k], params["beat_period_mean"][k]]
    return [params["beat_period_standardized"][k], params["beat_period_mean"][k], params["beat_period_std"][k]]


def make_callable(seed):
    """a user-defined tempo curve (`tempo_smooth=<callable>`): the grouping of tempo_by_average with an arbitrary
    positive beat period per onset group (multiples of 1/128 s per beat between 1/16 and 2)"""
    import partitura.musicanalysis.performance_codec as pc

    def tempo_fun(score_onsets, performed_onsets, score_durations, performed_durations, return_onset_idxs=False, **kw):
        bp, s_on, uidx = pc.tempo_by_average(score_onsets=score_onsets, performed_onsets=performed_onsets,
                                             score_durations=score_durations, performed_durations=performed_durations,
                                             return_onset_idxs=True)
        r = random.Random(seed)
        bp2 = np.array([r.randint(8, 256) / 128 for _ in range(len(bp))], dtype=float)
        return (bp2, s_on, uidx) if return_onset_idxs else (bp2, s_on)

    return tempo_fun


def tempo_bound(sna, sids, ms):
    """an upper bound of every beat period (seconds per beat) either built-in tempo curve can return, from the exact
    integer columns of the score: both curves are slopes (difference quotients / central differences) of a piecewise linear
    function through points (score onset, performed time) whose times lie inside the performance and whose score onsets are
    matched onsets of the score or `last_time` (the latest offset, or one beat after the last onset when - in exact
    divisions - no matched note sounds past it).  None when two matched onsets are closer than 0.02 beat (then the size of
    the beat periods is left to the tolerances)."""
    if len(ms) == 0:
        return None
    idx = first_index(sna["id"])
    if any(str(x) not in idx for x in sids):
        return None  # rows for ids the score does not have: judged by the matched-table clause
    rows = [idx[str(x)] for x in sids]
    od = [int(x) for x in sna["onset_div"][rows]]
    dd = [int(x) for x in sna["duration_div"][rows]]
    ob = ms["onset"].astype(float)
    ds = ms["duration"].astype(float)
    uo = sorted(set(od))
    beat = dict((t, float(np.mean([ob[k] for k in range(len(od)) if od[k] == t]))) for t in uo)
    gaps = [beat[b] - beat[a] for a, b in zip(uo, uo[1:])]
    past = [ob[k] + ds[k] - beat[uo[-1]] for k in range(len(od)) if od[k] + dd[k] > uo[-1]]
    gaps.append(max(past) if past else 1.0)
    smin = min(gaps)
    if not smin >= 0.02:
        return None
    po, pd = ms["p_onset"].astype(float), ms["p_duration"].astype(float)
    span = float(np.max(po + pd) - np.min(po)) + 1.0
    return span / (0.9 * smin), span, smin


def eval_codec_combo(ev, part, pp, al, ms, sids, norm, method, info, pobj=None):
    import partitura.musicanalysis.performance_codec as pc

    sna = part.note_array()
    pna = pp.note_array()
    smooth = method
    if method == "callable":
        smooth = make_callable(len(ms) * 31 + NORMS.index(norm))
    r, e = call(pc.encode_performance, part, pp if pobj is None else pobj, copy_al(al), return_u_onset_idx=True,
                beat_normalization=norm, tempo_smooth=smooth)
    so, sd = ms["onset"].astype(float), ms["duration"].astype(float)
    po, pd = ms["p_onset"].astype(float), ms["p_duration"].astype(float)
    rows = [str(len(ms))]
    for k in range(len(ms)):
        rows += [q(ms["onset"][k]), q(ms["duration"][k]), q(ms["p_onset"][k]), q(ms["p_duration"][k])]
    if e is not None:
        ev.requests.append("enc %s - 0 %s" % (norm, " ".join(rows)))
        ev.impl.append("err")
        if len(ms) > 0:
            ev.oracle.append("roundtrip: encode_performance(%s,%s) raised %s: %s" % (norm, method, type(e).__name__, e))
        return
    params, sids2, uidx = r
    bad = [nm for nm in params.dtype.names if not np.all(np.isfinite(params[nm]))]
    if bad:
        ev.oracle.append("roundtrip(%s,%s): encode_performance produced non-finite parameters in %s" % (norm, method, bad))
        return
    # onset groups (exact)
    ev.requests.append("grp enc " + W.lst(q, ms["onset"]))
    ev.impl.append(group_lists(uidx))
    # beat periods in binary64 (the stored column is their float32 rounding)
    fun = {"average": pc.tempo_by_average, "derivative": pc.tempo_by_derivative}.get(method, smooth)
    bp64 = fun(score_onsets=so, performed_onsets=po, score_durations=sd, performed_durations=pd, return_onset_idxs=True)[0]
    bp64 = np.asarray(bp64, dtype=float)
    std = float(np.std(bp64))
    mean = float(np.mean(bp64))
    if not (np.all(np.isfinite(bp64)) and np.all(bp64 > 0)):
        ev.oracle.append("roundtrip: %s beat periods are not positive and finite: %r" % (method, bp64[:8].tolist()))
        return
    if method in ("average", "derivative"):
        tb = tempo_bound(sna, sids, ms)
        if tb is not None and float(np.max(bp64)) > tb[0]:
            ev.oracle.append("tempo(%s): a beat period of %r s per beat, although the matched notes are performed within %.6g s and "
                             "no score interval is shorter than %.6g beat" % (method, float(np.max(bp64)), tb[1] - 1.0, tb[2]))
    rnorm = norm
    if norm == "beat_period_standardized" and 0 < std < 1e-9 * mean:
        rnorm = "beat_period"  # z = rounding noise / rounding noise: the column is not compared
    if method in ("average", "derivative"):
        # the tempo curve itself, in binary64 (group means, monotonize_times, difference quotients / central differences)
        ev.requests.append("tempo %s %s" % (method, " ".join(rows)))
        ev.impl.append(("@approx", [float(x) for x in bp64], 1e-7))
        ev.requests.append("encm %s %s %s %s" % (rnorm, method, q(std), " ".join(rows)))
    else:
        ev.requests.append("enc %s %s %s %s" % (rnorm, W.lst(q, bp64), q(std), " ".join(rows)))
    art = params["articulation_log"].astype(float)
    cols = []
    for k in range(len(ms)):
        c = [float(x) for x in param_cols(rnorm, params, k)]
        cols.append(c)
    ev.impl.append(("@approx", [[float(x) for x in params["beat_period"]], [float(x) for x in params["timing"]],
                                [float(2.0 ** a) for a in art], cols], 2.0 ** -18))
    info["groups"] = len(uidx)
    if method in ("average", "derivative"):
        # the whole of encode_performance from the note arrays and the alignment: snote_ids and every column
        ev.requests.append("encp %s %s %s %s" % (rnorm, method, q(std), " ".join(score_tokens(sna) + perf_tokens(pna) + al_tokens(al))))
        ev.impl.append(("@approx", [[str(x) for x in sids2], [float(x) for x in params["beat_period"]],
                                    [float(x) for x in params["timing"]], [float(2.0 ** a) for a in art], cols,
                                    [float(x) for x in params["velocity"]]], 2.0 ** -18))
        if [str(x) for x in sids2] != [str(x) for x in sids]:
            ev.oracle.append("matched-table: encode_performance returned snote_ids %r, to_matched_score %r" % (list(sids2)[:8], list(sids)[:8]))
    if norm == "beat_period_standardized" and len(params):
        # z*std + mean is evaluated in float32 by the decoder: a beat period below the single-precision resolution of the
        # two terms that cancel (2^-21 of |z*std| + mean: score onsets 1e-4 beat apart next to colliding performed onsets
        # give beat periods of 1e-5 and of 1e3 in one curve) is not representable by these parameters at all - it may come
        # back with the wrong sign, which PerformedPart refuses; nothing can be judged "within single-precision rounding"
        zs = np.abs(params["beat_period_standardized"].astype(float) * params["beat_period_std"].astype(float))
        mu = float(params["beat_period_mean"][0])
        if np.any(params["beat_period"].astype(float) < 2.0 ** -21 * (zs + mu)):
            info["unrepresentable"] = info.get("unrepresentable", 0) + 1
            return
    # decode
    r, e = call(pc.decode_performance, part, params, snote_ids=list(sids2), beat_normalization=norm)
    prow = [str(len(ms))]
    ratio32 = pow2(params["articulation_log"])
    for k in range(len(ms)):
        c = param_cols(norm, params, k)
        prow += [W.s(sids2[k]), q(params["timing"][k]), q(ratio32[k]), q(params["velocity"][k]),
                 W.lst(q, c)]
    ev.requests.append("dec %s %s %s" % (norm, " ".join(score_tokens(sna)), " ".join(prow)))
    if e is not None:
        ev.impl.append("err")
        ev.oracle.append("roundtrip: decode_performance(%s,%s) raised %s: %s" % (norm, method, type(e).__name__, e))
        return
    dec = r
    out = [[str(n["id"]), float(n["note_on"]), float(n["note_off"] - n["note_on"]), int(n["velocity"])] for n in dec.notes]
    out = [[a, (None if not math.isfinite(b) else b), (None if not math.isfinite(c) else c), d] for a, b, c, d in out]
    # the group means of the float32 columns and the rescaling are evaluated in float32; z*std + mean cancels, so for
    # `standardized` the float32 roundings are weighed with the size of the cancelling terms
    # (a timing value of magnitude M carries a float32 rounding of M * 2^-24: ill-conditioned tempo curves, e.g. the
    # smoothed derivative next to a 1e-4 beat score interval, give timings of thousands of seconds)
    rtol = T32 * max(1.0, float(np.max(np.abs(params["timing"]))) if len(params) else 1.0)
    logx = 0.0
    if norm in ("beat_period_log", "beat_period_ratio_log") and len(params):
        # a float32 column x that is read as 2^x carries a relative rounding of ln 2 * |x| * 2^-24 into the beat period
        logx = float(np.max(np.abs(params[norm].astype(float))))
        rtol *= max(1.0, logx / 4)
    if norm == "beat_period_standardized" and len(params):
        zs = np.abs(params["beat_period_standardized"].astype(float) * params["beat_period_std"].astype(float))
        mu = float(params["beat_period_mean"][0])
        b = np.abs(params["beat_period"].astype(float))
        amp = float(np.max((3 * zs + 2 * mu + b) / np.maximum(b, 1e-300)))
        span = float(so.max() - so.min()) + float(sd.max()) + 1.0
        rtol = max(rtol, T32 * max(8.0, amp, span * (3 * float(zs.max()) + 2 * mu)))
    ev.impl.append(("@approx", out, rtol))
    # the same call with return_alignment=True: ids, midi_pitch, onsets, durations, velocities and the returned alignment
    r2, e2 = call(pc.decode_performance, part, params, snote_ids=list(sids2), beat_normalization=norm, return_alignment=True)
    ev.requests.append("decf %s %s %s %s" % (norm, " ".join(score_tokens(sna)), W.lst(W.s, sids2), " ".join(prow)))
    ev.impl.append("err" if e2 is not None else ("@approx", notes_full(r2), rtol))

    # ---- oracle: decode(encode(x)) = x for every matched note
    exp = expected_pairs(sna, pna, al)
    cnt = {}
    for i, j in exp:
        cnt[i] = cnt.get(i, 0) + 1
    pair = {str(sna["id"][i]): j for i, j in exp if cnt[i] == 1}
    sidx = first_index(sna["id"])
    prm = {str(s): k for k, s in enumerate(sids2)}
    diffs, items = [], []
    for idn, on, du, ve in out:
        if idn not in pair:
            continue
        j = pair[idn]
        items.append((idn, on, du, ve, j))
        if on is not None:
            diffs.append(float(pna["onset_sec"][j]) - on)
    if len(items) != len(pair):
        ev.oracle.append("roundtrip(%s,%s): %d matched notes, %d decoded" % (norm, method, len(pair), len(items)))
    nonfin = [a for a, b, c, _ in out if b is None or c is None]
    if nonfin:
        ev.oracle.append("nonfinite(%s,%s): decode_performance returned NaN/inf onsets or durations for %d of %d notes (%s ...)" % (
            norm, method, len(nonfin), len(out), ",".join(nonfin[:4])))
    if not items:
        return
    shift = float(np.median(diffs)) if diffs else 0.0
    tim = float(np.max(np.abs(params["timing"]))) if len(params) else 0.0
    emax = max([abs(o) for _, o, _, _, _ in items if o is not None] + [0.0]) + tim
    scale = emax + tim
    if norm == "beat_period_standardized":
        span = float(so.max() - so.min()) + float(sd.max()) + 1.0
        scale = 4 * scale + 5 * float(params["beat_period_mean"][0]) * span
    tol_on = T32 * max(1.0, scale) * max(1.0, logx / 4)
    for idn, on, du, ve, j in items:
        p_on, p_du, p_ve = float(pna["onset_sec"][j]), float(pna["duration_sec"][j]), int(pna["velocity"][j])
        k = prm[idn]
        s_du = float(sna["duration_beat"][sidx[idn]])
        if on is None or abs(on - (p_on - shift)) > tol_on:
            ev.oracle.append("onset(%s,%s): note %s decoded at %r, performed at %r - common shift %r (tolerance %.3g)" % (
                norm, method, idn, on, p_on, shift, tol_on))
        a = abs(float(params["articulation_log"][k]))
        cond = 1.0
        if norm == "beat_period_standardized":
            b = float(params["beat_period"][k])
            mu = float(params["beat_period_mean"][k])
            cond = max(1.0, (3 * abs(b - mu) + 2 * mu + b) / (4 * b)) if b > 0 else 1.0
        tol_du = T32 * max(1.0, a + logx / 4) * cond * p_du
        if du is None or abs(du - p_du) > tol_du:
            # the two open findings, and nothing wider: a grace note decodes to duration 0 (F-C18-2), a note played for less
            # than 0.075 s to 0.075 s (F-C18-4); any other decoded value (NaN, a third number) is a failure of its own
            what = "other"
            if du is not None and s_du <= 0 and du == 0:
                what = "grace"
            elif du is not None and s_du > 0 and p_du < CLIP and abs(du - CLIP) <= tol_du + T32 * max(1.0, a) * cond * CLIP:
                what = "clip"
            ev.oracle.append("duration/%s(%s,%s): note %s decoded duration %r, performed %r (score duration %r)" % (
                what, norm, method, idn, du, p_du, s_du))
        if ve != p_ve:
            ev.oracle.append("velocity(%s,%s): note %s decoded %r, performed %r" % (norm, method, idn, ve, p_ve))


class _Table(object):
    """a score-like object that hands out a hand-made note array"""

    def __init__(self, na):
        self.na = na

    def note_array(self, *a, **kw):
        return self.na


def eval_decode_table(ev, na, d):
    """decode_performance on a hand-made score table (repeated ids, any order and any subset of snote_ids, unknown
    ids) with arbitrary parameters: only compared with the model (bookkeeping: row selection, re-sort, id zip)"""
    import partitura.musicanalysis.performance_codec as pc

    r = random.Random(len(na) * 131 + len(d["al"]) * 17 + len(d["perf"]))
    ids = [str(x) for x in na["id"]]
    if not ids:
        return
    sel = [r.choice(ids) for _ in range(r.randint(1, len(ids)))] if r.random() < 0.5 else r.sample(ids, r.randint(1, len(ids)))
    if r.random() < 0.1:
        sel.insert(r.randrange(len(sel) + 1), "zz9")
    if r.random() < 0.4:
        order = np.lexsort((na["pitch"], na["onset_div"]))
        rank = {}
        for pos, i in enumerate(order):
            rank[ids[i]] = pos  # the last row of a repeated id counts, as in decode_performance
        sel = sorted(sel, key=lambda x: rank.get(x, -1))
    params = np.zeros(len(sel), dtype=[(nm, "f4") for nm in ("beat_period", "velocity", "timing", "articulation_log")])
    params["beat_period"] = [r.randint(16, 256) / 128 for _ in sel]
    params["velocity"] = [r.randint(0, 140) / 127 for _ in sel]
    params["timing"] = [r.randint(-64, 64) / 256 for _ in sel]
    params["articulation_log"] = [r.randint(-2, 2) for _ in sel]
    res, e = call(pc.decode_performance, _Table(na), params, snote_ids=list(sel), beat_normalization="beat_period")
    prow = [str(len(sel))]
    ratio32 = pow2(params["articulation_log"])
    for k in range(len(sel)):
        prow += [W.s(sel[k]), q(params["timing"][k]), q(ratio32[k]), q(params["velocity"][k]), W.lst(q, [params["beat_period"][k]])]
    ev.requests.append("dec beat_period %s %s" % (" ".join(score_tokens(na)), " ".join(prow)))
    if e is not None:
        ev.impl.append("err")
        return
    out = [[str(n["id"]), float(n["note_on"]), float(n["note_off"] - n["note_on"]), int(n["velocity"])] for n in res.notes]
    out = [[a, (None if not math.isfinite(b) else b), (None if not math.isfinite(c) else c), v] for a, b, c, v in out]
    ev.impl.append(("@approx", out, T32 * 4))


def eval_decode_columns(ev, na, d, info):
    """round 6: the COLUMN dispatch of decode_performance - a parameter array with the fields encode_performance builds for one
    normalisation (rarely one field dropped, an unrelated field added), decoded under any of the five normalisations: refused
    exactly when a field it reads is missing (`velocity`, `beat_period`, `timing`, `articulation_log`, the normalisation's
    `param_names`), other fields ignored.  Logarithmic columns get one value per score onset (the decoder averages the stored
    logarithms of an onset group, the model their powers); every column is positive so that no duration is negative."""
    import partitura.musicanalysis.performance_codec as pc

    r = random.Random(len(na) * 613 + len(d["al"]) * 29 + len(d["perf"]) * 3 + 1)
    ids = [str(x) for x in na["id"]]
    if not ids:
        return
    enc, dec = r.choice(NORMS), r.choice(NORMS)
    if r.random() < 0.4:
        dec = enc
    elif r.random() < 0.3:
        dec = "beat_period"
    fields = ["beat_period", "velocity", "timing", "articulation_log"] + ([] if enc == "beat_period" else list(pc.TEMPO_NORMALIZATION[enc]["param_names"]))
    shape = "as_encoded"
    x = r.random()
    if x < 0.25:
        fields.remove(r.choice(fields))
        shape = "dropped"
    elif x < 0.4:
        fields.insert(r.randrange(len(fields) + 1), "pedal")
        shape = "extra"
    elif x < 0.5:
        r.shuffle(fields)
        shape = "reordered"
    n = len(ids)
    params = np.zeros(n, dtype=[(nm, "f4") for nm in fields])
    od = [int(v) for v in na["onset_div"]]
    for nm in fields:
        if nm in ("beat_period_log", "beat_period_ratio_log"):
            params[nm] = [((o * 3) % 5 - 2) / 2 for o in od]
        elif nm == "velocity":
            params[nm] = [r.randint(0, 140) / 127 for _ in range(n)]
        elif nm == "timing":
            params[nm] = [r.randint(-64, 64) / 256 for _ in range(n)]
        elif nm == "articulation_log":
            params[nm] = [r.randint(-2, 2) for _ in range(n)]
        else:
            params[nm] = [r.randint(16, 256) / 128 for _ in range(n)]
    res, e = call(pc.decode_performance, _Table(na), params, beat_normalization=dec, return_alignment=True)
    need = ["velocity", "beat_period", "timing", "articulation_log"] + ([] if dec == "beat_period" else list(pc.TEMPO_NORMALIZATION[dec]["param_names"]))
    have = all(f in fields for f in need)
    prow = [str(n)]
    ratio32 = pow2(params["articulation_log"]) if "articulation_log" in fields else [1.0] * n
    for k in range(n):
        cols = param_cols(dec, params, k) if have else []
        prow += ["x", q(params["timing"][k]) if "timing" in fields else "0", q(ratio32[k]), q(params["velocity"][k]) if "velocity" in fields else "0",
                 W.lst(q, cols)]
    ev.requests.append("decc %s %s %s - %s" % (dec, W.lst(W.s, fields), " ".join(score_tokens(na)), " ".join(prow)))
    ev.impl.append("err" if e is not None else ("@approx", notes_full(res), T32 * 8))
    info["decc_" + shape] = 1
    info["decc_" + ("refused" if e is not None else "decoded")] = 1
    if e is not None and have:
        ev.oracle.append("decode_performance(beat_normalization=%s) raised %s: %s on a parameter array with the fields %r" % (
            dec, type(e).__name__, e, fields))
    if enc == dec and shape in ("as_encoded", "reordered", "extra") and e is not None:
        ev.oracle.append("decode_performance refuses the columns encode_performance builds for %s" % enc)


def notes_full(res):
    ppart, al = res
    notes = [[str(n["id"]), int(n["midi_pitch"]), float(n["note_on"]), float(n["note_off"] - n["note_on"]), int(n["velocity"])] for n in ppart.notes]
    notes = [[a, b, (c if math.isfinite(c) else None), (d if math.isfinite(d) else None), v] for a, b, c, d, v in notes]
    return [notes, [[str(a["score_id"]), str(a["performance_id"])] for a in al]]


def eval_decode_full(ev, na, d):
    """decode_performance with everything it returns (ids, midi_pitch clipped to 1..127, onsets, durations, velocities, the
    alignment of return_alignment=True), without snote_ids (all rows), with more / fewer parameter rows than notes"""
    import partitura.musicanalysis.performance_codec as pc

    r = random.Random(len(na) * 977 + len(d["al"]) * 13 + len(d["perf"]) + 5)
    ids = [str(x) for x in na["id"]]
    if not ids:
        return None
    variant = r.choice(["none", "none", "none_extra", "given", "given_extra", "short"])
    if variant.startswith("none"):
        sel, n = None, len(ids)
    else:
        sel = [r.choice(ids) for _ in range(r.randint(1, len(ids)))]
        if r.random() < 0.08:
            sel.insert(r.randrange(len(sel) + 1), "zz9")
        n = len(sel)
    m = max(0, n + {"none": 0, "none_extra": 2, "given": 0, "given_extra": 1, "short": -1}[variant])
    params = np.zeros(m, dtype=[(nm, "f4") for nm in ("beat_period", "velocity", "timing", "articulation_log")])
    params["beat_period"] = [r.randint(16, 256) / 128 for _ in range(m)]
    params["velocity"] = [r.randint(0, 140) / 127 for _ in range(m)]
    params["timing"] = [r.randint(-64, 64) / 256 for _ in range(m)]
    params["articulation_log"] = [r.randint(-2, 2) for _ in range(m)]
    res, e = call(pc.decode_performance, _Table(na), params, snote_ids=(None if sel is None else list(sel)),
                  beat_normalization="beat_period", return_alignment=True)
    prow = [str(m)]
    ratio32 = pow2(params["articulation_log"])
    for k in range(m):
        prow += ["x", q(params["timing"][k]), q(ratio32[k]), q(params["velocity"][k]), W.lst(q, [params["beat_period"][k]])]
    ev.requests.append("decf beat_period %s %s %s" % (" ".join(score_tokens(na)), "-" if sel is None else W.lst(W.s, sel), " ".join(prow)))
    ev.impl.append("err" if e is not None else ("@approx", notes_full(res), T32 * 4))
    return variant


def eval_time_maps(ev, part, pp, al, remove_orn, rng, pobj=None):
    import partitura.musicanalysis.performance_codec as pc

    sna = part.note_array()
    pna = pp.note_array()
    exp = expected_pairs(sna, pna, al)
    if not exp:
        return
    rows = [(sna["onset_beat"][i], sna["duration_beat"][i], pna["onset_sec"][j]) for i, j in exp]
    # exact knots (oracle side)
    by = {}
    for so, sd, po in rows:
        if remove_orn and not float(sd) > 0:
            continue
        by.setdefault(fr(so), []).append(fr(po))
    knots = sorted((u, sum(v) / len(v)) for u, v in by.items())
    us = [float(u) for u, _ in knots]
    mp = [float(m) for _, m in knots]
    qs = list(us)
    qp = list(mp)
    for a, b in zip(us, us[1:]):
        qs.append((a + b) / 2)
    if us:
        qs += [us[0] - 1.5, us[-1] + 2.25]
        qp += [min(mp) - 0.75, max(mp) + 1.5]
    for a, b in zip(sorted(mp), sorted(mp)[1:]):
        qp.append((a + b) / 2)
    # mean performed onsets that (nearly) coincide - collisions of a late passage, exact ties: the performance->score map has
    # (nearly) vertical segments there; np.mean of the float32 onsets is itself a float32, so which of two such knots comes
    # first, and whether they coincide, is decided by a rounding error.  The property speaks about that map for strictly
    # increasing means only: it is then neither compared nor judged
    smp0 = sorted(mp)
    if any(b - a <= T32 * max(1.0, abs(b)) for a, b in zip(smp0, smp0[1:])):
        qp = []
    r, e = call(pc.get_time_maps_from_alignment, pp if pobj is None else pobj, part, copy_al(al), remove_orn)
    toks = [W.b(remove_orn), str(len(rows))]
    for so, sd, po in rows:
        toks += [q(so), q(sd), q(po)]
    ev.requests.append("tm " + " ".join(toks + [W.lst(q, qs)]))
    ev.requests.append("tmp " + " ".join(toks + [W.lst(q, qp)]))
    # the same from the note arrays and the alignment (get_matched_notes composed with the knots)
    ev.requests.append("tma " + " ".join([W.b(remove_orn)] + score_tokens(sna) + perf_tokens(pna) + al_tokens(al) + [W.lst(q, qs), W.lst(q, qp)]))
    if e is not None:
        ev.impl += ["err", "err", "err"]
        if len(knots) >= 1:
            ev.oracle.append("time-maps: get_time_maps_from_alignment raised %s: %s" % (type(e).__name__, e))
        return
    p2s, s2p = r

    def fl(x):
        x = float(x)
        return x if math.isfinite(x) else None

    vs, e1 = call(lambda: [fl(x) for x in np.atleast_1d(s2p(np.array(qs, dtype=float)))])
    vp, e2 = call(lambda: [fl(x) for x in np.atleast_1d(p2s(np.array(qp, dtype=float)))])
    if e1 is not None or e2 is not None:
        ev.impl += ["err", "err", "err"]
        ev.oracle.append("time-maps: evaluating the maps raised %r" % (e1 or e2,))
        return
    kn = [[float(u), float(m)] for u, m in knots]
    # np.mean of the float32 performed onsets is a float32: the knots of the performance->score map are off by
    # 2^-24 relative, which the slope of that map amplifies
    smp = sorted(zip(mp, us))
    slope = max([abs((b[1] - a[1]) / (b[0] - a[0])) if b[0] != a[0] else float("inf") for a, b in zip(smp, smp[1:])] + [1.0])
    amp = max(1.0, slope) * max([1.0] + [abs(x) for x in mp])

    def extra(xs, d0, d1):
        # extrapolating by d beyond a segment of width w multiplies an error of the segment's end points by 1 + 2 d / w
        xs = sorted(xs)
        if len(xs) < 2:
            return 1.0
        w0, w1 = xs[1] - xs[0], xs[-1] - xs[-2]
        return 1.0 + 2 * max(d0 / w0 if w0 > 0 else float("inf"), d1 / w1 if w1 > 0 else float("inf"))

    amp_s = extra(us, 1.5, 2.25) * max([1.0] + [abs(x) for x in mp])
    amp = amp * extra(mp, 0.75, 1.5)
    ev.impl.append(("@approx", [kn, vs], T32 * amp_s if math.isfinite(amp_s) else 1e30))
    ev.impl.append(("@approx", vp, T32 * amp if math.isfinite(amp) else 1e30))
    both = T32 * max(amp, amp_s)
    ev.impl.append(("@approx", [kn, vs, vp], both if math.isfinite(both) else 1e30))
    # oracle
    n = len(knots)
    for i in range(n):
        if vs[i] is None or abs(vs[i] - mp[i]) > T32 * max(1, abs(mp[i])):
            ev.oracle.append("time-maps: score->performance map at matched onset %r gives %r, mean performed onset is %r (remove_ornaments=%r)" % (
                us[i], vs[i], mp[i], remove_orn))
            break
    for i in range(n - 1):
        v = vs[n + i]
        w = (mp[i] + mp[i + 1]) / 2
        if v is None or abs(v - w) > T32 * max(1, abs(w)):
            ev.oracle.append("time-maps: score->performance map is not linear between matched onsets %r and %r: %r vs %r" % (us[i], us[i + 1], v, w))
            break
    if qp and all(a < b for a, b in zip(mp, mp[1:])):
        for i in range(n):
            if vp[i] is None or abs(vp[i] - us[i]) > T32 * (max(1, abs(us[i]), abs(us[0]), abs(us[-1])) + amp):
                ev.oracle.append("time-maps: performance->score map at mean performed onset %r gives %r, score onset is %r (remove_ornaments=%r)" % (
                    mp[i], vp[i], us[i], remove_orn))
                break


# ---------------------------------------------------------------------------------- direct arrays, helpers (round 5)
def eval_arrays(ev, d, info):
    """encode_tempo / decode_time / the two tempo curves with their optional arguments, on hand-made arrays"""
    import partitura.musicanalysis.performance_codec as pc

    arrs = dict((k, np.array(d[k], dtype=float)) for k in ("so", "po", "sd", "pd"))
    cut = d.get("cut")
    if cut == "all":
        arrs = dict((k, v[:0]) for k, v in arrs.items())
    elif cut:
        arrs[cut] = arrs[cut][:-1]
    so, po, sd, pd = arrs["so"], arrs["po"], arrs["sd"], arrs["pd"]
    norm = d["norm"]
    r = random.Random(d["seed"])
    toks = " ".join(W.lst(q, arrs[k]) for k in ("so", "po", "sd", "pd"))
    for method in ("average", "derivative"):
        res, e = call(pc.encode_tempo, score_onsets=so, performed_onsets=po, score_durations=sd, performed_durations=pd,
                      return_u_onset_idx=True, beat_normalization=norm, tempo_smooth=method)
        if e is not None:
            ev.requests.append("enct %s %s 0 %s" % (norm, method, toks))
            ev.impl.append("err")
            info["enct_err"] = info.get("enct_err", 0) + 1
            if not cut:
                ev.oracle.append("roundtrip: encode_tempo(%s,%s) raised %s: %s" % (norm, method, type(e).__name__, e))
            continue
        params, uidx = res
        if cut:
            # arrays of different lengths that were accepted: compared with the model (which refuses them)
            ev.requests.append("enct %s %s 0 %s" % (norm, method, toks))
            ev.impl.append("accepted")
            continue
        bad = [nm for nm in params.dtype.names if not np.all(np.isfinite(params[nm]))]
        if bad:
            ev.oracle.append("roundtrip(%s,%s): encode_tempo produced non-finite parameters in %s" % (norm, method, bad))
            continue
        fun = {"average": pc.tempo_by_average, "derivative": pc.tempo_by_derivative}[method]
        bp64 = np.asarray(fun(score_onsets=so, performed_onsets=po, score_durations=sd, performed_durations=pd)[0], dtype=float)
        if not (np.all(np.isfinite(bp64)) and np.all(bp64 > 0)):
            ev.oracle.append("roundtrip: %s beat periods are not positive and finite: %r" % (method, bp64[:8].tolist()))
            continue
        std, mean = float(np.std(bp64)), float(np.mean(bp64))
        rnorm = norm
        if norm == "beat_period_standardized" and 0 < std < 1e-9 * mean:
            rnorm = "beat_period"
        art = params["articulation_log"].astype(float)
        cols = [[float(x) for x in param_cols(rnorm, params, k)] for k in range(len(params))]
        ev.requests.append("enct %s %s %s %s" % (rnorm, method, q(std), toks))
        ev.impl.append(("@approx", [[float(x) for x in params["beat_period"]], [float(x) for x in params["timing"]],
                                    [float(2.0 ** a) for a in art], cols], 2.0 ** -18))
        info["groups"] = len(uidx)
        # ---- the tempo curve with its optional arguments: a coarser grouping, sampling points of the caller
        idx = None
        if r.random() < 0.4 and len(uidx) > 1:
            idx, cur = [], [int(i) for i in uidx[0]]
            for g in uidx[1:]:
                if r.random() < 0.4:
                    cur += [int(i) for i in g]
                else:
                    idx.append(cur)
                    cur = [int(i) for i in g]
            idx.append(cur)
        inp = None
        if r.random() < 0.7:
            us = sorted(set(float(np.mean(so[g])) for g in (idx or uidx)))
            # the knots themselves are sampled only where the mean is a binary64 number (a sampling point a rounding error
            # away from a knot is on the other side of it in exact arithmetic)
            exact = [u for u, g in zip(us, sorted((idx or uidx), key=lambda g: float(np.mean(so[g]))))
                     if fr(u) == sum(fr(so[i]) for i in g) / len(g)]
            inp = exact + [(3 * a + b) / 4 for a, b in zip(us, us[1:])] + [us[0] - 1.25, us[-1] + 0.375, us[-1] + 3.0]
            r.shuffle(inp)
        kw = {}
        if idx is not None:
            kw["unique_onset_idxs"] = [np.array(g, dtype=int) for g in idx]
        if inp is not None:
            kw["input_onsets"] = np.array(inp, dtype=float)
        cv, e2 = call(fun, score_onsets=so, performed_onsets=po, score_durations=sd, performed_durations=pd, **kw)
        rows = [str(len(so))]
        for k in range(len(so)):
            rows += [q(so[k]), q(sd[k]), q(po[k]), q(pd[k])]
        ev.requests.append("tat %s %s %s %s" % (method, "-" if idx is None else W.lst(lambda g: W.lst(W.i, g), idx),
                                                 "-" if inp is None else W.lst(q, inp), " ".join(rows)))
        info["tat_idx"] = info.get("tat_idx", 0) + (idx is not None)
        info["tat_inp"] = info.get("tat_inp", 0) + (inp is not None)
        if e2 is not None:
            ev.impl.append("err")
        else:
            ev.impl.append(("@approx", [(float(x) if math.isfinite(x) else None) for x in np.atleast_1d(cv[0])], 1e-7))
        # ---- decode_time of the parameters, compared with the model and judged against the performance
        dres, e3 = call(pc.decode_time, score_onsets=so, score_durations=sd, parameters=params, normalization=norm)
        ids = ["a%d" % k for k in range(len(so))]
        stoks = [str(len(so))]
        for k in range(len(so)):
            stoks += [W.s(ids[k]), W.i(k), W.i(60), q(so[k]), q(sd[k])]
        prow = [str(len(so))]
        ratio32 = pow2(params["articulation_log"])
        for k in range(len(so)):
            prow += [W.s(ids[k]), q(params["timing"][k]), q(ratio32[k]), q(params["velocity"][k]), W.lst(q, param_cols(norm, params, k))]
        ev.requests.append("dec %s %s %s" % (norm, " ".join(stoks), " ".join(prow)))
        if e3 is not None:
            ev.impl.append("err")
            ev.oracle.append("roundtrip: decode_time(%s,%s) raised %s: %s" % (norm, method, type(e3).__name__, e3))
            continue
        on = [(float(x) if math.isfinite(x) else None) for x in dres[:, 0]]
        du = [(float(x) if math.isfinite(x) else None) for x in dres[:, 1]]
        rtol = T32 * max(1.0, float(np.max(np.abs(params["timing"]))))
        logx = 0.0
        if norm in ("beat_period_log", "beat_period_ratio_log"):
            logx = float(np.max(np.abs(params[norm].astype(float))))
            rtol *= max(1.0, logx / 4)
        if norm == "beat_period_standardized":
            zs = np.abs(params["beat_period_standardized"].astype(float) * params["beat_period_std"].astype(float))
            mu = float(params["beat_period_mean"][0])
            b = np.abs(params["beat_period"].astype(float))
            amp = float(np.max((3 * zs + 2 * mu + b) / np.maximum(b, 1e-300)))
            span = float(so.max() - so.min()) + float(sd.max()) + 1.0
            rtol = max(rtol, T32 * max(8.0, amp, span * (3 * float(zs.max()) + 2 * mu)))
        ev.impl.append(("@approx", [[ids[k], on[k], du[k], 1] for k in range(len(so))], rtol))
        if any(x is None for x in on + du):
            ev.oracle.append("nonfinite(%s,%s): decode_time returned NaN/inf onsets or durations" % (norm, method))
            continue
        tim = float(np.max(np.abs(params["timing"])))
        scale = max(abs(x) for x in on) + 2 * tim
        if norm == "beat_period_standardized":
            span = float(so.max() - so.min()) + float(sd.max()) + 1.0
            scale = 4 * scale + 5 * float(params["beat_period_mean"][0]) * span
        tol_on = T32 * max(1.0, scale) * max(1.0, logx / 4)
        shift = float(np.median([po[k] - on[k] for k in range(len(so))]))
        for k in range(len(so)):
            if abs(on[k] - (po[k] - shift)) > tol_on:
                ev.oracle.append("onset(%s,%s): note %d decoded at %r, performed at %r - common shift %r (tolerance %.3g)" % (
                    norm, method, k, on[k], float(po[k]), shift, tol_on))
            a = abs(float(params["articulation_log"][k]))
            cond = 1.0
            if norm == "beat_period_standardized":
                b = float(params["beat_period"][k])
                mu = float(params["beat_period_mean"][k])
                cond = max(1.0, (3 * abs(b - mu) + 2 * mu + b) / (4 * b)) if b > 0 else 1.0
            tol_du = T32 * max(1.0, a + logx / 4) * cond * float(pd[k])
            if abs(du[k] - float(pd[k])) > tol_du:
                what = "grace" if (sd[k] <= 0 and du[k] == 0) else "other"
                ev.oracle.append("duration/%s(%s,%s): note %d decoded duration %r, performed %r (score duration %r)" % (
                    what, norm, method, k, du[k], float(pd[k]), float(sd[k])))


def eval_helpers(ev, d, info):
    import partitura.musicanalysis.performance_codec as pc
    from partitura.utils.generic import interp1d, monotonize_times

    # the zero-order interpolator of tempo_by_average
    ks = d["ks"]
    f, e = call(interp1d, np.array([k[0] for k in ks], dtype=float), np.array([k[1] for k in ks], dtype=float), kind="zero",
                bounds_error=False, fill_value=(d["lo"], d["hi"]))
    vals, e = call(lambda: [float(x) for x in np.atleast_1d(f(np.array(d["qs"], dtype=float)))]) if e is None else (None, e)
    ev.requests.append("zh %s %s %s %s" % (W.lst(lambda k: q(k[0]) + " " + q(k[1]), ks), q(d["lo"]), q(d["hi"]), W.lst(q, d["qs"])))
    ev.impl.append("err" if e is not None else ("@approx", [(v if math.isfinite(v) else None) for v in vals], 1e-12))
    xs = sorted(k[0] for k in ks)
    for x in d["qs"]:
        b = "single" if len(xs) == 1 else "below" if x < xs[0] else "above" if x > xs[-1] else "knot" if x in xs else "between"
        info["zh_" + b] = info.get("zh_" + b, 0) + 1
    # monotonize_times(s) without abscissae
    r, e = call(monotonize_times, np.array(d["ss"], dtype=float))
    ev.requests.append("mono0 " + W.lst(q, d["ss"]))
    ev.impl.append("err" if e is not None else ("@approx", [[float(v) for v in r[0]], [float(v) for v in r[1]]], 1e-9))
    # get_unique_onset_idxs(onsets, eps, return_unique_onsets=True)
    r, e = call(pc.get_unique_onset_idxs, np.array(d["ons"], dtype=float), eps=d["eps"], return_unique_onsets=True)
    ev.requests.append("uon %s %s" % (q(d["eps"]), W.lst(q, d["ons"])))
    if e is not None:
        ev.impl.append("err")
    else:
        ev.impl.append(("@approx", [[[int(i) for i in g] for g in r[0]], [float(v) for v in r[1]]], 1e-12))
        info["uon_groups"] = len(r[0])
    # notewise_to_onsetwise / onsetwise_to_notewise
    gs = [np.array(g, dtype=int) for g in d["groups"]]
    gt = W.lst(lambda g: W.lst(W.i, g), d["groups"])
    r, e = call(pc.notewise_to_onsetwise, np.array(d["vals"], dtype=float), gs)
    ev.requests.append("n2o %s %s" % (W.lst(q, d["vals"]), gt))
    ev.impl.append("err" if e is not None else ("@approx", [float(v) for v in r], 1e-12))
    r, e = call(pc.onsetwise_to_notewise, np.array(d["wvals"], dtype=float), gs)
    ev.requests.append("o2n %s %s" % (W.lst(q, d["wvals"]), gt))
    ev.impl.append("err" if e is not None else ("@approx", [float(v) for v in r], 1e-12))
    info["groups_" + d["gkind"]] = 1
    if "cols" not in d:
        return
    # round 6: the same helpers on two-dimensional arrays and on structured arrays (the `except TypeError` branch)
    import warnings

    def as_array(cols, n):
        if d["structured"]:
            return np.array([tuple(c[i] for c in cols) for i in range(n)], dtype=[("f%d" % j, "f8") for j in range(len(cols))])
        return np.array(cols, dtype=float).T.reshape(n, len(cols))

    def columns(r, ncol):
        if d["structured"]:
            return [[float(v) for v in r["f%d" % j]] for j in range(ncol)]
        return [[float(v) for v in np.asarray(r)[:, j]] for j in range(ncol)]

    for req, fn, cols in (("n2o2", pc.notewise_to_onsetwise, d["cols"]), ("o2n2", pc.onsetwise_to_notewise, d["wcols"])):
        n = len(cols[0])
        with warnings.catch_warnings():
            warnings.simplefilter("ignore")
            r, e = call(lambda: columns(fn(as_array(cols, n), gs), len(cols)))
        ev.requests.append("%s %s %s" % (req, W.lst(lambda c: W.lst(q, c), cols), gt))
        bad = e is not None or any(not math.isfinite(v) for c in r for v in c)
        ev.impl.append("err" if bad else ("@approx", r, 1e-12))
        info["h2_" + ("struct" if d["structured"] else "2d")] = info.get("h2_" + ("struct" if d["structured"] else "2d"), 0) + 1
    # get_unique_seq
    u = d["useq"]
    ons, offs = np.array(u["ons"], dtype=float), np.array(u["offs"], dtype=float)
    idx = None if u["idx"] is None else [np.array(g, dtype=int) for g in u["idx"]]
    with warnings.catch_warnings():
        warnings.simplefilter("ignore")
        r, e = call(pc.get_unique_seq, ons, offs, unique_onset_idxs=idx, return_diff=u["diff"])
    ev.requests.append("useq %s %s %s %s" % (W.lst(q, u["ons"]), W.lst(q, u["offs"]),
                                            "-" if u["idx"] is None else W.lst(lambda g: W.lst(W.i, g), u["idx"]), W.b(u["diff"])))
    if e is not None or not all(math.isfinite(float(v)) for v in r["u_onset"]):
        ev.impl.append("err")
        info["useq_err"] = info.get("useq_err", 0) + 1
    else:
        uo = [float(v) for v in r["u_onset"]]
        ev.impl.append(("@approx", [uo, float(r["total_dur"]), [[int(i) for i in g] for g in r["unique_onset_idxs"]],
                                    [float(v) for v in r["diff_u_onset"]] if "diff_u_onset" in r else "-"], 1e-12))
        if ("diff_u_onset" in r) != bool(u["diff"]):
            ev.oracle.append("get_unique_seq(return_diff=%r) returned keys %r" % (u["diff"], sorted(r)))
        last = "grace" if u["ons"] and np.isclose(max(u["ons"]), max(u["offs"])) else "offset"
        info["useq_last_" + last] = info.get("useq_last_" + last, 0) + 1
        info["useq_" + ("given" if idx is not None else "inferred")] = info.get("useq_" + ("given" if idx is not None else "inferred"), 0) + 1


def evaluate(d):
    import partitura.musicanalysis.performance_codec as pc

    k = d["k"]
    ev = Eval()
    if k == "vel":
        v = d["v"]
        x = np.array([v], dtype="i4") / 127.0
        x32 = np.array(x, dtype="f4")
        ev.requests.append("velenc %d" % v)
        ev.impl.append(("@approx", float(x32[0]), T32))
        back = int(np.clip(np.round(x32 * 127.0), 1, 127)[0])
        ev.requests.append("veldec %s" % q(x32[0]))
        ev.impl.append(W.f_int(back))
        if back != v:
            ev.oracle.append("velocity: %d encodes to %r and decodes to %d" % (v, float(x32[0]), back))
        ev.key = "vel%d" % v
        return ev
    if k == "mono":
        from partitura.utils.generic import monotonize_times

        xs, ss = np.array(d["xs"], dtype=float), np.array(d["ss"], dtype=float)
        r, e = call(monotonize_times, ss, x=xs)
        ev.requests.append("mono %s %s" % (W.lst(q, xs), W.lst(q, ss)))
        # the points kept: first point and every point above the running maximum (exact comparison of the inputs)
        kept, m = [], None
        for xv, sv in zip(d["xs"], d["ss"]):
            if m is None or sv > m:
                kept.append([xv, sv])
                m = sv
        if e is not None:
            ev.impl.append("err")
        else:
            ev.impl.append(("@approx", [kept, [(float(v) if math.isfinite(v) else None) for v in r[0]]], 1e-9))
        ev.key = "mono%d%s k%d" % (len(xs), d["mode"], len(kept))
        return ev
    if k == "scale":
        bps = np.array(d["bps"], dtype=float)
        std = float(np.std(bps))
        for norm in NORMS:
            sc = pc.TEMPO_NORMALIZATION[norm]["scale"](bps)
            names = pc.TEMPO_NORMALIZATION[norm]["param_names"]
            cols = np.array(sc, dtype=float)
            if "log" in norm:
                cols[0] = 2.0 ** cols[0]
            ev.requests.append("scale %s %s %s" % (norm, q(std), W.lst(q, bps)))
            ev.impl.append(("@approx", [[(float(cols[c, i]) if math.isfinite(cols[c, i]) else None) for c in range(len(names))]
                                        for i in range(len(bps))], 1e-9))
            # rescale(scale(bp)) = bp (binary64: the float32 storage is exercised by the codec cases)
            tp = np.array([tuple(np.array(sc, dtype=float)[:, i]) for i in range(len(bps))], dtype=[(nm, "f8") for nm in names])
            back = np.asarray(pc.TEMPO_NORMALIZATION[norm]["rescale"](tp), dtype=float)
            for i in range(len(bps)):
                row = cols[:, i]
                ev.requests.append("rescale %s %s" % (norm, W.lst(q, [x if math.isfinite(x) else 0.0 for x in row])))
                ev.impl.append(("@approx", (float(back[i]) if math.isfinite(back[i]) else None), 1e-9))
            if not np.allclose(back, bps, rtol=1e-9, atol=0, equal_nan=False):
                ev.oracle.append("normalisation(%s): rescale(scale(bp)) = %r for bp = %r" % (norm, back.tolist()[:6], bps.tolist()[:6]))
        ev.key = "scale%d%s" % (len(bps), "c" if std == 0 else "")
        return ev
    if k == "arrays":
        info = {}
        eval_arrays(ev, d, info)
        ev.info = dict(info, arrays=1)
        ng = info.get("groups", 0)
        ev.key = ("arrays g%d n%d %s %s %s" % (ng, len(d["so"]), d["mode"], d["norm"][12:], d.get("cut"))) if (ng >= 2 or d.get("cut")) else None
        return ev
    if k == "helpers":
        info = {}
        eval_helpers(ev, d, info)
        ev.info = dict(info, helpers=1)
        ev.key = "helpers k%d m%d%s o%d %s%d" % (len(d["ks"]), len(d["ss"]), d["mmode"], len(d["ons"]), d["gkind"], len(d["groups"]))
        return ev
    if k == "alforms":
        info = {}
        n = eval_alforms(ev, d, info)
        ev.info = dict(info, alforms=1)
        ev.key = "alforms %d/%d/%d %s %s" % (len(d["score"]), len(d["perf"]), n, "w" if d.get("wild") else "p",
                                             ",".join(sorted(x[4:] for x in info if x.startswith("alf_") and x not in ("alf_plain",)))) if n else None
        return ev
    if k == "tables":
        na = score_array(d["score"])
        pna = perf_array(d["perf"])
        eval_tables(ev, na, pna, d["al"], na, pna)
        eval_decode_table(ev, na, d)
        variant = eval_decode_full(ev, na, d)
        ev.info = {"decf": variant}
        eval_decode_columns(ev, na, d, ev.info)
        ev.key = "tables%d/%d/%d" % (len(na), len(pna), len(d["al"]))
        return ev
    # ---- codec
    from gen_score import build_part

    hist = d.get("hist") or []
    askind, pkind = d.get("as"), d.get("pas")
    part = build_part(d["part"])
    obj = wrap(part, askind)          # THE score object: used, edited in place, used again
    pp = build_perf(d["perf"])
    pobj = wrap_perf(pp, pkind)
    al = d["al"]
    plain = dict(d["part"], warm=0)

    def fresh(k=None):
        """a new score object of the value the used one has after the edits of the first k stages"""
        return wrap(realise(plain, hist, k), askind)

    # -- history: every use of the one score object must give what the same call gives on a fresh equal-valued score
    nobs = 0
    hops, himpl, hist_ok = [], [], True
    tabs = [fresh(k).note_array() for k in range(len(hist))] if hist else []
    if hist:
        perf2, al2 = alt_inputs(d["perf"], al)
        pp2 = build_perf(perf2)
        pobj2 = wrap_perf(pp2, pkind)
    for k, st in enumerate(hist):
        if k > 0:
            hops += table_edits(tabs[k - 1], tabs[k])
        for o in st["obs"]:
            P, PP, A = (pobj2, pp2, al2) if o.get("alt") else (pobj, pp, al)
            tw = fresh(k)
            if not same_table(tw.note_array(), obj.note_array()):
                hist_ok = False  # the note tables themselves differ: not for this property to judge (C05)
                continue
            (got, raw), (want, _) = observe(obj, P, A, o), observe(tw, P, A, o)
            nobs += 1
            df = first_diff(got, want)
            if df:
                ev.oracle.append("history(%s): %s on a score object that was used before and edited in place (stage %d%s) differs from "
                                 "the same call on a fresh score of equal value: %s" % (o["f"], o["f"], k, ", other performance" if o.get("alt") else "", df))
            hq = hist_query(tabs[k], PP.note_array(), A, o, raw)
            if hq is not None:
                hops.append(hq[0])
                himpl.append(hq[1])
        apply_edits(part, st["edits"])

    sna = obj.note_array()
    pna = pp.note_array()
    info = {"groups": 0}
    res = eval_tables(ev, sna, pna, al, obj, pobj)
    if res is not None:
        ms, sids = res
        for norm, method in d["combos"]:
            eval_codec_combo(ev, obj, pp, al, ms, sids, norm, method, info, pobj=pobj)
    rng = random.Random(len(al) * 7919 + len(pna))
    for ro in (True, False):
        eval_time_maps(ev, obj, pp, al, ro, rng, pobj=pobj)
    # -- the last state once more: repeated calls, and the same calls on a fresh score of equal value (built without
    #    the interleaved reads of d["part"]["warm"], never used before)
    tw = fresh()
    tfin = tw.note_array()
    if same_table(tfin, sna):
        if hist:
            hops += table_edits(tabs[-1], tfin)
        last = [{"f": "ms"}, {"f": "tm", "ro": True}] + [{"f": "dec", "norm": a, "method": b} for a, b in d["combos"][:3]]
        for o in last:
            (got, raw), (want, _) = observe(obj, pobj, al, o), observe(tw, pobj, al, o)
            nobs += 1
            df = first_diff(got, want)
            if df:
                ev.oracle.append("history(%s): %s on the score object used so far differs from the same call on a fresh score of equal "
                                 "value: %s" % (o["f"], o["f"], df))
            hq = hist_query(tfin, pna, al, o, raw)
            if hq is not None:
                hops.append(hq[0])
                himpl.append(hq[1])
    else:
        hist_ok = False
    if hist and hist_ok:
        # the whole history in the model (Model/CodecHist `hrun`): the note table of the first state, the edits as they
        # show in the table, the uses of the codec as queries; the model answers every query from the table as it is then
        ev.requests.append("hist %s %d %s" % (" ".join(score_tokens(tabs[0])), len(hops), " ".join(hops)))
        ev.impl.append(("@approx", himpl, 2.0 ** -18))
    ng = info["groups"]
    grace = any(n["kind"] == "grace" for n in d["part"]["notes"])
    ev.info = {"groups": ng, "notes": len(sna), "grace": grace, "uses": nobs}
    if ng >= 2:
        ev.key = "codec n%d g%d %s%s%s%s%s %s" % (len(sna), ng, d.get("mode"), "s" if d.get("short") else "", "G" if grace else "",
                                                   " h%d" % len(hist) if hist else "", " " + d["struct"] if d.get("struct") else "",
                                                   ",".join("%s/%s" % (a[12:], b[:3]) for a, b in d["combos"]) if len(d["combos"]) < 4 else "all")
    return ev


# ---------------------------------------------------------------------------------- findings, shrinking
def finding_key(desc, failure):
    if failure.startswith("duration/grace"):
        return "C18/duration & grace note (score duration 0)"
    if failure.startswith("duration/clip"):
        return "C18/duration & performed duration < 0.075 s"
    return failure.split("(")[0].split(":")[0]


def shrink(d):
    if d.get("k") != "codec":
        return
    if len(d["combos"]) > 1:
        for c in d["combos"]:
            yield dict(d, combos=[c])
    for key in ("as", "pas"):
        if d.get(key):
            yield dict((a, b) for a, b in d.items() if a != key)
    if d["part"].get("warm"):
        yield dict(d, part=dict(d["part"], warm=0))
    hist = d.get("hist") or []
    for k in range(len(hist)):
        # a history is smaller without a stage's uses, without a stage, with fewer uses / edits in a stage
        yield dict(d, hist=hist[:k] + hist[k + 1:])
        st = hist[k]
        for j in range(len(st["obs"])):
            if len(st["obs"]) > 1:
                yield dict(d, hist=hist[:k] + [dict(st, obs=st["obs"][:j] + st["obs"][j + 1:])] + hist[k + 1:])
        for j in range(len(st["edits"])):
            if len(st["edits"]) > 1:
                yield dict(d, hist=hist[:k] + [dict(st, edits=st["edits"][:j] + st["edits"][j + 1:])] + hist[k + 1:])
    edited = set(e[1] for st in hist for e in st["edits"] if e[0] != "add")
    notes = d["part"]["notes"]
    for i in range(len(notes)):
        nid = notes[i]["id"]
        if any(n.get("tie") == nid for n in notes) or nid in edited:
            continue
        rest = [dict(n) for j, n in enumerate(notes) if j != i]
        pids = set(a.get("performance_id") for a in d["al"] if a.get("score_id") == nid)
        al = [a for a in d["al"] if a.get("score_id") != nid]
        perf = [p for p in d["perf"] if p["id"] not in pids]
        yield dict(d, part=dict(d["part"], notes=rest), al=al, perf=perf)
    for i, a in enumerate(d["al"]):
        if a["label"] != "match":
            pid = a.get("performance_id")
            yield dict(d, al=[x for j, x in enumerate(d["al"]) if j != i],
                       perf=[p for p in d["perf"] if p["id"] != pid or a["label"] == "deletion"])


def distribution(descs, results):
    from collections import Counter

    kinds = Counter(d.get("k") for d in descs)
    modes = Counter(d.get("mode") for d in descs if d.get("k") == "codec")
    combos = Counter("%s/%s" % tuple(c) for d in descs if d.get("k") == "codec" for c in d["combos"])
    groups = Counter(min(20, (r.get("info") or {}).get("groups", 0)) // 5 * 5 for d, r in zip(descs, results) if d.get("k") == "codec")
    labels = Counter(a["label"] for d in descs if d.get("k") in ("codec", "tables") for a in d["al"])

    def tot(key):
        return sum(int((r.get("info") or {}).get(key, 0) or 0) for r in results)
    return {"kinds": dict(kinds), "performance_modes": dict(modes), "normalisation_x_method": dict(combos),
            "onset_groups_bucket": {str(k): v for k, v in sorted(groups.items())}, "alignment_labels": dict(labels),
            "with_grace_notes": sum(1 for r in results if (r.get("info") or {}).get("grace")),
            "histories_on_one_score_object": sum(1 for d in descs if d.get("hist")),
            "uses_compared_with_a_fresh_score": sum((r.get("info") or {}).get("uses", 0) for r in results),
            "structural_deletions": dict(Counter(d.get("struct") for d in descs if d.get("struct"))),
            "warm_builds": sum(1 for d in descs if d.get("k") == "codec" and d["part"].get("warm")),
            "score_argument_kinds": dict(Counter(d.get("as", "part") for d in descs if d.get("k") == "codec")),
            "short_note_cases": sum(1 for d in descs if d.get("short")),
            "codec_cases_with_score_markings": sum(1 for d in descs if d.get("k") == "codec" and d["part"].get("extras")),
            "array_cases": {"modes": dict(Counter(d.get("mode") for d in descs if d.get("k") == "arrays")),
                            "length_mismatch": dict(Counter(d.get("cut") for d in descs if d.get("k") == "arrays" and d.get("cut"))),
                            "encode_tempo_refused": tot("enct_err"), "tempo_with_caller_groups": tot("tat_idx"),
                            "tempo_with_input_onsets": tot("tat_inp")},
            "decode_columns": dict((b, tot("decc_" + b)) for b in ("as_encoded", "dropped", "extra", "reordered", "refused", "decoded")),
            "helpers_2d": {"two_dimensional": tot("h2_2d"), "structured": tot("h2_struct")},
            "get_unique_seq": dict((b, tot("useq_" + b)) for b in ("err", "last_grace", "last_offset", "given", "inferred")),
            "alignment_forms": dict((b, tot("alf_" + b)) for b in (
                "plain", "ms_judged", "mn_judged", "nolabel", "sstr", "sint", "snone", "smissing", "pstr", "pint", "pnone", "pmissing", "ms_err", "mn_err", "rewritten")),
            "zero_order_queries": dict((b, tot("zh_" + b)) for b in ("single", "below", "above", "knot", "between")),
            "onsetwise_group_shapes": dict((g, tot("groups_" + g)) for g in ("partition", "overlap", "outside")),
            "monotonize_without_abscissae": dict(Counter(d.get("mmode") for d in descs if d.get("k") == "helpers")),
            "decode_full_variants": dict(Counter((r.get("info") or {}).get("decf") for r in results if (r.get("info") or {}).get("decf")))}
