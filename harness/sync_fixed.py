"""coordinator helper: add a `fixed` entry to known_findings.json for every fixes/Cxx-n-*.patch whose commit is in /repo"""
import json, glob, os, re, subprocess
log = subprocess.run(["git", "-C", "/repo", "log", "--format=%h\t%s"], capture_output=True, text=True).stdout.strip().split("\n")
commits = [l.split("\t", 1) for l in log]
p = "/verif/known_findings.json"
k = json.load(open(p))
have = {(e["property"], e["key"]) for e in k}
import importlib.util
spec = importlib.util.spec_from_file_location("af", "/verif/harness/apply_fix.py")
for patch in sorted(glob.glob("/verif/fixes/C*-*.patch")):
    base = os.path.basename(patch)
    m = re.match(r"(C\d+)-(\d+)-(.*)\.patch", base)
    prop, n, slug = m.group(1), m.group(2), m.group(3)
    key = "F-%s-%s" % (prop, n)
    if (prop, key) in have or any(e["property"] == prop and e.get("patch") == base for e in k):
        continue
    md = "/verif/fixes/%s-%s.md" % (prop, n)
    subj = None
    if os.path.exists(md):
        t = open(md).read()
        mm = re.search(r"(fix:[^\n`]+)", t)
        if mm:
            subj = mm.group(1).strip()
    hit = [c for c in commits if subj and (c[1].strip() == subj or (len(subj) > 40 and c[1].strip().startswith(subj)))]
    if hit: subj = hit[0][1].strip()
    if not hit:
        continue
    k.append({"property": prop, "key": key, "status": "fixed", "commit": hit[0][0], "patch": base,
              "what": "fixed: property=%s %s %s" % (prop, hit[0][0], subj[4:].strip()),
              "witness": "corpus/%s and fixes/%s-%s.md" % (prop, prop, n)})
    print("recorded", key, hit[0][0])
json.dump(k, open(p, "w"), indent=1)
