"""coordinator helper: run partitura's pinned suite in a worktree and report whether the 228 baseline tests still pass"""
import json, subprocess, sys, os, tempfile
import xml.etree.ElementTree as ET
wt = sys.argv[1]
base = set(json.load(open("/root/.vp/BASELINE.json"))["stable_pass"])
out = tempfile.mktemp(suffix=".xml")
env = dict(os.environ, PYTHONPATH=wt, PYTHONWARNINGS="ignore")
env.pop("CPJKU_PARTITURA_VERIF", None)
subprocess.run(["/venv/bin/python", "-m", "pytest", "-q", "-p", "no:cacheprovider", "--timeout=900",
                "--continue-on-collection-errors", "--junitxml=" + out], cwd=wt, env=env,
               stdout=subprocess.DEVNULL, stderr=subprocess.DEVNULL)
passed = set()
for tc in ET.parse(out).getroot().iter("testcase"):
    if not any(c.tag in ("failure", "error", "skipped") for c in tc):
        passed.add("%s::%s" % (tc.get("classname").replace(".", ".", 99).rsplit(".", 1)[0] + "." + tc.get("classname").rsplit(".", 1)[1] if False else tc.get("classname"), tc.get("name")))
# classname is like tests.test_x.TestClass ; baseline ids are tests.test_x.TestClass::test_name
missing = sorted(base - passed)
print(json.dumps({"worktree": wt, "passed": len(passed), "baseline": len(base), "baseline_missing": missing}))
os.remove(out)
sys.exit(1 if missing else 0)
