"""Translator for C08 (round 5): the literal pieces of the match-file writer and reader that the Lean model copies,
read off the LIVE source -> lean/PartituraModel/Gen/C08Lits.lean.

Every value is obtained by calling the live functions on probe inputs (nothing depends on local names or on the way a
literal is written), except the two name tuples of the MusicXML reader, which are not observable by probing and are
read from the syntax tree of `get_articulations` / `get_ornaments`:

* defaultMpq / defaultPpq        default clock of `matchfile_from_alignment` and `save_match` (signatures; must agree)
* latestVersion                  the default `version` of `matchfile_from_alignment`
* headerOrder                    the attributes of the info / scoreprop lines of a written file, in file order
* pedalLines                     which controller numbers 0..127 become which pedal line (`sustain` / `soft`)
* firstMeasure / firstMeasurePickup   the measure number written for the first measure without / with a pickup
* secondMeasureDuplicate         the number written for the second of two measures that both carry `Measure.number` 1
* beatDecimals                   digits after the point of the beat times of a written snote line
* fracBound                      the largest numerator FractionalSymbolicDuration keeps as it is
* pedalThreshold / firstNoteAtZero / offsetDurationWhole / staffSplit   defaults of the reader
* articulationNames / ornamentNames   the MusicXML names a score note can carry (importmusicxml + exportmusicxml)
* loadedArticulations            for every such name (and `stac`): the articulations of the note loaded from a file
                                 whose snote carries that one name
* loadedStaff                    the staff loaded for notes written with staff 1, 2, 9, 10, 12, 25

The generator never raises; what cannot be read is emitted as a neutral value, `ok` becomes false with the reasons in
`notes`, and `C08.lits_extracted` (Props/C08Attr.lean) no longer builds.
"""
import ast
import inspect
import re
import textwrap
import warnings


def _q(f, *a, **kw):
    import contextlib
    import io

    with warnings.catch_warnings():
        warnings.simplefilter("ignore")
        with contextlib.redirect_stdout(io.StringIO()):
            return f(*a, **kw)


def _lstr(s):
    return '"' + "".join(ch if 32 <= ord(ch) < 127 and ch not in '"\\' else " " for ch in str(s)) + '"'


def _lstrs(xs):
    return "[" + ", ".join(_lstr(x) for x in xs) + "]"


def _name_tuple(fn, min_len=5):
    """the first tuple / list of string constants (at least `min_len`) in the body of `fn`"""
    tree = ast.parse(textwrap.dedent(inspect.getsource(fn)))
    for node in ast.walk(tree):
        if isinstance(node, (ast.Tuple, ast.List)) and len(node.elts) >= min_len and all(
                isinstance(e, ast.Constant) and isinstance(e.value, str) for e in node.elts):
            return [e.value for e in node.elts]
    raise ValueError("no tuple of names in %s" % fn.__name__)


def _probe_part(S, pickup=False, numbers=None, arts=None, staffs=None, divs=3):
    """4/4; measures of 4 quarters (a pickup of one quarter first when asked); one note at the start of every
    measure, plus one a third of a beat later in the first full measure"""
    p = S.Part("P0", quarter_duration=divs)
    p.add(S.TimeSignature(4, 4), 0)
    p.add(S.KeySignature(0, "major"), 0)
    bars = ([(0, divs)] if pickup else []) + [((divs if pickup else 0) + 4 * divs * i, (divs if pickup else 0) + 4 * divs * (i + 1))
                                              for i in range(2)]
    ids = []
    for i, (s, e) in enumerate(bars):
        p.add(S.Measure(number=(numbers[i] if numbers else i + 1)), s, e)
        n = S.Note(step="C", octave=4, id="s%d" % i, voice=1, staff=(staffs[i] if staffs and i < len(staffs) else 1))
        if arts and i < len(arts):
            n.articulations = [arts[i]]
        p.add(n, s, s + divs)
        ids.append(n.id)
    n = S.Note(step="D", octave=4, id="sx", voice=1, staff=1)
    p.add(n, bars[-1][0] + divs + 1, bars[-1][0] + 2 * divs)
    ids.append("sx")
    return p, ids


def gen_c08lits():
    notes = []
    v = dict(defaultMpq=0, defaultPpq=0, latestVersion=(0, 0, 0), headerOrder=[], pedalLines=[], firstMeasure=-1,
             firstMeasurePickup=-1, secondMeasureDuplicate=-1, beatDecimals=0, fracBound=0, pedalThreshold=0,
             firstNoteAtZero=True, offsetDurationWhole=False, staffSplit=0, articulationNames=[], ornamentNames=[],
             loadedArticulations=[], loadedStaff=[])
    try:
        import partitura.score as S
        from partitura.performance import PerformedPart
        from partitura.io import exportmatch as EM, importmatch as IM, importmusicxml as IX, exportmusicxml as EX
        from partitura.io.matchfile_utils import FractionalSymbolicDuration as FSD

        def export(part, ids, controls=()):
            pn = [dict(id="n%d" % i, midi_pitch=60, note_on=0.5 * i, note_off=0.5 * i + 0.25, velocity=64) for i in range(len(ids))]
            pp = PerformedPart(pn, controls=list(controls), ppq=480, mpq=500000)
            al = [dict(label="match", score_id=s, performance_id="n%d" % i) for i, s in enumerate(ids)]
            return _q(EM.matchfile_from_alignment, al, pp, part, assume_part_unfolded=True)

        try:
            sig = inspect.signature(inspect.unwrap(EM.matchfile_from_alignment)).parameters
            sig2 = inspect.signature(inspect.unwrap(EM.save_match)).parameters
            v["defaultMpq"], v["defaultPpq"] = int(sig["mpq"].default), int(sig["ppq"].default)
            if (int(sig2["mpq"].default), int(sig2["ppq"].default)) != (v["defaultMpq"], v["defaultPpq"]):
                notes.append("save_match and matchfile_from_alignment have different default clocks")
            ver = sig["version"].default
            v["latestVersion"] = (int(ver.major), int(ver.minor), int(ver.patch))
        except Exception as e:
            notes.append("writer defaults unreadable (%s: %s)" % (type(e).__name__, e))
        try:
            part, ids = _probe_part(S)
            controls = [dict(number=k, time=0.1 + 0.001 * k, value=k) for k in range(128)]
            mf = export(part, ids, controls)
            hdr = []
            for l in mf.lines:
                a = getattr(l, "Attribute", None)
                if a is None:
                    break
                hdr.append(str(a))
            v["headerOrder"] = hdr
            ped = []
            for l in mf.lines:
                cn = type(l).__name__
                if "Pedal" in cn:
                    ped.append((int(l.Value), "sustain" if "Sustain" in cn else "soft" if "Soft" in cn else cn))
            v["pedalLines"] = sorted(ped)
            sn = {str(l.snote.Anchor): l for l in mf.lines if hasattr(l, "snote")}
            v["firstMeasure"] = int(sn["s0"].snote.Measure)
            m = re.search(r",(-?\d+\.(\d+)),(-?\d+\.\d+),\[", sn["sx"].matchline)
            v["beatDecimals"] = len(m.group(2))
            part, ids = _probe_part(S, pickup=True)
            mf = export(part, ids)
            sn = {str(l.snote.Anchor): l for l in mf.lines if hasattr(l, "snote")}
            v["firstMeasurePickup"] = int(sn["s0"].snote.Measure)
            part, ids = _probe_part(S, numbers=[1, 1])
            mf = export(part, ids)
            sn = {str(l.snote.Anchor): l for l in mf.lines if hasattr(l, "snote")}
            v["secondMeasureDuplicate"] = int(sn["s1"].snote.Measure)
        except Exception as e:
            notes.append("writer probes failed (%s: %s)" % (type(e).__name__, e))
        try:
            b = 1
            while b < 1 << 16 and int(_q(FSD, b + 1, 1).numerator) == b + 1:
                b += 1
            v["fracBound"] = b
        except Exception as e:
            notes.append("FractionalSymbolicDuration bound unreadable (%s: %s)" % (type(e).__name__, e))
        try:
            sig = inspect.signature(IM.performed_part_from_match).parameters
            v["pedalThreshold"] = int(sig["pedal_threshold"].default)
            v["firstNoteAtZero"] = bool(sig["first_note_at_zero"].default)
            v["offsetDurationWhole"] = bool(inspect.signature(IM.part_from_matchfile).parameters["match_offset_duration_in_whole"].default)
            v["staffSplit"] = int(inspect.signature(IM.add_staffs).parameters["split"].default)
        except Exception as e:
            notes.append("reader defaults unreadable (%s: %s)" % (type(e).__name__, e))
        try:
            arts = _name_tuple(IX.get_articulations)
            for a in EX.ARTICULATIONS:
                if a not in arts:
                    arts.append(a)
            v["articulationNames"] = arts
            v["ornamentNames"] = _name_tuple(IX.get_ornaments)
        except Exception as e:
            notes.append("MusicXML name tables unreadable (%s: %s)" % (type(e).__name__, e))
        try:
            la = []
            names = list(v["articulationNames"]) + list(v["ornamentNames"]) + ["stac"]
            for i in range(0, len(names), 2):
                chunk = names[i:i + 2]
                part, ids = _probe_part(S, arts=chunk)
                lp = _q(IM.part_from_matchfile, export(part, ids))
                byid = {n.id: n for n in lp.notes_tied}
                for j, nm in enumerate(chunk):
                    la.append((nm, sorted(str(x) for x in (byid["s%d" % j].articulations or []))))
            v["loadedArticulations"] = la
            ls = []
            for a, b in ((1, 2), (9, 10), (12, 25)):
                part, ids = _probe_part(S, staffs=[a, b])
                lp = _q(IM.part_from_matchfile, export(part, ids))
                byid = {n.id: n for n in lp.notes_tied}
                ls += [(a, int(byid["s0"].staff)), (b, int(byid["s1"].staff))]
            v["loadedStaff"] = ls
        except Exception as e:
            notes.append("reader probes failed (%s: %s)" % (type(e).__name__, e))
    except Exception as e:  # pragma: no cover
        notes.append("partitura not importable (%s: %s)" % (type(e).__name__, e))
    out = ["/- GENERATED by harness/translate_c08.py from the live partitura source (io/exportmatch.py, io/importmatch.py,",
           "   io/matchfile_utils.py, io/importmusicxml.py, io/exportmusicxml.py), by probing the functions.  Do not edit. -/",
           "namespace Gen.C08Lits", ""]
    w = out.append
    w("/-- default clock of `matchfile_from_alignment` / `save_match` -/")
    w("def defaultMpq : Nat := %d" % v["defaultMpq"])
    w("def defaultPpq : Nat := %d" % v["defaultPpq"])
    w("/-- default `version` of the writer -/")
    w("def latestVersion : Nat × Nat × Nat := (%d, %d, %d)" % tuple(v["latestVersion"]))
    w("/-- attributes of the info / scoreprop lines of a written file, in file order -/")
    w("def headerOrder : List String := %s" % _lstrs(v["headerOrder"]))
    w("/-- controller numbers (of 0..127) that become a pedal line, with the kind of line -/")
    w("def pedalLines : List (Nat × String) := [%s]" % ", ".join("(%d, %s)" % (a, _lstr(b)) for a, b in v["pedalLines"]))
    w("/-- measure number written for the first measure: without / with a pickup -/")
    w("def firstMeasure : Int := %d" % v["firstMeasure"])
    w("def firstMeasurePickup : Int := %d" % v["firstMeasurePickup"])
    w("/-- measure number written for the second of two measures that both carry `Measure.number` 1 -/")
    w("def secondMeasureDuplicate : Int := %d" % v["secondMeasureDuplicate"])
    w("/-- digits after the point of a written beat time -/")
    w("def beatDecimals : Nat := %d" % v["beatDecimals"])
    w("/-- largest numerator `FractionalSymbolicDuration` keeps as it is -/")
    w("def fracBound : Nat := %d" % v["fracBound"])
    w("/-- defaults of the reader -/")
    w("def pedalThreshold : Nat := %d" % v["pedalThreshold"])
    w("def firstNoteAtZero : Bool := %s" % ("true" if v["firstNoteAtZero"] else "false"))
    w("def offsetDurationWhole : Bool := %s" % ("true" if v["offsetDurationWhole"] else "false"))
    w("def staffSplit : Nat := %d" % v["staffSplit"])
    w("/-- the MusicXML articulation / ornament names a score note can carry -/")
    w("def articulationNames : List String := %s" % _lstrs(v["articulationNames"]))
    w("def ornamentNames : List String := %s" % _lstrs(v["ornamentNames"]))
    w("/-- name on the snote line -> articulations of the loaded note -/")
    w("def loadedArticulations : List (String × List String) := [%s]" % ", ".join(
        "(%s, %s)" % (_lstr(a), _lstrs(b)) for a, b in v["loadedArticulations"]))
    w("/-- staff of the written note -> staff of the loaded note -/")
    w("def loadedStaff : List (Nat × Nat) := [%s]" % ", ".join("(%d, %d)" % x for x in v["loadedStaff"]))
    w("")
    w("def ok : Bool := %s" % ("true" if not notes else "false"))
    w("def notes : List String := %s" % _lstrs(notes))
    w("")
    w("end Gen.C08Lits")
    return "\n".join(out) + "\n"


GENERATORS = {"C08Lits.lean": gen_c08lits}

if __name__ == "__main__":
    print(gen_c08lits())
