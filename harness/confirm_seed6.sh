#!/bin/bash
# coordinator helper (round 6): confirm a seed living in /tmp/seed-<Cxx-y> and run the property's quick check against it.
#   harness/confirm_seed6.sh Cxx-y [tier]   -> /tmp/confirm-Cxx-y.out  (demo on /repo, demo on seed, suite, check verdict, replay digest)
# The seed worktree is first moved onto /repo's current HEAD (seeds are written while fix: commits keep landing).
set -u
x="$1"; TIER="${2:-quick}"; id=${x%-*}; WT=/tmp/seed-$x; OUT=/tmp/confirm-$x.out
: > $OUT
head=$(git -C /repo rev-parse HEAD)
if [ "$(git -C $WT rev-parse HEAD)" != "$head" ]; then
  # NB: no `git stash` here — the stash is shared by all worktrees of a repository (parallel runs would swap changes)
  git -C $WT diff -- partitura > /tmp/confirm-$x.rebase.diff
  git -C $WT checkout -q -- partitura && git -C $WT checkout -q --detach $head 2>>$OUT \
    && git -C $WT apply --3way --whitespace=nowarn /tmp/confirm-$x.rebase.diff 2>>$OUT && git -C $WT reset -q || echo "$x REBASE-FAILED (diff kept in /tmp/confirm-$x.rebase.diff)" >> $OUT
fi
git -C $WT diff -- partitura > $WT/seed_patch.diff
echo "$x patch: $(git -C $WT diff --stat -- partitura | tail -1)" >> $OUT
(cd /tmp && PYTHONPATH=/repo /venv/bin/python -W ignore $WT/seed_demo.py >/dev/null 2>&1; echo "$x demo-on-repo=$?") >> $OUT
(cd /tmp && PYTHONPATH=$WT /venv/bin/python -W ignore $WT/seed_demo.py >/dev/null 2>&1; echo "$x demo-on-seed=$?") >> $OUT
if [ "${SKIP_SUITE:-0}" != 1 ]; then /venv/bin/python /verif/harness/suite_compare.py $WT >> $OUT 2>&1; fi
before=$(ls /verif/replays 2>/dev/null | sort)
BASE=/verif /verif/harness/seedrun5.sh $WT $id $TIER >> $OUT 2>&1
rp=$(grep -o 'replay=[^ ]*' $OUT | tail -1 | cut -d= -f2)
if [ -n "$rp" ] && [ -f "$rp" ]; then /venv/bin/python - "$rp" >> $OUT <<'PY'
import json, sys
r = json.load(open(sys.argv[1]))
print("kind:", r.get("kind"))
for f in (r.get("oracle_failures") or [])[:2]: print("oracle:", str(f)[:400])
for b in (r.get("broken_obligations") or [])[:2]: print("broken:", str(b)[:260])
print("case:", json.dumps(r.get("case"))[:300])
PY
fi
