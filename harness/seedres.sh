#!/bin/bash
# usage: seedres.sh Cxx-g ...   prints demo, suite, verdict, replay kind and first oracle failure
for x in "$@"; do
  echo "== $x: $(cat /tmp/demo-$x.out 2>/dev/null | cut -d' ' -f3-) | suite: $(tail -1 /tmp/suite-$x.out | grep -o '"passed": [0-9]*, "baseline": [0-9]*, "baseline_missing": \[[^]]*\]')"
  last=$(tail -1 /tmp/seedrun-$x.out | cut -c1-160)
  echo "   $last"
  f=$(echo "$last" | grep -o '/verif/replays/[^ ]*json')
  if [ -n "$f" ]; then /venv/bin/python -c "
import json
d=json.load(open('$f')); print('   kind=%s' % d['kind'], [x[:260] for x in d.get('oracle_failures',[])[:1]], [b[:120] for b in d.get('broken_obligations',[])][:1])"; fi
done
