#!/bin/bash
# usage: runseeds.sh Cxx-c Cxx-d ...
cd /verif
for x in "$@"; do id=${x%-*}; (cd /tmp/seed-$x && PYTHONPATH=/repo /venv/bin/python -W ignore seed_demo.py >/dev/null 2>&1; r1=$?; PYTHONPATH=/tmp/seed-$x /venv/bin/python -W ignore seed_demo.py >/dev/null 2>&1; echo "$x demo repo=$r1 seed=$?" > /tmp/demo-$x.out); (/venv/bin/python harness/suite_compare.py /tmp/seed-$x > /tmp/suite-$x.out 2>&1 &); (harness/seedrun.sh /tmp/seed-$x $id quick > /tmp/seedrun-$x.out 2>&1 &); sleep 2; done
