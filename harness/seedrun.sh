#!/bin/bash
# coordinator helper: run one property's check against a scratch worktree of partitura in an
# isolated copy of /verif (own Gen/ and .lake), so concurrent work in /verif is not disturbed.
#   harness/seedrun.sh <worktree> <Cxx> [tier]
# prints the check's output; the replay file (if any) is copied to /verif/replays/.
set -u
WT="$1"; ID="$2"; TIER="${3:-quick}"
COPY="/tmp/vs-$ID-$$"
rsync -a --exclude replays --exclude .git /verif/ "$COPY/"
( cd "$COPY" && VERIF_REPO="$WT" ./check "$ID" --tier "$TIER" ) 2>&1 | tail -5 | sed "s#$COPY#/verif#g"
mkdir -p /verif/replays
cp "$COPY"/replays/*.json /verif/replays/ 2>/dev/null
rm -rf "$COPY"
