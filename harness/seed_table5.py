"""prints the DESIGN 11.5 / 11.6 table (round given as argv[1]: 5 or 6): seed | what breaks | first sight | caught by"""
import json, glob, os, re, sys
rnd = int(sys.argv[1]); letters = {5: "ij", 6: "klmn"}[rnd]
first = {}
fs = os.path.join(os.path.dirname(__file__), "..", "round%d" % rnd, "seed_first_sight.txt")
if os.path.exists(fs):
    for line in open(fs):
        m = re.match(r"(caught with failing input|no-failing-input-found|missed) \(\d+\): (.*)", line)
        if m:
            for tok in re.findall(r"C\d\d-[a-z]", m.group(2)):
                first[tok] = {"caught with failing input": "caught", "no-failing-input-found": "nfif", "missed": "missed"}[m.group(1)]
print("| seed | what breaks | first sight | caught by (after strengthening where first sight was not `caught`) |\n|---|---|---|---|")
for f in sorted(glob.glob(os.path.join(os.path.dirname(__file__), "..", "seeded", "*", "meta.json"))):
    m = json.load(open(f))
    if m["id"][-1] not in letters: continue
    summ = re.split(r"(?<=[a-z\)`'])\. ", m["summary"].replace("\n", " "))[0]
    summ = summ[:200] + ("…" if len(summ) > 200 else "")
    how = m["detected_by"].replace("\n", " ")
    how = re.sub(r"; failing-input$", "", how)
    how = how[:200] + ("…" if len(how) > 200 else "")
    fsx = m.get("first_sight") or first.get(m["id"], "caught" if rnd == 6 else "?")
    print("| %s | %s | %s | %s |" % (m["id"], summ.replace("|", "/"), fsx, how.replace("|", "/")))
