"""C20 helper module: ARGUMENT FORMS and the registry of read-only entry points.

Every read-only entry point takes a `ScoreLike` (`Union[List[Union[Part, PartGroup]], Part, PartGroup, Score]`) or a
`PerformanceLike` (`Union[List[PerformedPart], PerformedPart, Performance]`) argument.  The frame check of C20 must hold
for EVERY form the union allows, not only for the canonical one, and for objects whose bookkeeping is not normalised
(a part taken OUT of a container, track numbers that are not 0..k-1, dictionaries without a `track` key).

* `form_table()` reads the two unions from the live source (typing.get_args) and maps every member to the concrete
  builders below; a member without a builder is reported in the distribution (`forms_without_builder`).
* `discover()` walks the public namespaces of partitura (top level `__all__`, musicanalysis `__all__`, utils `__all__`,
  utils.music, score, the `io/export*` modules) and classifies every function that takes a ScoreLike / PerformanceLike
  argument (by annotation, else by the numpydoc type of the parameter): read-only, documented in-place, or skipped for
  a stated reason.  A newly exported function is picked up without editing this file.
"""
import inspect
import io
import re
import typing

import gen_score as G

# ---------------------------------------------------------------------------------------------------- registry
NAMESPACES = ["partitura", "partitura.musicanalysis", "partitura.utils", "partitura.utils.music", "partitura.score",
              "partitura.performance"]

# operations that are DOCUMENTED to change their input (the property lists them; sanitize_part / add_segments /
# set_end_times / assign_note_ids / the grace-note and beaming editors say so in their docstrings)
IN_PLACE = {
    "add_measures", "tie_notes", "find_tuplets", "fill_rests", "merge_parts", "sanitize_part", "add_segments",
    "set_end_times", "assign_note_ids", "expand_grace_notes", "remove_grace_notes", "split_note", "infer_beaming",
    "update_note_ids_after_unfolding", "remove_silence_from_performed_part", "unfold_part_alignment",
    "pretty_segments",   # reads Part.segments, which is documented to store the segmentation on the part
}
SKIP = {
    "render": "needs an external engraver", "save_wav_fluidsynth": "needs fluidsynth", "tokenize": "needs miditok",
    "load_via_musescore": "needs MuseScore",
    "save_mei": "MEI export belongs to C19", "save_kern": "kern export belongs to C19",
    "save_wav": "audio synthesis (seconds per call)", "synthesize": "audio synthesis (seconds per call)",
    "decode_performance": "takes a performance ARRAY and builds a new performed part (C18)",
    "iter_parts": "generator helper (modelled: Model/ArgForms.lean, stream `scoreforms`)",
}
DOC_INPLACE = re.compile(r"in[- ]place|WARNING: this modifies", re.I)
SCORE_WORDS = re.compile(r"ScoreLike|`?\bPart\b`?|`?\bScore\b`?|PartGroup")
PERF_WORDS = re.compile(r"PerformanceLike|PerformedPart|`?\bPerformance\b`?")


def _param_doc_type(doc, pname):
    """the numpydoc type line of parameter `pname` ('' if absent)"""
    m = re.search(r"^\s*%s\s*:\s*(.+)$" % re.escape(pname), doc or "", re.M)
    return m.group(1) if m else ""


def _kinds_of(fn, S, P):
    """[(parameter name, 'S' | 'P' | 'SP')] for the parameters of fn that take a score-like / performance-like"""
    f0 = inspect.unwrap(fn)
    try:
        sig = inspect.signature(f0)
    except (TypeError, ValueError):
        return []
    try:
        hints = typing.get_type_hints(f0)
    except Exception:
        hints = {}
    s_args = set(map(repr, typing.get_args(S.ScoreLike)))
    p_args = set(map(repr, typing.get_args(P.PerformanceLike)))
    # an annotation that names any member of the union (or one of its classes) marks a score / performance argument
    s_cls = s_args | {repr(S.Part), repr(S.PartGroup), repr(S.Score), repr(S.ScoreLike)}
    p_cls = p_args | {repr(P.PerformedPart), repr(P.Performance), repr(P.PerformanceLike)}
    out = []
    for p in sig.parameters.values():
        ann = hints.get(p.name, p.annotation)
        k = ""
        if ann is not inspect._empty:
            if isinstance(ann, str):
                k = ("S" if SCORE_WORDS.search(ann) else "") + ("P" if PERF_WORDS.search(ann) else "")
            else:
                a = set(map(repr, typing.get_args(ann))) | {repr(ann)}
                for x in typing.get_args(ann):   # List[Part], Optional[...] one level down
                    a |= set(map(repr, typing.get_args(x)))
                k = ("S" if a & s_cls else "") + ("P" if a & p_cls else "")
        if not k and p.annotation is inspect._empty and p.name in ("note_info", "score_data", "performance_data", "part", "score",
                                                                   "notearray_or_part", "restarray_or_part", "part_list",
                                                                   "ppart", "performance", "input_data"):
            t = _param_doc_type(f0.__doc__, p.name)
            k = ("S" if SCORE_WORDS.search(t) else "") + ("P" if PERF_WORDS.search(t) else "")
            if not k and p.name == "part_list":
                k = "SP"   # "part_list : list" — of Part / PartGroup or of PerformedPart objects
            if not k and p.name == "part" and not t:
                k = "S"    # undocumented `part` parameter (full_note_array)
        if k:
            out.append((p.name, k))
    return out


_REG = None


def discover():
    """{name: {"fn", "module", "params": [(name, kind)], "status": "readonly" | "inplace" | "skip: why"}}"""
    global _REG
    if _REG is not None:
        return _REG
    import importlib
    import pkgutil
    import partitura.io
    import partitura.score as S
    import partitura.performance as P

    mods = list(NAMESPACES) + ["partitura.io." + m.name for m in pkgutil.iter_modules(partitura.io.__path__)
                               if m.name.startswith("export")]
    reg = {}
    for mn in mods:
        try:
            m = importlib.import_module(mn)
        except Exception:
            continue
        names = getattr(m, "__all__", None) or [n for n in dir(m) if not n.startswith("_")]
        for n in names:
            f = getattr(m, n, None)
            if not inspect.isfunction(f) or not getattr(f, "__module__", "").startswith("partitura") or n in reg:
                continue
            ps = _kinds_of(f, S, P)
            if not ps:
                continue
            if n.startswith("load_") or n.startswith("import"):
                continue
            if n in SKIP:
                status = "skip: " + SKIP[n]
            elif n in IN_PLACE or DOC_INPLACE.search(inspect.unwrap(f).__doc__ or ""):
                status = "inplace"
            else:
                status = "readonly"
            reg[n] = {"fn": f, "module": inspect.unwrap(f).__module__, "params": ps, "status": status}
    _REG = reg
    return reg


def _bytes_out(f, *a, **k):
    b = io.BytesIO()
    f(*a, b, **k)
    return b.getvalue()


def score_recipes():
    """how each known entry point is called on a score-like argument `o`; anything discovered that has no recipe is
    called as f(o) (with out=None when it has an `out` parameter)"""
    import partitura.score as S

    return {
        "save_musicxml": lambda f, o: f(o),
        "save_score_midi": lambda f, o: _bytes_out(f, o),
        "transpose": lambda f, o: f(o, S.Interval(2, "M")),
        "transpose:P5down": lambda f, o: f(o, S.Interval(5, "P", "down")),
        "make_note_features": lambda f, o: f(o, ["polynomial_pitch_feature", "duration_feature"]),
        "make_rest_features": lambda f, o: f(o, ["duration_feature"]),
        "compute_note_array": lambda f, o: f(o, include_pitch_spelling=True, include_metrical_position=True),
        "note_array_from_part_list": lambda f, o: f(o, unique_id_per_part=True),
        "unfold_part_maximal": lambda f, o: f(o),
        "unfold_part_minimal": lambda f, o: f(o),
    }


def perf_recipes():
    return {
        "save_performance_midi": lambda f, o: _bytes_out(f, o),
        "save_performance_midi:merge": lambda f, o: _bytes_out(f, o, merge_tracks_save=True),
        "slice_ppart_by_time": lambda f, o: f(o, 0.25, 1.5),
    }


def default_call(f, o):
    sig = inspect.signature(inspect.unwrap(f))
    kw = {}
    if "out" in sig.parameters and sig.parameters["out"].default is inspect._empty:
        kw["out"] = None
    return f(o, **kw)


def entry_points(kind):
    """name -> callable(arg) for every read-only entry point taking (as its FIRST score/performance-like parameter) an
    argument of `kind` ('S' or 'P'); functions that need a second score/performance-like argument (save_match,
    encode_performance, …) are exercised by the dedicated recipes of props/c20.py and are listed as `paired`"""
    reg = discover()
    rec = score_recipes() if kind == "S" else perf_recipes()
    eps, info = {}, {"inplace": [], "skipped": {}, "paired": [], "default_recipe": []}
    for n, e in sorted(reg.items()):
        if not any(kind in k for _, k in e["params"]):
            continue
        if e["status"] == "inplace":
            info["inplace"].append(n)
            continue
        if e["status"].startswith("skip"):
            info["skipped"][n] = e["status"][6:]
            continue
        sig = inspect.signature(inspect.unwrap(e["fn"]))
        first = next(iter(sig.parameters))
        if first != e["params"][0][0] or kind not in e["params"][0][1] or len(e["params"]) > 1:
            info["paired"].append(n)
            continue
        variants = [v for v in rec if v == n or v.startswith(n + ":")]
        if not variants:
            info["default_recipe"].append(n)
            eps[n] = (lambda f: lambda o: default_call(f, o))(e["fn"])
        for v in variants:
            eps[v] = (lambda f, r: lambda o: r(f, o))(e["fn"], rec[v])
    return eps, info


# ---------------------------------------------------------------------------------------------------- forms
def union_members(alias):
    """names of the members of a typing.Union alias, e.g. ['List[Part|PartGroup]', 'Part', 'PartGroup', 'Score']"""
    out = []
    for a in typing.get_args(alias):
        if typing.get_origin(a) in (list, typing.List):
            inner = typing.get_args(a)[0]
            inner_names = [x.__name__ for x in (typing.get_args(inner) or (inner,))]
            out.append("List[%s]" % "|".join(inner_names))
        else:
            out.append(getattr(a, "__name__", repr(a)))
    return out


# union member -> the concrete forms generated for it
SCORE_FORMS = {
    "Score": ["score", "score_groups", "score_one"],
    "Part": ["part", "part_of_score", "part_in_group"],
    "PartGroup": ["group", "nested_group", "group_one"],
    "List[Part|PartGroup]": ["list", "tuple", "list_with_group", "list_one"],
}
PERF_FORMS = {
    "Performance": ["performance", "performance_nounique", "performance_one"],
    "PerformedPart": ["ppart", "ppart_taken_out", "ppart_offset_track", "ppart_ctl_nokey", "ppart_nokey", "ppart_gaps"],
    "List[PerformedPart]": ["pplist", "pptuple", "pplist_taken_out"],
}


def form_table():
    import partitura.score as S
    import partitura.performance as P

    sm, pm = union_members(S.ScoreLike), union_members(P.PerformanceLike)
    forms = [("S", f) for m in sm for f in SCORE_FORMS.get(m, [])] + [("P", f) for m in pm for f in PERF_FORMS.get(m, [])]
    missing = [m for m in sm if m not in SCORE_FORMS] + [m for m in pm if m not in PERF_FORMS]
    return forms, missing


def _group(S, children, num):
    g = S.PartGroup("brace", "grp%d" % num, num, id="G%d" % num)
    g.children = list(children)
    for c in children:
        c.parent = g
    return g


def build_score_form(form, rng):
    """-> (argument, parts, groups, score or None, seq or None): the argument in the requested form and everything the
    frame is taken over (all parts, all groups, the Score that owns the parts, the list / tuple object)"""
    import partitura.score as S

    n = {"part": 1, "score_one": 1, "group_one": 1, "list_one": 1}.get(form, rng.choice([2, 2, 3]))
    parts = []
    for i in range(n):
        # (ids that do not look like P<n>, and two parts with the SAME id: an exporter that "repairs" ids writes them)
        pid = rng.choice(["P%d" % i, "P%d" % i, "P%d" % i, "vl-%d" % i, "P0", "part %d" % i])
        pd = G.random_part_desc(rng, pid=pid, n_measures=rng.choice([1, 1, 2]), voices=rng.choice([1, 1, 2]),
                                alters=(-1, 0, 0, 0, 1),
                                divs=rng.choice([1, 2, 4, 4, 6, 8]) if i == 0 or rng.random() < 0.5 else None,
                                p_grace=0.05)
        parts.append(G.build_part(pd))
    groups, score, seq = [], None, None
    if form in ("score", "score_one"):
        score = arg = S.Score(parts, id="sc")
    elif form == "score_groups":
        g = _group(S, parts[:2], 1)
        groups = [g]
        score = arg = S.Score([g] + parts[2:], id="sc")
    elif form == "part":
        arg = parts[0]
    elif form == "part_of_score":
        score = S.Score(parts, id="sc")
        arg = score.parts[-1]
    elif form == "part_in_group":
        g = _group(S, parts, 1)
        groups = [g]
        arg = g.children[-1]
    elif form in ("group", "group_one"):
        arg = _group(S, parts, 1)
        groups = [arg]
    elif form == "nested_group":
        inner = _group(S, parts[:-1], 2)
        arg = _group(S, [inner, parts[-1]], 1)
        groups = [arg, inner]
    elif form in ("list", "list_one"):
        arg = seq = list(parts)
    elif form == "tuple":
        arg = seq = tuple(parts)
    elif form == "list_with_group":
        g = _group(S, parts[:-1], 1)
        groups = [g]
        arg = seq = [g, parts[-1]]
    else:
        raise ValueError(form)
    return arg, parts, groups, score, seq


def fp_score_form(parts, groups, score, seq):
    """the argument exactly as it is: every part (deep fingerprint incl. identities; the `parent` link by identity),
    every group (attributes, identity of children and parent), the Score's own attributes and the identity and order
    of what it holds, the list / tuple object's elements by identity"""
    fp = {}
    for i, p in enumerate(parts):
        f = G.fingerprint_part(p, with_ids=True)
        f["part"] = [[k, v] if k != "parent" else [k, id(p.parent) if p.parent is not None else None] for k, v in f["part"]]
        fp["part%d" % i] = f
    for i, g in enumerate(groups):
        fp["group%d" % i] = {"id": id(g), "symbol": g.group_symbol, "name": g.group_name, "number": g.number, "gid": g.id,
                             "children": [id(c) for c in g.children],
                             "parent": id(g.parent) if g.parent is not None else None,
                             "attrs": sorted(k for k in vars(g) if not k.startswith("_"))}
    if score is not None:
        fp["score"] = {"attrs": sorted(([k, G._canon(v, {})] for k, v in vars(score).items() if k not in ("parts", "part_structure")),
                                       key=lambda kv: kv[0]),
                       "parts": [id(p) for p in score.parts], "structure": [id(x) for x in score.part_structure]}
    if seq is not None:
        fp["seq"] = [type(seq).__name__] + [id(x) for x in seq]
    return fp


def _random_ppart(P, rng, idx, track, ctl="same", prog=True, gaps=False):
    """track: the value of the `track` key of the notes (None = no key); ctl: 'same' | 'nokey' | an int"""
    notes, t = [], 0.0
    for j in range(rng.randint(2, 8)):
        t += rng.choice([0.0, 0.125, 0.25, 0.5])
        nd = {"midi_pitch": rng.randint(30, 90), "note_on": t, "note_off": t + rng.choice([0.125, 0.5, 1.0]),
              "velocity": rng.randint(1, 127), "channel": rng.randint(0, 3), "id": "n%d_%d" % (idx, j)}
        if track is not None:
            nd["track"] = track if not gaps else track + 2 * rng.randint(0, 2)
        notes.append(nd)
    controls = []
    for _ in range(rng.randint(1, 3)):
        c = {"number": 64, "value": rng.randint(0, 127), "time": round(rng.random() * 4, 3), "channel": 0}
        if ctl == "same":
            if track is not None:
                c["track"] = track
        elif ctl != "nokey":
            c["track"] = ctl
        controls.append(c)
    programs = []
    if prog:
        p = {"program": rng.randint(0, 5), "time": 0.0, "channel": 0}
        if track is not None and ctl != "nokey":
            p["track"] = track
        programs.append(p)
    return P.PerformedPart(notes, id="pp%d" % idx, controls=controls, programs=programs)


def build_perf_form(form, rng):
    """-> (argument, performed parts, Performance that owns them or None, seq or None)"""
    import partitura.performance as P

    perf = seq = None
    prog = rng.random() < 0.5
    if form == "performance":
        pps = [_random_ppart(P, rng, i, rng.choice([0, 0, 1, 3]), prog=prog) for i in range(rng.randint(2, 3))]
        perf = arg = P.Performance(pps, id="perf")
    elif form == "performance_one":
        pps = [_random_ppart(P, rng, 0, rng.choice([0, 2]), prog=prog)]
        perf = arg = P.Performance(pps, id="perf")
    elif form == "performance_nounique":
        pps = [_random_ppart(P, rng, i, rng.choice([1, 1, 4]), ctl=rng.choice(["same", "nokey", 0]), prog=prog) for i in range(2)]
        perf = arg = P.Performance(pps, id="perf", ensure_unique_tracks=False)
    elif form == "ppart":
        pps = [_random_ppart(P, rng, 0, 0, prog=prog)]
        arg = pps[0]
    elif form == "ppart_taken_out":
        pps = [_random_ppart(P, rng, i, 0, prog=prog) for i in range(rng.randint(2, 3))]
        perf = P.Performance(pps, id="perf")   # documented: gives every part its own track(s), in place
        arg = perf[rng.randint(1, len(pps) - 1)]
    elif form == "ppart_offset_track":
        pps = [_random_ppart(P, rng, 0, rng.choice([1, 2, 5]), prog=prog)]
        arg = pps[0]
    elif form == "ppart_ctl_nokey":
        pps = [_random_ppart(P, rng, 0, 0, ctl="nokey", prog=prog)]
        arg = pps[0]
    elif form == "ppart_nokey":
        pps = [_random_ppart(P, rng, 0, None, ctl="nokey", prog=prog)]
        arg = pps[0]
    elif form == "ppart_gaps":
        pps = [_random_ppart(P, rng, 0, rng.choice([0, 1]), gaps=True, prog=prog)]
        arg = pps[0]
    elif form in ("pplist", "pptuple"):
        pps = [_random_ppart(P, rng, i, rng.choice([0, 2, 5]), ctl=rng.choice(["same", "nokey"]), prog=prog) for i in range(rng.randint(1, 3))]
        arg = seq = (list if form == "pplist" else tuple)(pps)
    elif form == "pplist_taken_out":
        pps = [_random_ppart(P, rng, i, 0, prog=prog) for i in range(3)]
        perf = P.Performance(pps, id="perf")
        arg = seq = [perf[2], perf[1]]
    else:
        raise ValueError(form)
    return arg, pps, perf, seq


def fp_perf_form(pps, perf, seq):
    fp = {"pp%d" % i: G.fingerprint_performance(pp)[0] for i, pp in enumerate(pps)}
    fp["ids"] = [[id(pp), id(pp.notes), id(pp.controls), id(pp.programs)] + [id(n) for n in pp.notes] for pp in pps]
    if perf is not None:
        fp["perf"] = {"parts": [id(p) for p in perf.performedparts], "list": id(perf.performedparts),
                      "attrs": sorted(([k, G._canon(v, {})] for k, v in vars(perf).items() if k != "performedparts"),
                                      key=lambda kv: kv[0])}
    if seq is not None:
        fp["seq"] = [type(seq).__name__] + [id(x) for x in seq]
    return fp


def canon_score_result(r, fallback):
    """canonical text of a score-valued result (Part / Score / PartGroup / list of these): the deep fingerprint of every
    part it reaches, in iteration order, with the `parent` link reduced to the group's attributes (a generic dump of
    the parent would walk into the siblings' memo attributes), plus the container structure"""
    import partitura.score as S

    def group_sig(g):
        return None if g is None else ["group", g.group_symbol, g.group_name, g.number, len(g.children)]

    def part_fp(p):
        f = G.fingerprint_part(p)
        f["part"] = [[k, v] if k != "parent" else [k, group_sig(p.parent)] for k, v in f["part"]]
        return f

    def struct(x):
        if isinstance(x, S.Part):
            return ["part", x.id]
        if isinstance(x, S.PartGroup):
            return group_sig(x) + [[struct(c) for c in x.children]]
        if isinstance(x, (list, tuple)):
            return [type(x).__name__] + [struct(c) for c in x]
        return repr(type(x))

    if isinstance(r, S.Score):
        return ["Score", sorted(([k, G._canon(v, {})] for k, v in vars(r).items() if k not in ("parts", "part_structure")),
                                key=lambda kv: kv[0]),
                [part_fp(p) for p in r.parts], [struct(x) for x in r.part_structure]]
    if isinstance(r, S.Part):
        return ["Part", part_fp(r)]
    if isinstance(r, S.PartGroup) or (isinstance(r, (list, tuple)) and len(r) > 0
                                      and all(isinstance(x, (S.Part, S.PartGroup)) for x in r)):
        return ["parts", struct(r), [part_fp(p) for p in S.iter_parts(r)]]
    return fallback(r)


# ---------------------------------------------------------------------------------------------------- Lean-tied streams
# `argforms`: a random part tree in a random ScoreLike form; observed against Model/ArgForms.lean:
#   iter_parts, Score(x), the parts save_musicxml / save_score_midi / ensure_notearray visit, and transpose over the
#   heap of note cells.   `perfforms`: a random PerformanceLike argument with arbitrary `track` entries; observed:
#   the parts save_performance_midi reads (and leaves alone), the MIDI tracks of the file, Performance(...) + num_tracks.
def random_tree(rng, nparts):
    """a nesting of the parts 0..nparts-1 (in order) into groups: ['p', i] | ['g', [children]]"""
    items = [["p", i] for i in range(nparts)]
    for _ in range(rng.choice([0, 0, 1, 1, 2, 3])):
        if not items:
            break
        a = rng.randrange(len(items))
        b = rng.randint(a + 1, len(items))
        items[a:b] = [["g", items[a:b]]]
    return items


def argforms_desc(rng):
    n = rng.choice([1, 1, 2, 2, 3, 4])   # (no empty arguments: the exporters have nothing to say about them)
    tree = random_tree(rng, n)
    form = rng.choice(["score", "score", "node", "node", "list", "list", "tuple"])
    if form == "node":
        if not tree:
            form = "list"
        else:
            tree = [rng.choice(tree)]
    return {"k": "argforms", "n": n, "tree": tree, "form": form, "score_from": rng.choice(["list", "list", "node"]),
            "semis": rng.choice([[2, "M", "up", 2], [3, "m", "up", 3], [5, "P", "down", -7], [4, "P", "up", 5], [1, "P", "up", 0]]),
            "counts": [rng.randint(1, 3) for _ in range(n)]}


def _tok_node(x):
    return "p %d" % x[1] if x[0] == "p" else "g %d %s" % (len(x[1]), " ".join(_tok_node(c) for c in x[1]))


def _leaves(x):
    return [x[1]] if x[0] == "p" else [l for c in x[1] for l in _leaves(c)]


def build_argforms(d):
    """-> (argument, parts (index -> Part), request token of the argument, TArg token parts (list of leaf lists))"""
    import partitura.score as S

    parts = []
    for i in range(d["n"]):
        p = S.Part("P%d" % i, part_name="part%d" % i, quarter_duration=2)
        p.add(S.TimeSignature(4, 4), 0)
        for j in range(d["counts"][i]):
            # the pitch tells the part: 36 + 12 i + j  (C, D, E of octave i + 2)
            p.add(S.Note("CDE"[j], i + 2, id="P%d-n%d" % (i, j), voice=1, staff=1), 2 * j, 2 * j + 2)
        p.add(S.Measure(number=1), 0, 8)
        parts.append(p)

    def mk(x):
        if x[0] == "p":
            return parts[x[1]]
        g = S.PartGroup("bracket", "grp", 1)
        g.children = [mk(c) for c in x[1]]
        for c in g.children:
            c.parent = g
        return g

    nodes = [mk(x) for x in d["tree"]]
    tree_tok = "%d %s" % (len(d["tree"]), " ".join(_tok_node(x) for x in d["tree"])) if d["tree"] else "0"
    flat = [l for x in d["tree"] for l in _leaves(x)]
    if d["form"] == "score":
        if d["score_from"] == "node" and len(nodes) == 1:
            arg = S.Score(nodes[0], id="sc")
        else:
            arg = S.Score(list(nodes), id="sc")
        tok = "score %s %s" % ("%d %s" % (len(flat), " ".join(map(str, flat))) if flat else "0", tree_tok)
    elif d["form"] == "node":
        arg = nodes[0]
        tok = "node " + _tok_node(d["tree"][0])
    else:
        arg = list(nodes) if d["form"] == "list" else tuple(nodes)
        tok = "%s %s" % (d["form"], tree_tok)
    return arg, parts, tok, flat


def _struct_text(x, index):
    import partitura.score as S

    if isinstance(x, S.Part):
        return "p%d" % index[id(x)]
    return "g[" + ",".join(_struct_text(c, index) for c in x.children) + "]"


def observe_argforms(d):
    """-> (requests, impl texts, oracle failures)"""
    import re
    import partitura.score as S
    import partitura.utils.music as M
    from partitura.io.exportmusicxml import save_musicxml
    from partitura.io.exportmidi import save_score_midi

    arg, parts, tok, flat = build_argforms(d)
    index = {id(p): i for i, p in enumerate(parts)}
    nums = lambda l: "[" + ",".join(str(x) for x in l) + "]"

    def attempt(f, errs=(Exception,)):
        try:
            return f()
        except errs:
            return None

    it = attempt(lambda: [index[id(p)] for p in S.iter_parts(arg)])
    sc = attempt(lambda: S.Score(arg))
    ctor = None if sc is None else nums(index[id(p)] for p in sc.parts) + "[" + ",".join(_struct_text(x, index) for x in sc.part_structure) + "]"
    xml = attempt(lambda: save_musicxml(arg))
    if xml is not None:
        if isinstance(xml, bytes):
            xml = xml.decode("utf8")
        xml = nums(int(m) for m in re.findall(r'<part id="P(\d+)"', xml))
    mf = attempt(lambda: save_score_midi(arg, None))
    if mf is not None:
        seen = {}
        for tr in mf.tracks:
            for msg in tr:
                if msg.type == "note_on" and msg.velocity > 0:
                    i = (msg.note - 36) // 12
                    seen[i] = seen.get(i, 0) + 1
        midi = nums(sorted(i for i, c in seen.items() for _ in range(c // d["counts"][i])))
    else:
        midi = "err"
    na = attempt(lambda: M.ensure_notearray(arg))
    if na is not None:
        order = []
        for nid in na["id"]:
            i = int(re.search(r"P(\d+)-n", str(nid)).group(1))
            if i not in order:
                order.append(i)
        # the rows are sorted by onset (all parts start at 0): which parts were read, in ascending order, with repeats
        cnt = {}
        for nid in na["id"]:
            i = int(re.search(r"P(\d+)-n", str(nid)).group(1))
            cnt[i] = cnt.get(i, 0) + 1
        na = sorted(i for i, c in cnt.items() for _ in range(c // d["counts"][i]))
    reqs = ["scoreforms " + tok]
    impl = ["iter=%s;ctor=%s;xml=%s;midi=%s;na=%s" % ("-" if it is None else nums(it), ctor or "-", xml or "-", midi,
                                                       "-" if na is None else nums(na))]
    # ---- transpose over the heap of note cells (cell = midi pitch; address = position in `heap`)
    oracle = []
    heap, addr, tparts = [], {}, []
    for i in flat:
        a = []
        for n in parts[i].notes:
            addr[id(n)] = len(heap)
            a.append(len(heap))
            heap.append(n)
        tparts.append(a)
    before = [n.midi_pitch for n in heap]
    ids_before = [id(n) for i in flat for n in parts[i].notes]
    num, qual, direc, semis = d["semis"]
    try:
        res = M.transpose(arg, S.Interval(num, qual, direc))
    except Exception as e:
        res = e
    after = [n.midi_pitch for n in heap]
    if after != before or ids_before != [id(n) for i in flat for n in parts[i].notes]:
        oracle.append("transpose modified its argument (%s form): pitches %r -> %r" % (d["form"], before, after))
    if isinstance(arg, S.Score):
        t_tok = "score"
    elif isinstance(arg, S.Part):
        t_tok = "part"
    elif isinstance(arg, S.PartGroup):
        t_tok = "group"
    else:
        t_tok = "seq"
    lst = lambda xs: "%d %s" % (len(xs), " ".join(map(str, xs))) if xs else "0"
    if t_tok == "part":
        a_tok = "part " + lst(tparts[0])
    else:
        a_tok = "%s %s" % (t_tok, "%d %s" % (len(tparts), " ".join(lst(p) for p in tparts)) if tparts else "0")
    reqs.append("transpose %d %s %s" % (semis, lst(before), a_tok))
    if isinstance(res, Exception):
        impl.append("err:" + type(res).__name__)
    else:
        rparts = res.parts if isinstance(res, S.Score) else list(S.iter_parts(res))
        impl.append(nums(after) + "|[" + ",".join(nums(n.midi_pitch for n in p.notes) for p in rparts) + "]")
        if any(id(n) in addr for p in rparts for n in p.notes):
            oracle.append("transpose returned an object that shares notes with its argument (%s form)" % d["form"])
    return reqs, impl, oracle


def perfforms_desc(rng):
    def tracks(k, pool):
        return [rng.choice(pool) for _ in range(k)]

    pools = [[0], [None], [1], [0, 1], [None, 0], [2, 5], [-1, 0, 3], [None, -1, 0, 1, 2, 5]]
    pps = []
    for _ in range(rng.choice([1, 1, 2, 2, 3])):
        pool = rng.choice(pools)
        pps.append({"notes": tracks(rng.randint(1, 4), pool), "controls": tracks(rng.randint(0, 3), rng.choice([pool, pools[-1]])),
                    "programs": tracks(rng.randint(0, 2), rng.choice([pool, pools[-1]])),
                    "metas": [tracks(rng.randint(0, 1), pools[-1]) for _ in range(3)]})
    form = rng.choice(["performance", "performance", "ppart", "ppart", "list", "list", "tuple", "bad", "other"])
    if form == "ppart":
        pps = pps[:1]
    return {"k": "perfforms", "form": form, "pps": pps, "ensure": rng.random() < 0.7}


def build_perfforms(d):
    import partitura.performance as P

    def with_track(dct, t):
        if t is not None:
            dct["track"] = t
        return dct

    pps = []
    for i, s in enumerate(d["pps"]):
        notes = [with_track({"midi_pitch": 60 + j, "note_on": 0.5 * j, "note_off": 0.5 * j + 0.4, "velocity": 64,
                             "channel": 0, "id": "n%d_%d" % (i, j)}, t) for j, t in enumerate(s["notes"])]
        controls = [with_track({"number": 64, "value": 100, "time": 0.25 * j, "channel": 0}, t) for j, t in enumerate(s["controls"])]
        programs = [with_track({"program": j, "time": 0.0, "channel": 0}, t) for j, t in enumerate(s["programs"])]
        ks = [with_track({"time": 0.0, "fifths": 1, "mode": "major"}, t) for t in s["metas"][0]]
        ts = [with_track({"time": 0.0, "beats": 3, "beat_type": 4}, t) for t in s["metas"][1]]
        mo = [with_track({"time": 0.0, "type": "text", "text": "x"}, t) for t in s["metas"][2]]
        pps.append(P.PerformedPart(notes, id="pp%d" % i, controls=controls, programs=programs, key_signatures=ks,
                                   time_signatures=ts, meta_other=mo))
    f = d["form"]
    if f == "performance":
        arg = P.Performance(pps, ensure_unique_tracks=False)
    elif f == "ppart":
        arg = pps[0]
    elif f == "list":
        arg = list(pps)
    elif f == "tuple":
        arg = tuple(pps)
    elif f == "bad":
        arg = list(pps) + ["not a performed part"]
    else:
        arg = 7
    return arg, pps


def _pp_text(pp):
    tr = lambda ds: "[" + ",".join("-" if "track" not in x else str(int(x["track"])) for x in ds) + "]"
    return "(%s,%s,%s,%s)" % (tr(pp.notes), tr(pp.controls), tr(pp.programs),
                              tr(pp.key_signatures + pp.time_signatures + pp.meta_other))


def observe_perfforms(d):
    import partitura.performance as P
    from partitura.io.exportmidi import save_performance_midi

    # the request describes the objects AS BUILT (a PerformedNote always has a `track` entry: the constructor fills it in)
    tl = lambda ds: ("%d %s" % (len(ds), " ".join("-" if "track" not in x else str(int(x["track"])) for x in ds))) if ds else "0"
    pp_tok = lambda pp: "%s %s %s %s" % (tl(pp.notes), tl(pp.controls), tl(pp.programs),
                                         tl(pp.key_signatures + pp.time_signatures + pp.meta_other))
    f = d["form"]
    oracle = []
    # ---- export
    arg, pps = build_perfforms(d)
    if f in ("performance", "list", "tuple"):
        a_tok = "%s %d %s" % ("performance" if f == "performance" else "seq", len(pps), " ".join(pp_tok(pp) for pp in pps))
    elif f == "ppart":
        a_tok = "ppart " + pp_tok(pps[0])
    else:
        a_tok = f
    before = [_pp_text(pp) for pp in pps]
    try:
        mf = save_performance_midi(arg, None)
        exp = "[" + ",".join(_pp_text(pp) for pp in pps) + "]:%d:%d" % (len(mf.tracks), mf.type)
    except ValueError:
        exp = "-"
    except Exception as e:
        exp = "err:" + type(e).__name__
    after = [_pp_text(pp) for pp in pps]
    if after != before:
        oracle.append("save_performance_midi modified its argument (PerformanceLike form '%s'): track entries %s -> %s" % (f, before, after))
    # ---- constructor (documented in-place when ensure_unique_tracks), on a fresh copy of the same argument
    arg2, pps2 = build_perfforms(d)
    try:
        perf = P.Performance(arg2, ensure_unique_tracks=d["ensure"])
        ctor = "[" + ",".join(_pp_text(pp) for pp in perf.performedparts) + "]:%d" % perf.num_tracks
        if [id(x) for x in perf.performedparts] != [id(x) for x in pps2]:
            oracle.append("Performance(...) does not hold the performed parts it was given (form '%s')" % f)
    except ValueError:
        ctor = "-"
    except Exception as e:
        ctor = "err:" + type(e).__name__
    return ["perf %s %s" % ("1" if d["ensure"] else "0", a_tok)], ["export=%s;ctor=%s" % (exp, ctor)], oracle


# ---------------------------------------------------------------------------------------------------- number_of_staves memo
def staves_desc(rng):
    """a history of documented operations on one part: add (an object with a staff), remove, number_of_staves,
    compute_number_of_staves"""
    ops, n = [], 0
    for _ in range(rng.randint(1, 14)):
        r = rng.random()
        if r < 0.4 or n == 0 and r < 0.6:
            ops.append(["add", rng.choice([None, 1, 1, 2, 2, 3, 5]), rng.choice(["note", "note", "rest", "clef", "words", "dir"])])
            n += 1
        elif r < 0.55 and n:
            ops.append(["remove", rng.randrange(n)])
            n -= 1
        elif r < 0.9:
            ops.append(["read"])
        else:
            ops.append(["compute"])
    return {"k": "staves", "ops": ops}


def observe_staves(d):
    import partitura.score as S

    part = S.Part("P0", quarter_duration=4)
    objs, outs, oracle, toks = [], [], [], []
    for k, op in enumerate(d["ops"]):
        if op[0] == "add":
            s, kind = op[1], op[2]
            t = 4 * len(toks)
            if kind == "note":
                o = S.Note("C", 4, id="n%d" % k, staff=s, voice=1)
            elif kind == "rest":
                o = S.Rest(id="r%d" % k, staff=s, voice=1)
            elif kind == "clef":
                o = S.Clef(s, "G", 2, 0)
            elif kind == "words":
                o = S.Words("w", staff=s)
            else:
                o = S.LoudnessDirection("f", staff=s)
            part.add(o, t, t + 4)
            objs.append(o)
            outs.append("-")
            toks.append("add %s" % ("-" if s is None else s))
        elif op[0] == "remove":
            part.remove(objs.pop(op[1]))
            outs.append("-")
            toks.append("remove %d" % op[1])
        else:
            before = [o.staff for o in objs]
            v = part.number_of_staves if op[0] == "read" else part.compute_number_of_staves()
            outs.append(str(int(v)))
            toks.append(op[0])
            expect = max([1] + [s for s in before if s is not None])
            if int(v) != expect:
                oracle.append("number_of_staves: call #%d (%s) returned %s on a part whose objects are on staves %s (history %s): "
                              "the result depends on what was read before" % (k, op[0], v, before, d["ops"][:k + 1]))
            if [o.staff for o in objs] != before:
                oracle.append("number_of_staves modified its argument: staff attributes %s -> %s" % (before, [o.staff for o in objs]))
    req = "staves %d %s" % (len(toks), " ".join(toks))
    impl = "[" + ",".join(outs) + "]|[" + ",".join("-" if o.staff is None else str(o.staff) for o in objs) + "]"
    return [req], [impl], oracle


# ---------------------------------------------------------------------------------------------------- array views
# `slice`: slice_notearray_by_time on a random small note array (times in ticks of a quarter beat, exactly
# representable) with a random window, compared with Model/ArrayView.lean: the ARGUMENT array afterwards, the rows of
# the result, and whether the result shares memory with the argument.
def slice_desc(rng):
    n = rng.choice([0, 1, 2, 3, 3, 4, 5, 6])
    rows = []
    for _ in range(n):
        rows.append([rng.randint(-4, 16), rng.choice([0, 1, 2, 4, 4, 6, 8, 12]), rng.randint(30, 90)])
    rows.sort(key=lambda r: r[0])
    lo = min([r[0] for r in rows] + [0])
    hi = max([r[0] + r[1] for r in rows] + [1])
    shape = rng.choice(["cover", "cover", "none", "middle", "middle", "random", "inverted", "touch"])
    if shape == "cover":
        s, e = lo - rng.randint(0, 3), max([r[0] for r in rows] + [0]) + rng.randint(1, 4)   # every onset inside
    elif shape == "none":
        s = hi + rng.randint(0, 3)
        e = s + rng.randint(1, 4)
    elif shape == "middle":
        s = rng.randint(lo, hi)
        e = s + rng.randint(1, max(1, hi - lo))
    elif shape == "inverted":
        s = rng.randint(lo, hi)
        e = s - rng.randint(0, 4)
    elif shape == "touch":   # window edges ON an onset / an offset
        r = rng.choice(rows) if rows else [0, 4, 60]
        s = rng.choice([r[0], r[0] + r[1]])
        e = s + rng.randint(1, 6)
    else:
        s, e = rng.randint(-6, 18), rng.randint(-6, 20)
    return {"k": "slice", "rows": rows, "s": s, "e": e, "clip": rng.random() < 0.75, "unit": rng.choice(["auto", "beat"]),
            "shape": shape}


def observe_slice(d):
    import numpy as np
    import partitura.utils.music as M

    q = 4
    dt = [("onset_beat", "f4"), ("duration_beat", "f4"), ("pitch", "i4"), ("id", "U8")]
    na = np.array([(r[0] / q, r[1] / q, r[2], "n%d" % i) for i, r in enumerate(d["rows"])], dtype=dt)
    before = na.copy()

    def rows_text(a):
        out = []
        for x in a:
            on, du = float(x["onset_beat"]) * q, float(x["duration_beat"]) * q
            if on != int(on) or du != int(du):
                return "inexact"
            out.append("(%d,%d,%d)" % (int(on), int(du), int(x["pitch"])))
        return "[" + ",".join(out) + "]"

    oracle = []
    call = lambda: M.slice_notearray_by_time(na, d["s"] / q, d["e"] / q, time_unit=d["unit"], clip_onset_duration=d["clip"])
    try:
        res = call()
        shared = res is na or bool(np.shares_memory(res, na))
        impl = "%s|%s|%s" % (rows_text(na), rows_text(res), "S" if shared else "F")
        if before.tobytes() != na.tobytes():
            oracle.append("slice_notearray_by_time modified its argument array (window %s..%s ticks, rows %s): %s -> %s" % (
                d["s"], d["e"], d["rows"], rows_text(before), rows_text(na)))
        if shared:
            oracle.append("slice_notearray_by_time returned a view of its argument (window %s..%s ticks covers %d of %d rows): "
                          "writing to the result would modify the argument" % (d["s"], d["e"], len(res), len(na)))
        first = res.copy()
        res2 = call()
        if res2.dtype != first.dtype or res2.tobytes() != first.tobytes():
            oracle.append("slice_notearray_by_time is not repeatable: second call on the same array gives %s, the first gave %s" % (
                rows_text(res2), rows_text(first)))
        if res2 is res or bool(np.shares_memory(res2, res)) and len(res) > 0:
            oracle.append("slice_notearray_by_time: the second result shares memory with the first")
    except Exception as e:
        impl = "err"
    req = "slice %s %d %d %d %s" % ("1" if d["clip"] else "0", d["s"], d["e"], q,
                                    "%d %s" % (len(d["rows"]), " ".join("%d %d %d" % tuple(r) for r in d["rows"])) if d["rows"] else "0")
    return [req], [impl], oracle
