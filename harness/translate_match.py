"""Translator for property C07: live match-line classes -> lean/PartituraModel/Gen/MatchTemplates.lean.

For every line class x supported version it emits
  * the `out_pattern` split into literal / field segments,
  * the regular expression parsed by a mini-parser that accepts exactly the sub-language these patterns
    use (literal characters, escaped punctuation, a bare `.` wildcard, and named groups
    `(?P<name>CLASS QUANT)` with CLASS in {[^,] . [0-9,] [a-z,] [^\\)]} and QUANT in {+,*}),
  * per field the named encoder (identified by function identity, lambdas by tabulating them over probe
    values / their whole finite domain) and the named decoder (from the interpreter tables where the class
    has one; for the classes whose parsing is code - snote, pedal, meta, scoreprop, ornament heads - from
    the hand-written table below, which the correspondence then checks),
  * composite lines (snote-note, deletion, insertion, ornament, stime-ptime) as part lists,
  * the order of FROM_MATCHLINE_METHODS and the attribute tables used by `to_v1`.
Anything the mini-parser cannot express is emitted as `unmodelled` with the reason (and listed in the
header comment, which the check's evidence quotes).
"""
import re

from translate import lstr, llist


# ------------------------------------------------------------------ regex mini-parser
CLASSES = [("[^,]", ".notComma"), ("[0-9,]", ".digitComma"), ("[a-z,]", ".lowerComma"), ("[^\\)]", ".notRParen"),
           ("[^)]", ".notRParen"), (".", ".any")]
PLAIN = set("abcdefghijklmnopqrstuvwxyzABCDEFGHIJKLMNOPQRSTUVWXYZ0123456789_-,:;'\"/ =<>!#%&@~`")
ESCAPABLE = set("()[].\\+*?{}|^$-")


class Unmodelled(Exception):
    pass


def parse_regex(p):
    """-> list of ("lit", [char or None(wildcard)]) / ("fld", name, cls, min)"""
    segs = []
    lit = []
    i, n = 0, len(p)

    def flush():
        if lit:
            segs.append(("lit", list(lit)))
            del lit[:]

    while i < n:
        c = p[i]
        if p.startswith("(?P<", i):
            j = p.index(">", i)
            name = p[i + 4:j]
            if not re.fullmatch(r"[A-Za-z_]\w*", name):
                raise Unmodelled("group name %r" % name)
            i = j + 1
            for txt, cls in CLASSES:
                if p.startswith(txt, i):
                    i += len(txt)
                    break
            else:
                raise Unmodelled("character class at %r" % p[i:i + 12])
            if i < n and p[i] in "+*":
                lo = 1 if p[i] == "+" else 0
                i += 1
            else:
                raise Unmodelled("quantifier at %r" % p[i:i + 6])
            if i < n and p[i] == "?":
                raise Unmodelled("lazy quantifier")
            if not (i < n and p[i] == ")"):
                raise Unmodelled("group body at %r" % p[i:i + 6])
            i += 1
            flush()
            segs.append(("fld", name, cls, lo))
        elif c == "\\":
            if i + 1 < n and p[i + 1] in ESCAPABLE:
                lit.append(p[i + 1])
                i += 2
            else:
                raise Unmodelled("escape %r" % p[i:i + 2])
        elif c == ".":
            lit.append(None)
            i += 1
        elif c in PLAIN:
            lit.append(c)
            i += 1
        else:
            raise Unmodelled("construct %r" % p[i:i + 8])
        if i < n and p[i] in "+*?{" and not (segs and segs[-1][0] == "fld" and not lit):
            raise Unmodelled("quantified literal at %r" % p[max(0, i - 2):i + 3])
    flush()
    return segs


def parse_out(p):
    """python format string -> list of ("lit", str) / ("fld", name)"""
    segs = []
    i, n = 0, len(p)
    lit = []
    while i < n:
        c = p[i]
        if c == "{":
            j = p.index("}", i)
            name = p[i + 1:j]
            if not re.fullmatch(r"[A-Za-z_]\w*", name):
                raise Unmodelled("format field %r" % name)
            if lit:
                segs.append(("lit", "".join(lit)))
                lit = []
            segs.append(("fld", name))
            i = j + 1
        elif c == "}":
            raise Unmodelled("stray }")
        else:
            lit.append(c)
            i += 1
    if lit:
        segs.append(("lit", "".join(lit)))
    return segs


def lean_pat(segs):
    out = []
    for s in segs:
        if s[0] == "lit":
            if all(c is not None for c in s[1]):
                out.append("pl %s" % lstr("".join(s[1])))
            else:
                items = ", ".join(".dot" if c is None else ".ch %s" % lchar(c) for c in s[1])
                out.append(".lit [%s]" % items)
        else:
            out.append(".fld %s %s %d" % (lstr(s[1]), s[2], s[3]))
    return "[" + ", ".join(out) + "]"


def lchar(c):
    if c == "'":
        return "'\\''"
    if c == "\\":
        return "'\\\\'"
    return "'%s'" % c


def lean_out(segs):
    out = []
    for s in segs:
        if s[0] == "lit":
            out.append(".lit %s" % lstr(s[1]))
        else:
            out.append(".fld %s" % lstr(s[1]))
    return "[" + ", ".join(out) + "]"


def move_brackets(o, p, fields):
    """`format_list` writes "[a,b]" where the regular expression has the brackets as literals around the
    group (`\\[(?P<X>.*)\\]`): move the brackets of such a field into the neighbouring out literals and
    encode the field as the list body, so that both sides have the same literals."""
    enc = {n: e for n, e, d in fields}
    o = [list(x) for x in o]
    for i, seg in enumerate(o):
        if seg[0] != "fld" or enc.get(seg[1]) != ".list":
            continue
        # the regex side: literal ending with "[" before the group, literal starting with "]" after it
        k = [j for j, q in enumerate(p) if q[0] == "fld" and q[1] == seg[1]]
        if len(k) != 1 or k[0] == 0 or k[0] + 1 >= len(p):
            continue
        before, after = p[k[0] - 1], p[k[0] + 1]
        if not (before[0] == "lit" and before[1][-1] == "[" and after[0] == "lit" and after[1][0] == "]"):
            continue
        if i == 0 or o[i - 1][0] != "lit":
            o.insert(i, ["lit", ""])
            i += 1
        if i + 1 >= len(o) or o[i + 1][0] != "lit":
            o.insert(i + 1, ["lit", ""])
        o[i - 1][1] += "["
        o[i + 1][1] = "]" + o[i + 1][1]
        fields = [(n, ".listBody" if n == seg[1] else e, d) for n, e, d in fields]
    return [tuple(x) for x in o], fields


# ------------------------------------------------------------------ codec identification
def enc_name(f, U, field):
    """named encoder of a formatter function"""
    table = {
        U.format_int: ".int", U.format_string: ".strip", U.format_string_old: ".quoted",
        U.format_float: ".fix 4", U.format_float_unconstrained: ".repr", U.format_fractional: ".frac",
        U.format_fractional_rational: ".fracRational", U.format_list: ".list", U.format_version: ".version",
        U.format_key_signature_v1_0_0: ".key .v100", U.format_key_signature_v0_3_0: ".key .v030",
        U.format_key_signature_v0_3_0_list: ".key .v030list", U.format_key_signature_v0_1_0: ".key .v010",
        U.format_time_signature: ".tsig", U.format_time_signature_list: ".tsigList",
        U.format_tempo_indication: ".tempo", U.format_accidental_old: None, U.format_accidental: None,
    }
    if f in table and table[f] is not None:
        return table[f]
    # lambdas / accidental formatters: identify by tabulation
    try:
        s = f(0.123456789)
        m = re.fullmatch(r"0\.(\d+)", s)
        if m and len(m.group(1)) < 9:
            k = len(m.group(1))
            if all(f(x) == "%.*f" % (k, x) for x in (1.5, -2.25, 1e-7, 123456.789, 0.5 ** (k + 1))):
                return ".fix %d" % k
    except Exception:
        pass
    try:
        if f("aBc") == "ABC" and f("x#y") == "X#Y":
            return ".upper"
        if f("aBc") == "abc" and f("X#Y") == "x#y":
            return ".lower"
    except Exception:
        pass
    # finite domain: alterations
    rows = []
    for x in (None, -3, -2, -1, 0, 1, 2, 3):
        try:
            rows.append((x, f(x)))
        except Exception:
            continue
    if rows and all(isinstance(r[1], str) for r in rows) and len(rows) >= 5:
        items = ", ".join("(%s, %s)" % ("none" if x is None else "some (%d)" % x, lstr(s)) for x, s in rows)
        return "(.accTable [%s])" % items
    raise Unmodelled("formatter of %s (%r)" % (field, f))


def dec_name(f, U, field):
    table = {
        U.interpret_as_int: ".int", U.interpret_as_float: ".float", U.interpret_as_string: ".str",
        U.interpret_as_string_old: ".strOld", U.interpret_as_fractional: ".frac", U.interpret_as_list: ".list",
        U.interpret_as_list_int: ".listInt", U.interpret_version: ".version",
        U.interpret_as_key_signature: ".key", U.interpret_as_time_signature: ".tsig",
        U.interpret_as_tempo_indication: ".tempo",
    }
    if f in table:
        return table[f]
    raise Unmodelled("interpreter of %s (%r)" % (field, f))


# decoders of the classes whose parsing is code, not a table (mirrors prepare_kwargs_from_matchline / from_matchline)
HAND_DEC = {
    "snote": {"Anchor": ".str", "NoteName": ".str", "Modifier": ".str", "Octave": ".str", "Measure": ".int",
              "Beat": ".int", "Offset": ".frac", "Duration": ".frac", "OnsetInBeats": ".float",
              "OffsetInBeats": ".float", "ScoreAttributesList": ".list"},
    "pedal": {"Time": ".int", "Value": ".int"},
    "meta": {"Attribute": ".str", "Measure": ".int", "TimeInBeats": ".float"},
    "scoreprop": {"Attribute": ".str", "Measure": ".int", "Beat": ".int", "Offset": ".frac", "TimeInBeats": ".float"},
    "info": {"Attribute": ".str"},
    "head": {"Anchor": ".str", "OrnamentType": ".list"},
}


# ------------------------------------------------------------------ sample instances
def samples(M0, M1, U):
    F = U.FractionalSymbolicDuration

    def snote(M, v):
        return M.MatchSnote(version=v, anchor="a1", note_name="C", modifier=0, octave=4, measure=1, beat=1,
                            offset=F(0), duration=F(1, 4), onset_in_beats=0.0, offset_in_beats=1.0,
                            score_attributes_list=["s"])

    def note0(v):
        return M0.MatchNote(version=v, id="n1", note_name="C", modifier=0, octave=4, onset=1, offset=2, velocity=3,
                            adj_offset=2)

    def note1(v):
        return M1.MatchNote(version=v, id="n1", midi_pitch=60, onset=1, offset=2, velocity=3, channel=1, track=0)

    return snote, note0, note1


def gen_match():
    """never raises: a failure of the translator itself yields an empty table whose header names the
    error, so that `templates_ok`'s non-emptiness example (and with it the C07 check) fails, while the
    shared translate step of the other properties keeps working"""
    try:
        return _gen_match()
    except Exception as e:  # noqa
        import traceback
        msg = ("%s: %s | %s" % (type(e).__name__, e, traceback.format_exc()[-600:])).replace("-/", "- /").replace("\n", " ")
        return ("/- GENERATED by harness/translate_match.py.  TRANSLATOR ERROR: %s\n"
                "   unmodelled templates: translator error -/\n"
                "import PartituraModel.Model.Template\nnamespace Gen\nopen Model.Template\n"
                "def matchTemplates : List Template := []\ndef matchComposites : List Composite := []\n"
                "def dispatchOrderV0 : List String := []\ndef dispatchOrderV1 : List String := []\n"
                "def v1InfoAttributes : List String := []\ndef v1ScorepropAttributes : List String := []\n"
                "def infoAttributeEquivalences : List (String × String) := []\n"
                "def scorepropAttributeEquivalences : List (String × String) := []\n"
                "def latestVersion : Nat × Nat × Nat := (1, 0, 0)\ndef lastVersionV0 : Nat × Nat × Nat := (0, 5, 0)\n"
                "end Gen\n") % msg


def _gen_match():
    import partitura.io.matchlines_v0 as M0
    import partitura.io.matchlines_v1 as M1
    import partitura.io.matchfile_utils as U
    import partitura.io.matchfile_base as B
    import partitura.io.importmatch as IM

    F = U.FractionalSymbolicDuration
    assert U.format_list(["a", "b"]) == "[a,b]" and U.format_list([]) == "[]" and U.format_list([1, 2]) == "[1,2]"
    snote, note0, note1 = samples(M0, M1, U)
    tpls = []       # lean text of templates
    comps = []      # lean text of composites
    unmod = []

    def vname(v):
        return "v%d.%d.%d" % tuple(v)

    def emit(name, kind, v, out_pattern, regex, fields, post=".none", value_by=None):
        """fields: [(name, enc, dec)] in field order"""
        try:
            o = parse_out(out_pattern)
            p = parse_regex(regex)
            o, fields = move_brackets(o, p, list(fields))
            body = ("{ name := %s, kind := %s, version := (%d, %d, %d),\n    out := %s,\n    pat := %s,\n"
                    "    fields := [%s],\n    valueBy := [%s],\n    post := %s }") % (
                lstr(name), lstr(kind), v[0], v[1], v[2], lean_out(o), lean_pat(p),
                ", ".join("(%s, %s, %s)" % (lstr(n), e, d) for n, e, d in fields),
                ", ".join("(%s, %s, %s)" % (lstr(n), e, d) for n, e, d in (value_by or [])), post)
            tpls.append(body)
        except Unmodelled as e:
            unmod.append("%s: %s" % (name, e))
            tpls.append("{ name := %s, kind := %s, version := (%d, %d, %d), out := [], pat := [], fields := [], "
                        "valueBy := [], post := .none, unmodelled := some %s }" % (
                            lstr(name), lstr(kind), v[0], v[1], v[2], lstr(str(e))))

    def safe(fn, field):
        try:
            return fn()
        except Unmodelled as e:
            unmod.append(str(e))
            return ".unmodelled"

    def value_table(tab, fixed_enc=None):
        rows = []
        for attr, (interp, fmt, typ) in tab.items():
            rows.append((attr, safe(lambda: enc_name(fmt, U, attr), attr), safe(lambda: dec_name(interp, U, attr), attr)))
        return rows

    def composite(name, kind, v, parts, idents):
        ps = ", ".join((".tpl %s" % lstr(x[1])) if x[0] == "tpl" else (".lit %s" % lstr(x[1])) for x in parts)
        comps.append("{ name := %s, kind := %s, version := (%d, %d, %d), parts := [%s], idents := [%s] }" % (
            lstr(name), lstr(kind), v[0], v[1], v[2], ps, ", ".join(lstr(i) for i in idents)))

    def ident_literal(pattern):
        segs = parse_regex(pattern.pattern)
        if len(segs) != 1 or segs[0][0] != "lit" or any(c is None for c in segs[0][1]):
            raise Unmodelled("identifier pattern %r" % pattern.pattern)
        return "".join(segs[0][1])

    def split_parts(out_pattern, names):
        """composite out_pattern -> [("tpl", placeholder) | ("lit", text)]; other fields stay inside a head part"""
        segs = parse_out(out_pattern)
        return segs

    # ---------------- version 0.x
    for v in sorted(M0.SNOTE_LINE):
        vn = vname(v)
        # info
        obj = M0.MatchInfo(version=v, attribute="piece", value="x", value_type=str, format_fun=U.format_string_old)
        emit(vn + "/info", "info", v, obj.out_pattern, M0.MatchInfo.pattern.pattern,
             [("Attribute", enc_name(obj.format_fun["Attribute"], U, "Attribute"), HAND_DEC["info"]["Attribute"]),
              ("Value", ".byAttr", ".byAttr")], value_by=value_table(M0.INFO_LINE[v]))
        # meta
        if v in M0.META_LINE:
            obj = M0.MatchMeta(version=v, attribute="timeSignature", value=U.MatchTimeSignature(3, 4, []),
                               value_type=U.MatchTimeSignature, format_fun=U.format_time_signature, measure=1,
                               time_in_beats=0.0)
            flds = []
            for fn in obj.field_names:
                if fn == "Value":
                    flds.append((fn, ".byAttr", ".byAttr"))
                else:
                    flds.append((fn, enc_name(obj.format_fun[fn], U, fn), HAND_DEC["meta"][fn]))
            emit(vn + "/meta", "meta", v, obj.out_pattern, M0.MatchMeta.pattern.pattern, flds,
                 value_by=value_table(M0.META_LINE[v]))
        # snote
        sn = snote(M0, v)
        emit(vn + "/snote", "snote", v, sn.out_pattern, M0.MatchSnote.pattern.pattern,
             [(fn, safe(lambda: enc_name(sn.format_fun[fn], U, fn), fn), HAND_DEC["snote"][fn]) for fn in sn.field_names],
             post=".pitchSpelling")
        # note
        nt = note0(v)
        tab = M0.NOTE_LINE[v]
        emit(vn + "/note", "note", v, nt.out_pattern, tab["pattern"].pattern,
             [(fn, safe(lambda: enc_name(nt.format_fun[fn], U, fn), fn),
               safe(lambda: dec_name(tab["field_interpreters"][fn][0], U, fn), fn)) for fn in tab["field_names"]],
             post=".pitchSpellingNote")
        # pedals
        for kind, cls in (("sustain", M0.MatchSustainPedal), ("soft", M0.MatchSoftPedal)):
            pd = cls(version=v, time=1, value=2)
            emit(vn + "/" + kind, kind, v, pd.out_pattern, cls.pattern.pattern,
                 [(fn, enc_name(pd.format_fun[fn], U, fn), HAND_DEC["pedal"][fn]) for fn in pd.field_names])
        # composites
        pair = M0.MatchSnoteNote(version=v, snote=sn, note=nt)
        composite(vn + "/snote_note", "snote_note", v,
                  [("tpl", vn + "/snote") if s == ("fld", "SnoteLine") else ("tpl", vn + "/note") if s == ("fld", "NoteLine")
                   else ("lit", s[1]) for s in parse_out(pair.out_pattern)], [])
        for kind, cls in (("deletion", M0.MatchSnoteDeletion), ("trailing_score", M0.MatchSnoteTrailingScore),
                          ("no_played", M0.MatchSnoteNoPlayedNote)):
            o = cls(version=v, snote=sn)
            composite(vn + "/" + kind, kind, v,
                      [("tpl", vn + "/snote") if s == ("fld", "SnoteLine") else ("lit", s[1]) for s in parse_out(o.out_pattern)],
                      [ident_literal(cls.identifier_pattern)])
        for kind, cls in (("insertion", M0.MatchInsertionNote), ("hammer_bounce", M0.MatchHammerBounceNote),
                          ("trailing_played", M0.MatchTrailingPlayedNote)):
            o = cls(version=v, note=nt)
            composite(vn + "/" + kind, kind, v,
                      [("tpl", vn + "/note") if s == ("fld", "NoteLine") else ("lit", s[1]) for s in parse_out(o.out_pattern)],
                      [ident_literal(cls.identifier_pattern)])
        # trill: head template + note
        tr = M0.MatchTrillNote(version=v, anchor=" pA ", note=nt)
        head_out = tr.out_pattern[: tr.out_pattern.index("{NoteLine}")]
        raw = " pA " in tr.matchline
        emit(vn + "/trill.head", "trill.head", v, head_out, M0.MatchTrillNote.ornament_pattern.pattern,
             [("Anchor", ".raw" if raw else ".strip", HAND_DEC["head"]["Anchor"])])
        composite(vn + "/trill", "trill", v, [("tpl", vn + "/trill.head"), ("tpl", vn + "/note")], [])

    # ---------------- version 1.0.0
    for v in sorted(M1.NOTE_LINE):
        vn = vname(v)
        obj = M1.MatchInfo(version=v, attribute="piece", value="x", value_type=str, format_fun=U.format_string)
        emit(vn + "/info", "info", v, obj.out_pattern, M1.MatchInfo.pattern.pattern,
             [("Attribute", enc_name(obj.format_fun["Attribute"], U, "Attribute"), HAND_DEC["info"]["Attribute"]),
              ("Value", ".byAttr", ".byAttr")], value_by=value_table(M1.INFO_LINE[v]))
        obj = M1.MatchScoreProp(version=v, attribute="timeSignature", value=U.MatchTimeSignature(3, 4, []),
                                value_type=U.MatchTimeSignature, format_fun=U.format_time_signature, measure=1, beat=1,
                                offset=F(0), time_in_beats=0.0)
        flds = []
        for fn in obj.field_names:
            if fn == "Value":
                flds.append((fn, ".byAttr", ".byAttr"))
            else:
                flds.append((fn, enc_name(obj.format_fun[fn], U, fn), HAND_DEC["scoreprop"][fn]))
        emit(vn + "/scoreprop", "scoreprop", v, obj.out_pattern, M1.MatchScoreProp.pattern.pattern, flds,
             value_by=value_table(M1.SCOREPROP_LINE[v]))
        obj = M1.MatchSection(version=v, start_in_beats_unfolded=0.0, end_in_beats_unfolded=1.0,
                              start_in_beats_original=0.0, end_in_beats_original=1.0, repeat_end_type=["end"])
        emit(vn + "/section", "section", v, obj.out_pattern, M1.MatchSection.pattern.pattern,
             [(fn, safe(lambda: enc_name(obj.format_fun[fn], U, fn), fn),
               safe(lambda: dec_name(M1.SECTION_LINE[v][fn][0], U, fn), fn)) for fn in obj.field_names])
        st = M1.MatchStime(version=v, measure=1, beat=1, offset=F(0), onset_in_beats=0.0, annotation_type=["beat"])
        emit(vn + "/stime", "stime", v, st.out_pattern, M1.MatchStime.pattern.pattern,
             [(fn, safe(lambda: enc_name(st.format_fun[fn], U, fn), fn),
               safe(lambda: dec_name(M1.STIME_LINE[v][fn][0], U, fn), fn)) for fn in st.field_names])
        pt = M1.MatchPtime(version=v, onsets=[1, 2])
        emit(vn + "/ptime", "ptime", v, pt.out_pattern, M1.MatchPtime.pattern.pattern,
             [(fn, safe(lambda: enc_name(pt.format_fun[fn], U, fn), fn),
               safe(lambda: dec_name(M1.PTIME_LINE[v][fn][0], U, fn), fn)) for fn in pt.field_names])
        sp = M1.MatchStimePtime(version=v, stime=st, ptime=pt)
        composite(vn + "/stime_ptime", "stime_ptime", v,
                  [("tpl", vn + "/stime") if s == ("fld", "StimeLine") else ("tpl", vn + "/ptime") if s == ("fld", "PtimeLine")
                   else ("lit", s[1]) for s in parse_out(sp.out_pattern)], [])
        sn = snote(M1, v)
        emit(vn + "/snote", "snote", v, sn.out_pattern, M1.MatchSnote.pattern.pattern,
             [(fn, safe(lambda: enc_name(sn.format_fun[fn], U, fn), fn), HAND_DEC["snote"][fn]) for fn in sn.field_names],
             post=".pitchSpelling")
        nt = note1(v)
        emit(vn + "/note", "note", v, nt.out_pattern, M1.MatchNote.pattern.pattern,
             [(fn, safe(lambda: enc_name(nt.format_fun[fn], U, fn), fn),
               safe(lambda: dec_name(M1.NOTE_LINE[v][fn][0], U, fn), fn)) for fn in nt.field_names])
        for kind, cls in (("sustain", M1.MatchSustainPedal), ("soft", M1.MatchSoftPedal)):
            pd = cls(version=v, time=1, value=2)
            emit(vn + "/" + kind, kind, v, pd.out_pattern, cls.pattern.pattern,
                 [(fn, enc_name(pd.format_fun[fn], U, fn), HAND_DEC["pedal"][fn]) for fn in pd.field_names])
        pair = M1.MatchSnoteNote(version=v, snote=sn, note=nt)
        composite(vn + "/snote_note", "snote_note", v,
                  [("tpl", vn + "/snote") if s == ("fld", "SnoteLine") else ("tpl", vn + "/note") if s == ("fld", "NoteLine")
                   else ("lit", s[1]) for s in parse_out(pair.out_pattern)], [])
        o = M1.MatchSnoteDeletion(version=v, snote=sn)
        composite(vn + "/deletion", "deletion", v,
                  [("tpl", vn + "/snote") if s == ("fld", "SnoteLine") else ("lit", s[1]) for s in parse_out(o.out_pattern)],
                  [ident_literal(M1.MatchSnoteDeletion.identifier_pattern)])
        o = M1.MatchInsertionNote(version=v, note=nt)
        composite(vn + "/insertion", "insertion", v,
                  [("tpl", vn + "/note") if s == ("fld", "NoteLine") else ("lit", s[1]) for s in parse_out(o.out_pattern)],
                  [ident_literal(M1.MatchInsertionNote.identifier_pattern)])
        orn = M1.MatchOrnamentNote(version=v, anchor=" pA ", ornament_type=["trill"], note=nt)
        head_out = orn.out_pattern[: orn.out_pattern.index("{NoteLine}")]
        raw = " pA " in orn.matchline
        emit(vn + "/ornament.head", "ornament.head", v, head_out, M1.MatchOrnamentNote.ornament_pattern.pattern,
             [("Anchor", ".raw" if raw else ".strip", HAND_DEC["head"]["Anchor"]),
              ("OrnamentType", enc_name(M1.MatchOrnamentNote.format_fun["OrnamentType"], U, "OrnamentType"),
               HAND_DEC["head"]["OrnamentType"])])
        composite(vn + "/ornament", "ornament", v, [("tpl", vn + "/ornament.head"), ("tpl", vn + "/note")], [])

    # ---------------- dispatch order, to_v1 tables
    def kinds_of(methods, M, table):
        rev = {getattr(M, cn): k for k, cn in table.items()}
        return [rev[m.__self__] for m in methods]

    K0 = {"info": "MatchInfo", "meta": "MatchMeta", "snote_note": "MatchSnoteNote", "deletion": "MatchSnoteDeletion",
          "trailing_score": "MatchSnoteTrailingScore", "no_played": "MatchSnoteNoPlayedNote",
          "insertion": "MatchInsertionNote", "hammer_bounce": "MatchHammerBounceNote",
          "trailing_played": "MatchTrailingPlayedNote", "trill": "MatchTrillNote", "sustain": "MatchSustainPedal",
          "soft": "MatchSoftPedal"}
    K1 = {"info": "MatchInfo", "scoreprop": "MatchScoreProp", "section": "MatchSection", "stime_ptime": "MatchStimePtime",
          "snote_note": "MatchSnoteNote", "deletion": "MatchSnoteDeletion", "insertion": "MatchInsertionNote",
          "ornament": "MatchOrnamentNote", "sustain": "MatchSustainPedal", "soft": "MatchSoftPedal"}
    order0 = kinds_of(IM.FROM_MATCHLINE_METHODSV0, M0, K0)
    order1 = kinds_of(IM.FROM_MATCHLINE_METHODSV1, M1, K1)

    w = []
    w.append("/- GENERATED by harness/translate_match.py from the live classes of partitura/io/matchfile_base.py,")
    w.append("   matchlines_v0.py, matchlines_v1.py, matchfile_utils.py, importmatch.py.  Do not edit.")
    w.append("   unmodelled templates: %s -/" % ("none" if not unmod else "; ".join(unmod).replace("-/", "- /")))
    w.append("import PartituraModel.Model.Template")
    w.append("namespace Gen")
    w.append("open Model.Template\n")
    w.append("def matchTemplates : List Template := [\n  " + ",\n  ".join(tpls) + "]\n")
    w.append("def matchComposites : List Composite := [\n  " + ",\n  ".join(comps) + "]\n")
    w.append("/-- FROM_MATCHLINE_METHODS of matchlines_v0 / matchlines_v1, as line kinds in list order -/")
    w.append("def dispatchOrderV0 : List String := %s\n" % llist([lstr(k) for k in order0]))
    w.append("def dispatchOrderV1 : List String := %s\n" % llist([lstr(k) for k in order1]))
    w.append("def v1InfoAttributes : List String := %s\n" % llist([lstr(k) for k in M1.INFO_LINE[M1.LATEST_VERSION]]))
    w.append("def v1ScorepropAttributes : List String := %s\n" % llist([lstr(k) for k in M1.SCOREPROP_LINE[M1.LATEST_VERSION]]))
    w.append("def infoAttributeEquivalences : List (String × String) := %s\n" % llist(
        ["(%s, %s)" % (lstr(a), lstr(b)) for a, b in M1.INFO_ATTRIBUTE_EQUIVALENCES.items()]))
    w.append("def scorepropAttributeEquivalences : List (String × String) := %s\n" % llist(
        ["(%s, %s)" % (lstr(a), lstr(b)) for a, b in M1.SCOREPROP_ATTRIBUTE_EQUIVALENCES.items()]))
    w.append("def latestVersion : Nat × Nat × Nat := (%d, %d, %d)" % tuple(M1.LATEST_VERSION))
    w.append("def lastVersionV0 : Nat × Nat × Nat := (%d, %d, %d)\n" % tuple(M0.LAST_VERSION))
    # SIGN_TO_ALTER lives in Gen.Tables already; the denominators tried by bound_integers are not needed (unmodelled)
    w.append("end Gen")
    return "\n".join(w) + "\n"


if __name__ == "__main__":
    print(gen_match())
