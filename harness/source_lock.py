"""Fingerprint of the implementation's source (every partitura/**/*.py of the tree under check).

    python harness/source_lock.py --write      coordinator: pin the fingerprint of /repo's HEAD state (after every fix: commit)
    drift(repo) -> sorted list of files whose content differs from the pinned fingerprint (added / removed / edited)

The checks use it for one thing only: when the tree under check is NOT the pinned one (somebody edited partitura),
the quick tier draws several times as many cases (core.main, "escalation") — a change to the code is exactly when a
deeper look is worth its time.  It never changes a verdict by itself and nothing is skipped when the tree is the pinned one.
"""
import hashlib, json, os, sys

LOCK = os.path.join(os.path.dirname(os.path.abspath(__file__)), "source.lock.json")


def fingerprint(repo):
    out = {}
    root = os.path.join(repo, "partitura")
    for dp, dn, fn in os.walk(root):
        dn[:] = sorted(d for d in dn if d != "__pycache__")
        for f in sorted(fn):
            if f.endswith(".py"):
                p = os.path.join(dp, f)
                with open(p, "rb") as fh:
                    out[os.path.relpath(p, repo)] = hashlib.sha256(fh.read()).hexdigest()
    return out


def drift(repo):
    try:
        pinned = json.load(open(LOCK))["files"]
    except Exception:
        return ["<no source.lock.json>"]
    cur = fingerprint(repo)
    return sorted(k for k in set(pinned) | set(cur) if pinned.get(k) != cur.get(k))


if __name__ == "__main__":
    repo = os.environ.get("VERIF_REPO", "/repo")
    if "--write" in sys.argv:
        import subprocess
        head = subprocess.run(["git", "-C", repo, "rev-parse", "HEAD"], capture_output=True, text=True).stdout.strip()
        dirty = subprocess.run(["git", "-C", repo, "status", "--porcelain", "--", "partitura"], capture_output=True, text=True).stdout.strip()
        if dirty:
            sys.exit("refusing to pin a dirty tree:\n" + dirty)
        json.dump({"commit": head, "files": fingerprint(repo)}, open(LOCK, "w"), indent=0, sort_keys=True)
        print("pinned", head, len(fingerprint(repo)), "files")
    else:
        print(json.dumps(drift(repo)))
