"""Translator for C04: default argument values and literal constants of the MIDI score exporter / importer
-> lean/PartituraModel/Gen/C04Sig.lean.

Read from the LIVE source on every run (inspect.signature for the defaults, ast for the literals):

  save_score_midi      defaults of part_voice_assign_mode, velocity, anacrusis_behavior, minimum_ppq;
                       the anacrusis strings the function compares `anacrusis_behavior` with;
                       the tempo of the default `set_tempo` message (`tempos[0] = MetaMessage("set_tempo", tempo=...)`);
                       the bound of the beat-halving loop (`m_beat_type < N`)
  map_to_track_channel the integers `mode` is compared with, in source order, and the channel given when a mode writes
                       a single channel (`channel[...] = 1`)
  load_score_midi      default of part_voice_assign_mode; whether the defaults of quantization_unit,
                       estimate_voice_info, estimate_key switch those steps on (the model has them off)
  assign_group_part_voice   the integers `mode` is compared with, in source order
  create_part          the time signature assumed when the file has none (`time_sigs = [(0, n, d)]`)

When the source no longer has the expected form `extractionOk := false` is emitted with empty / zero values, so
that only the C04 tie theorem (Props/C04Total.lean `source_constants`) stops building.
"""
import ast
import inspect
import textwrap


class Unexpected(Exception):
    pass


def _fn_ast(fn):
    return ast.parse(textwrap.dedent(inspect.getsource(fn))).body[0]


def _default(fn, name):
    p = inspect.signature(fn).parameters[name]
    if p.default is inspect.Parameter.empty:
        raise Unexpected("%s has no default for %s" % (fn.__name__, name))
    return p.default


def _compared_constants(tree, var, typ):
    """constants of type `typ` that the name `var` is compared with (==, !=, in), in source order, without repeats"""
    out = []
    for node in ast.walk(tree):
        if isinstance(node, ast.Compare) and isinstance(node.left, ast.Name) and node.left.id == var:
            for comp in node.comparators:
                cands = comp.elts if isinstance(comp, (ast.Tuple, ast.List, ast.Set)) else [comp]
                for c in cands:
                    if isinstance(c, ast.Constant) and isinstance(c.value, typ) and not isinstance(c.value, bool):
                        out.append((node.lineno, node.col_offset, c.value))
    seen, res = set(), []
    for _, _, v in sorted(out, key=lambda x: (x[0], x[1])):
        if v not in seen:
            seen.add(v)
            res.append(v)
    return res


def extract():
    import partitura.io.exportmidi as E
    import partitura.io.importmidi as I

    save = E.save_score_midi
    d = {
        "defaultMode": _default(save, "part_voice_assign_mode"),
        "defaultVelocity": _default(save, "velocity"),
        "defaultAnacrusis": _default(save, "anacrusis_behavior"),
        "defaultMinimumPpq": _default(save, "minimum_ppq"),
        "importDefaultMode": _default(I.load_score_midi, "part_voice_assign_mode"),
    }
    for k in ("defaultMode", "defaultVelocity", "defaultMinimumPpq", "importDefaultMode"):
        if not isinstance(d[k], int) or isinstance(d[k], bool) or d[k] < 0:
            raise Unexpected("%s is %r" % (k, d[k]))
    if not isinstance(d["defaultAnacrusis"], str):
        raise Unexpected("anacrusis default is %r" % (d["defaultAnacrusis"],))
    tree = _fn_ast(save)
    d["anacrusisValues"] = sorted(_compared_constants(tree, "anacrusis_behavior", str))
    # the default tempo: a `set_tempo` MetaMessage with a constant tempo
    tempi = [kw.value.value for node in ast.walk(tree)
             if isinstance(node, ast.Call) and getattr(node.func, "id", None) == "MetaMessage"
             and node.args and isinstance(node.args[0], ast.Constant) and node.args[0].value == "set_tempo"
             for kw in node.keywords if kw.arg == "tempo" and isinstance(kw.value, ast.Constant)]
    if len(tempi) != 1 or not isinstance(tempi[0], int):
        raise Unexpected("default tempo: %r" % (tempi,))
    d["defaultTempo"] = tempi[0]
    # the beat-halving loop: `while ... and <name> < N`
    bounds = []
    for node in ast.walk(tree):
        if isinstance(node, ast.While):
            for c in ast.walk(node.test):
                if (isinstance(c, ast.Compare) and len(c.ops) == 1 and isinstance(c.ops[0], ast.Lt)
                        and isinstance(c.comparators[0], ast.Constant) and isinstance(c.comparators[0].value, int)
                        and isinstance(c.left, ast.Name) and "beat_type" in c.left.id):
                    bounds.append(c.comparators[0].value)
    if len(bounds) != 1:
        raise Unexpected("beat type bound: %r" % (bounds,))
    d["beatTypeLimit"] = bounds[0]
    mtc = _fn_ast(E.map_to_track_channel)
    d["exportModes"] = _compared_constants(mtc, "mode", int)
    singles = sorted(set(node.value.value for node in ast.walk(mtc)
                         if isinstance(node, ast.Assign) and isinstance(node.value, ast.Constant)
                         and isinstance(node.value.value, int) and not isinstance(node.value.value, bool)
                         and isinstance(node.targets[0], ast.Subscript)
                         and getattr(node.targets[0].value, "id", None) == "channel"))
    if len(singles) != 1:
        raise Unexpected("single channel: %r" % (singles,))
    d["singleChannel"] = singles[0]
    d["importModes"] = _compared_constants(_fn_ast(I.assign_group_part_voice), "mode", int)
    # create_part: `time_sigs = [(0, n, d)]`
    cp = _fn_ast(I.create_part)
    assumed = []
    for node in ast.walk(cp):
        if (isinstance(node, ast.Assign) and getattr(node.targets[0], "id", None) == "time_sigs"
                and isinstance(node.value, ast.List) and len(node.value.elts) == 1 and isinstance(node.value.elts[0], ast.Tuple)):
            vals = [e.value for e in node.value.elts[0].elts if isinstance(e, ast.Constant)]
            if len(vals) == 3:
                assumed.append(tuple(vals))
    if len(assumed) != 1:
        raise Unexpected("assumed time signature: %r" % (assumed,))
    d["assumedTimeSig"] = assumed[0]
    # the options of load_score_midi the model leaves at their defaults: no quantization of the ticks, voices from the
    # mode (no voice estimation), key signatures from the file (no key estimation)
    d["importQuantizes"] = bool(_default(I.load_score_midi, "quantization_unit"))
    for k, name in (("importEstimatesVoices", "estimate_voice_info"), ("importEstimatesKey", "estimate_key")):
        v = _default(I.load_score_midi, name)
        if not isinstance(v, bool):
            raise Unexpected("%s default is %r" % (name, v))
        d[k] = v
    return d


def _lean_str(s):
    return '"' + s.replace("\\", "\\\\").replace('"', '\\"') + '"'


def gen_c04sig():
    try:
        d, ok, why = extract(), True, ""
    except Exception as e:  # noqa
        d = {"defaultMode": 0, "defaultVelocity": 0, "defaultAnacrusis": "", "defaultMinimumPpq": 0, "importDefaultMode": 0,
             "anacrusisValues": [], "defaultTempo": 0, "beatTypeLimit": 0, "exportModes": [], "singleChannel": 0,
             "importModes": [], "assumedTimeSig": (0, 0, 0), "importQuantizes": True, "importEstimatesVoices": True,
             "importEstimatesKey": True}
        ok, why = False, "%s: %s" % (type(e).__name__, e)
    lines = [
        "/- GENERATED by harness/translate_c04.py from partitura/io/exportmidi.py and partitura/io/importmidi.py - do not edit.",
        "   Default argument values (inspect.signature) and literal constants (ast) of save_score_midi,",
        "   map_to_track_channel, load_score_midi, assign_group_part_voice, create_part. -/",
        "namespace Gen.C04Sig",
        "",
        "def extractionOk : Bool := %s" % ("true" if ok else "false"),
    ]
    if not ok:
        lines.append("-- extraction failed: %s" % why.replace("\n", " ")[:200])
    lines += [
        "/-- `save_score_midi(..., part_voice_assign_mode=…)` -/",
        "def defaultMode : Nat := %d" % d["defaultMode"],
        "/-- `save_score_midi(..., velocity=…)` -/",
        "def defaultVelocity : Nat := %d" % d["defaultVelocity"],
        "/-- `save_score_midi(..., anacrusis_behavior=…)` -/",
        "def defaultAnacrusis : String := %s" % _lean_str(d["defaultAnacrusis"]),
        "/-- `save_score_midi(..., minimum_ppq=…)` -/",
        "def defaultMinimumPpq : Nat := %d" % d["defaultMinimumPpq"],
        "/-- the strings `anacrusis_behavior` is compared with, sorted -/",
        "def anacrusisValues : List String := [%s]" % ", ".join(_lean_str(x) for x in d["anacrusisValues"]),
        "/-- the tempo of the default `set_tempo` message (microseconds per quarter) -/",
        "def defaultTempo : Nat := %d" % d["defaultTempo"],
        "/-- `while m_beats != int(m_beats) and m_beat_type < …` -/",
        "def beatTypeLimit : Nat := %d" % d["beatTypeLimit"],
        "/-- the integers `mode` is compared with in `map_to_track_channel`, in source order -/",
        "def exportModes : List Nat := [%s]" % ", ".join("%d" % x for x in d["exportModes"]),
        "/-- the channel of the modes that write a single channel -/",
        "def singleChannel : Nat := %d" % d["singleChannel"],
        "/-- `load_score_midi(..., part_voice_assign_mode=…)` -/",
        "def importDefaultMode : Nat := %d" % d["importDefaultMode"],
        "/-- the integers `mode` is compared with in `assign_group_part_voice`, in source order -/",
        "def importModes : List Nat := [%s]" % ", ".join("%d" % x for x in d["importModes"]),
        "/-- `create_part`: the time signature assumed when the file has none -/",
        "def assumedTimeSig : Int × Int × Int := (%d, %d, %d)" % tuple(d["assumedTimeSig"]),
        "/-- `load_score_midi(..., quantization_unit=…)`: the default quantizes the ticks -/",
        "def importQuantizes : Bool := %s" % ("true" if d["importQuantizes"] else "false"),
        "/-- `load_score_midi(..., estimate_voice_info=…)` -/",
        "def importEstimatesVoices : Bool := %s" % ("true" if d["importEstimatesVoices"] else "false"),
        "/-- `load_score_midi(..., estimate_key=…)`: the default discards the key signatures of the file -/",
        "def importEstimatesKey : Bool := %s" % ("true" if d["importEstimatesKey"] else "false"),
        "",
        "end Gen.C04Sig",
        "",
    ]
    return "\n".join(lines)


GENERATORS = {"C04Sig.lean": gen_c04sig}

if __name__ == "__main__":
    print(gen_c04sig())
