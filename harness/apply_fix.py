"""coordinator helper: apply fixes/<name>.patch to /repo and commit it with the message proposed in fixes/<id>.md"""
import re, subprocess, sys, os
patch = sys.argv[1]
base = os.path.basename(patch)
m = re.match(r"(C\d+-\d+)", base)
md = os.path.join(os.path.dirname(patch), m.group(1) + ".md")
msg = None
if os.path.exists(md):
    t = open(md).read()
    blocks = re.findall(r"```\n?(fix:.*?)```", t, re.S)
    if blocks:
        msg = blocks[-1].strip()
    else:
        m1 = re.search(r"`(fix:[^`]+)`", t)
        m2 = re.search(r"\n    (fix:.*)$", t, re.S)
        if m2:
            msg = "\n".join(l[4:] if l.startswith("    ") else l for l in m2.group(1).rstrip().split("\n"))
            msg = "fix:" + msg[4:] if not msg.startswith("fix:") else msg
        elif m1:
            msg = m1.group(1).strip()
if len(sys.argv) > 2:
    msg = sys.argv[2]
if not msg:
    sys.exit("no commit message found for %s" % patch)
r = subprocess.run(["git", "-C", "/repo", "apply", "--3way", "--whitespace=nowarn", os.path.abspath(patch)], capture_output=True, text=True)
if r.returncode != 0:
    r = subprocess.run(["patch", "-p1", "-d", "/repo", "-i", os.path.abspath(patch)], capture_output=True, text=True)
    if r.returncode != 0:
        sys.exit("patch failed: " + r.stdout + r.stderr)
subprocess.run(["git", "-C", "/repo", "commit", "-qam", msg], check=True)
print(subprocess.run(["git", "-C", "/repo", "log", "--oneline", "-1"], capture_output=True, text=True).stdout)
