"""Translator for C05: literal data of the note-array code -> lean/PartituraModel/Gen/C05Tables.lean.

Read from the LIVE source (ast of `inspect.getsource`, `inspect.signature`) on every run:

  noteFields / restFields   the dtype of `note_array_from_note_list` / `rest_array_from_rest_list` as the function
                            builds it: the `fields = []; [if <cond>:] fields += [(name, dtype), ...]` statements in
                            order, each group with the name its condition tests ("" = unconditional;
                            `x is not None` and a bare `x` both give "x")
  noteMaps / restMaps       the `if include_X: Y = part.Y else: Y = None` selections of `note_array_from_part` /
                            `rest_array_from_part`: (option, map) pairs in order
  noteListKw / restListKw   the keyword -> expression pairs of the call of the list function inside the part function
                            (which map / option is handed to which parameter)
  defaults                  (function, parameter, default) of every boolean / None keyword of the entry points
                            (note_array_from_part, rest_array_from_part, note_array_from_part_list,
                            rest_array_from_part_list, Part.note_array, Part.rest_array, PartGroup.note_array,
                            PartGroup.rest_array, Score.note_array, note_array_to_score)
  voiceSentinels            the integer written for a missing voice and the integer the voice pass looks for, per
                            list function: [fallback written, value tested]
  staffFallbacks            the integer written for a missing staff, per list function
  idPrefixFormats           the format strings of the id prefix in note_array_from_part_list / rest_array_from_part_list
  sortKinds                 the `kind=` of the second (onset) argsort in the four functions that sort
  limitDenominators         the arguments of `limit_denominator` in create_divs_from_beats
  lexsortKeys               the field names of `np.lexsort((...))` in note_array_to_score, in order ("@onset"/"@duration" for
                            the `onset_time` / `duration_time` variables)
  rescaledColumns           (round 6) per part-list function, the columns `X` of the statements `na["X"] = na["X"] * time_mult`
                            / `na["X"] *= time_mult`, sorted (note_array_from_part_list: three; rest_array_from_part_list: none)
  forcedOptions             (round 6) the `kwargs["include_..."] = True` statements of note_array_from_part_list
  emptyPartDivs             (round 6) `part_na[0]["divs_pq"] if len(part_na) else 1`: (column read, divisions of an empty table)
  collapseSums              (round 6) the columns `X` of `rest_array[i]["X"] = rest["X"] + rest_array[idx]["X"]` in collapse_rests, sorted
  collapseAdjacency         (round 6) the column names inside the `np.where(...)` of collapse_rests, sorted (with repetitions)
  unreadable                the items whose source form could not be read (left empty; their theorems hold vacuously)
  tsCase / ksCase           the column names that switch the time / key signature columns on in note_array_to_score
  tsLoopFields / ksLoopFields   the columns the change-collecting loops compare / read

An item whose source no longer has a readable form is emitted empty and listed in `unreadable`: a harmless rewriting
(`x if x else 0` -> `x or 0`, a comprehension instead of `+=`) must not alarm, so the theorem about that item is stated
under `readable "<item>"` and then holds vacuously; what the code DOES stays under the correspondence and the oracle.
A readable item that differs from what the model implements (a reordered field, another sentinel, a switch that tests
other column names than the loop reads) stops Props/C05Tables.lean from building.
"""
import ast
import inspect
import textwrap


class Unexpected(Exception):
    pass


def _lstr(s):
    out = ['"']
    for ch in s:
        if ch == '"':
            out.append('\\"')
        elif ch == "\\":
            out.append("\\\\")
        elif ord(ch) < 32 or ord(ch) > 126:
            out.append("\\u{%x}" % ord(ch))
        else:
            out.append(ch)
    out.append('"')
    return "".join(out)


def _lint(i):
    i = int(i)
    return "(%d)" % i if i < 0 else "%d" % i


def _llist(items):
    items = list(items)
    return "[" + ", ".join(items) + "]"


def _tree(fn):
    return ast.parse(textwrap.dedent(inspect.getsource(fn))).body[0]


def _cond_name(test):
    """`x is not None` / `x` -> "x" """
    if isinstance(test, ast.Name):
        return test.id
    if (isinstance(test, ast.Compare) and len(test.ops) == 1 and isinstance(test.ops[0], ast.IsNot)
            and isinstance(test.left, ast.Name) and isinstance(test.comparators[0], ast.Constant)
            and test.comparators[0].value is None):
        return test.left.id
    raise Unexpected("condition of a field group: %s" % ast.dump(test)[:80])


def _field_pairs(node):
    if not isinstance(node, ast.List):
        raise Unexpected("field list expected")
    out = []
    for el in node.elts:
        if not (isinstance(el, ast.Tuple) and len(el.elts) == 2 and all(isinstance(x, ast.Constant) for x in el.elts)):
            raise Unexpected("field tuple expected")
        out.append((str(el.elts[0].value), str(el.elts[1].value)))
    return out


def fields_of(fn):
    """[(condition name, [(field, dtype)])] in the order the function appends them"""
    f = _tree(fn)
    groups = []
    started = False
    for st in f.body:
        if (isinstance(st, ast.Assign) and len(st.targets) == 1 and isinstance(st.targets[0], ast.Name)
                and st.targets[0].id == "fields"):
            if not (isinstance(st.value, ast.List) and not st.value.elts):
                groups.append(("", _field_pairs(st.value)))
            started = True
            continue
        if not started:
            continue
        if isinstance(st, ast.AugAssign) and isinstance(st.target, ast.Name) and st.target.id == "fields":
            groups.append(("", _field_pairs(st.value)))
        elif isinstance(st, ast.If):
            inner = [s for s in st.body if not isinstance(s, ast.Expr)]
            if (len(inner) == 1 and isinstance(inner[0], ast.AugAssign) and isinstance(inner[0].target, ast.Name)
                    and inner[0].target.id == "fields" and not st.orelse):
                groups.append((_cond_name(st.test), _field_pairs(inner[0].value)))
            elif any(isinstance(n, ast.Name) and n.id == "fields" for n in ast.walk(st)):
                raise Unexpected("unreadable statement about `fields`")
        elif any(isinstance(n, ast.Name) and n.id == "fields" and isinstance(n.ctx, ast.Store) for n in ast.walk(st)):
            raise Unexpected("`fields` is assigned in an unexpected statement")
    if not groups:
        raise Unexpected("no field groups found")
    return groups


def maps_of(fn):
    """the `if include_X: Y = part.Y else: Y = None` statements: [(include_X, Y)]"""
    f = _tree(fn)
    out = []
    for st in f.body:
        if not (isinstance(st, ast.If) and isinstance(st.test, ast.Name) and len(st.body) == 1 and len(st.orelse) == 1):
            continue
        a, b = st.body[0], st.orelse[0]
        if not (isinstance(a, ast.Assign) and isinstance(b, ast.Assign)):
            continue
        if not (isinstance(b.value, ast.Constant) and b.value.value is None):
            continue
        if not (isinstance(a.value, ast.Attribute) and isinstance(a.value.value, ast.Name) and a.value.value.id == "part"):
            continue
        if a.targets[0].id != b.targets[0].id or a.value.attr != a.targets[0].id:
            raise Unexpected("map selection assigns %s from part.%s" % (a.targets[0].id, a.value.attr))
        out.append((st.test.id, a.targets[0].id))
    return out


def call_kw(fn, callee):
    """keyword -> source text of the expression, of the single call of `callee` in fn"""
    f = _tree(fn)
    calls = [n for n in ast.walk(f) if isinstance(n, ast.Call) and isinstance(n.func, ast.Name) and n.func.id == callee]
    if len(calls) != 1 or calls[0].args:
        raise Unexpected("expected one keyword-only call of %s" % callee)
    return [(k.arg, ast.unparse(k.value)) for k in calls[0].keywords]


def defaults_of(name, fn):
    out = []
    for p in inspect.signature(fn).parameters.values():
        if p.default is inspect.Parameter.empty:
            continue
        if isinstance(p.default, bool):
            out.append((name, p.name, "true" if p.default else "false"))
        elif p.default is None:
            out.append((name, p.name, "none"))
        elif isinstance(p.default, str):
            out.append((name, p.name, "str:" + p.default))
    return out


def _fallback(fn, var, attr):
    """the value written when `<var>.<attr>` is missing: `<var>.<attr> if <test> else d` or `<var>.<attr> or d`"""
    f = _tree(fn)
    for n in ast.walk(f):
        if isinstance(n, ast.IfExp) and isinstance(n.body, ast.Attribute) and n.body.attr == attr \
                and isinstance(n.body.value, ast.Name) and n.body.value.id == var:
            return int(ast.literal_eval(n.orelse))
        if isinstance(n, ast.BoolOp) and isinstance(n.op, ast.Or) and len(n.values) == 2 \
                and isinstance(n.values[0], ast.Attribute) and n.values[0].attr == attr \
                and isinstance(n.values[0].value, ast.Name) and n.values[0].value.id == var:
            return int(ast.literal_eval(n.values[1]))
    raise Unexpected("fallback of %s.%s in %s" % (var, attr, fn.__name__))


def voice_sentinel(fn, var):
    """[fallback written for a missing voice, value the voice pass looks for]"""
    f = _tree(fn)
    tested = None
    for n in ast.walk(f):
        if isinstance(n, ast.Compare) and len(n.ops) == 1 and isinstance(n.ops[0], ast.Eq) \
                and isinstance(n.left, ast.Subscript) and isinstance(n.left.slice, ast.Constant) and n.left.slice.value == "voice":
            tested = ast.literal_eval(n.comparators[0])
    if tested is None:
        raise Unexpected("voice sentinel of %s" % fn.__name__)
    return [_fallback(fn, var, "voice"), int(tested)]


def staff_fallback(fn, var):
    return _fallback(fn, var, "staff")


def prefix_format(fn):
    f = _tree(fn)
    out = [n.func.value.value for n in ast.walk(f)
           if isinstance(n, ast.Call) and isinstance(n.func, ast.Attribute) and n.func.attr == "format"
           and isinstance(n.func.value, ast.Constant) and isinstance(n.func.value.value, str) and n.func.value.value.startswith("P")]
    if len(out) != 1:
        raise Unexpected("id prefix format of %s" % fn.__name__)
    return out[0]


def sort_kind(fn):
    """kind= of the argsort over the onset unit (the second sort)"""
    f = _tree(fn)
    kinds = []
    for n in ast.walk(f):
        if isinstance(n, ast.Call) and isinstance(n.func, ast.Attribute) and n.func.attr == "argsort":
            kw = {k.arg: k.value for k in n.keywords}
            kinds.append(ast.literal_eval(kw["kind"]) if "kind" in kw else "")
    if len(kinds) != 2:
        raise Unexpected("two argsort calls expected in %s" % fn.__name__)
    return kinds


def limit_denominators(fn):
    f = _tree(fn)
    return [int(ast.literal_eval(n.args[0])) for n in ast.walk(f)
            if isinstance(n, ast.Call) and isinstance(n.func, ast.Attribute) and n.func.attr == "limit_denominator"]


def lexsort_keys(fn):
    f = _tree(fn)
    calls = [n for n in ast.walk(f) if isinstance(n, ast.Call) and isinstance(n.func, ast.Attribute) and n.func.attr == "lexsort"]
    if len(calls) != 1 or not isinstance(calls[0].args[0], ast.Tuple):
        raise Unexpected("one np.lexsort((...)) expected")
    out = []
    for el in calls[0].args[0].elts:
        if not isinstance(el, ast.Subscript):
            raise Unexpected("lexsort key")
        s = el.slice
        if isinstance(s, ast.Constant):
            out.append(str(s.value))
        elif isinstance(s, ast.Name):
            out.append("@" + s.id.replace("_time", ""))
        else:
            raise Unexpected("lexsort key")
    return out


def _sub_const(n):
    """the string `X` of a subscript `e["X"]`, else None"""
    if isinstance(n, ast.Subscript) and isinstance(n.slice, ast.Constant) and isinstance(n.slice.value, str):
        return n.slice.value
    return None


def rescaled_columns(fn, required):
    """columns multiplied in place by a multiplier: `na["X"] = na["X"] * m` or `na["X"] *= m`"""
    f = _tree(fn)
    out = []
    for n in ast.walk(f):
        if isinstance(n, ast.Assign) and len(n.targets) == 1 and _sub_const(n.targets[0]) is not None \
                and isinstance(n.value, ast.BinOp) and isinstance(n.value.op, ast.Mult):
            col = _sub_const(n.targets[0])
            if _sub_const(n.value.left) != col and _sub_const(n.value.right) != col:
                raise Unexpected("a column assigned a product of another column in %s" % fn.__name__)
            out.append((n.lineno, col))
        elif isinstance(n, ast.AugAssign) and isinstance(n.op, ast.Mult) and _sub_const(n.target) is not None:
            out.append((n.lineno, _sub_const(n.target)))
    if required and not out:
        raise Unexpected("no rescaling statement found in %s" % fn.__name__)
    return sorted(c for _, c in out)  # the statements are independent: their order is not part of the item


def forced_options(fn):
    f = _tree(fn)
    out = []
    for n in ast.walk(f):
        if isinstance(n, ast.Assign) and len(n.targets) == 1 and _sub_const(n.targets[0]) is not None \
                and isinstance(n.targets[0].value, ast.Name) and n.targets[0].value.id == "kwargs" \
                and isinstance(n.value, ast.Constant) and isinstance(n.value.value, bool):
            out.append((_sub_const(n.targets[0]), "true" if n.value.value else "false"))
    if not out:
        raise Unexpected("no kwargs[...] = True in %s" % fn.__name__)
    return out


def empty_part_divs(fn):
    f = _tree(fn)
    out = []
    for n in ast.walk(f):
        if isinstance(n, ast.IfExp) and isinstance(n.orelse, ast.Constant) and isinstance(n.orelse.value, int) \
                and _sub_const(n.body) is not None:
            out.append((_sub_const(n.body), int(n.orelse.value)))
    if len(out) != 1:
        raise Unexpected("`<table>[0][col] if len(<table>) else <int>` expected once in %s" % fn.__name__)
    return out


def collapse_sums(fn):
    f = _tree(fn)
    out = []
    for n in ast.walk(f):
        if isinstance(n, ast.Assign) and len(n.targets) == 1 and _sub_const(n.targets[0]) is not None \
                and isinstance(n.value, ast.BinOp) and isinstance(n.value.op, ast.Add):
            col = _sub_const(n.targets[0])
            if _sub_const(n.value.left) != col or _sub_const(n.value.right) != col:
                raise Unexpected("collapse_rests: a column assigned the sum of other columns")
            out.append((n.lineno, col))
    if not out:
        raise Unexpected("collapse_rests: no summing statement")
    return sorted(c for _, c in out)  # independent statements: order is not part of the item


def collapse_adjacency(fn):
    f = _tree(fn)
    calls = [n for n in ast.walk(f) if isinstance(n, ast.Call) and isinstance(n.func, ast.Attribute) and n.func.attr == "where"]
    if len(calls) != 1:
        raise Unexpected("collapse_rests: one np.where expected")
    subs = [_sub_const(n) for n in ast.walk(calls[0].args[0]) if _sub_const(n) is not None]
    return sorted(subs)  # `a == b` / `b == a`, `p & q` / `q & p` are the same test: the multiset of columns is the item


def case_lists(fn):
    f = _tree(fn)
    out = {}
    for st in ast.walk(f):
        if isinstance(st, ast.Assign) and len(st.targets) == 1 and isinstance(st.targets[0], ast.Name) \
                and st.targets[0].id in ("ts_case", "ks_case") and isinstance(st.value, ast.List):
            out[st.targets[0].id] = [str(e.value) for e in st.value.elts]
    if set(out) != {"ts_case", "ks_case"}:
        raise Unexpected("ts_case / ks_case")
    return out


def loop_fields(fn, case):
    """the string subscripts of the loop variable inside the `if all([x in dtypes for x in <case>])` block that
    collects the changes"""
    f = _tree(fn)
    for st in ast.walk(f):
        if isinstance(st, ast.If) and case in ast.unparse(st.test) and "dtypes" in ast.unparse(st.test):
            loops = [n for n in st.body if isinstance(n, ast.For)]
            if len(loops) != 1 or not isinstance(loops[0].target, ast.Name):
                continue
            v = loops[0].target.id
            names = []
            for n in ast.walk(loops[0]):
                if isinstance(n, ast.Subscript) and isinstance(n.value, ast.Name) and n.value.id == v and isinstance(n.slice, ast.Constant):
                    if n.slice.value not in names:
                        names.append(str(n.slice.value))
            return names
    raise Unexpected("no change-collecting loop for %s" % case)


ITEMS = ("noteFields", "restFields", "noteMaps", "restMaps", "noteListKw", "restListKw", "defaults", "voiceSentinels",
         "staffFallbacks", "idPrefixFormats", "sortKinds", "limitDenominators", "lexsortKeys", "tsCase", "ksCase",
         "tsLoopFields", "ksLoopFields", "rescaledColumns", "forcedOptions", "emptyPartDivs", "collapseSums",
         "collapseAdjacency")


def extract():
    """{item: value}, [(item, why it could not be read)]: an item whose source no longer has a readable form is left
    empty and listed - the theorem about it then holds vacuously (a harmless rewriting must not alarm; what the code
    DOES stays under the correspondence and the oracle)"""
    import importlib

    import partitura.utils.music as M
    import partitura.score as S

    N = importlib.import_module("partitura.musicanalysis.note_array_to_score")

    def all_defaults():
        dfl = []
        for name, fn in (("note_array_from_part", M.note_array_from_part), ("rest_array_from_part", M.rest_array_from_part),
                         ("note_array_from_part_list", M.note_array_from_part_list),
                         ("rest_array_from_part_list", M.rest_array_from_part_list),
                         ("Part.note_array", S.Part.note_array), ("Part.rest_array", S.Part.rest_array),
                         ("PartGroup.note_array", S.PartGroup.note_array), ("PartGroup.rest_array", S.PartGroup.rest_array),
                         ("Score.note_array", S.Score.note_array), ("note_array_to_score", N.note_array_to_score)):
            dfl += defaults_of(name, fn)
        return dfl

    todo = {
        "noteFields": lambda: fields_of(M.note_array_from_note_list),
        "restFields": lambda: fields_of(M.rest_array_from_rest_list),
        "noteMaps": lambda: maps_of(M.note_array_from_part),
        "restMaps": lambda: maps_of(M.rest_array_from_part),
        "noteListKw": lambda: call_kw(M.note_array_from_part, "note_array_from_note_list"),
        "restListKw": lambda: call_kw(M.rest_array_from_part, "rest_array_from_rest_list"),
        "defaults": all_defaults,
        "voiceSentinels": lambda: [("note_array_from_note_list", voice_sentinel(M.note_array_from_note_list, "note")),
                                   ("rest_array_from_rest_list", voice_sentinel(M.rest_array_from_rest_list, "rest"))],
        "staffFallbacks": lambda: [("note_array_from_note_list", staff_fallback(M.note_array_from_note_list, "note")),
                                   ("rest_array_from_rest_list", staff_fallback(M.rest_array_from_rest_list, "rest"))],
        "idPrefixFormats": lambda: [("note_array_from_part_list", prefix_format(M.note_array_from_part_list)),
                                    ("rest_array_from_part_list", prefix_format(M.rest_array_from_part_list))],
        "sortKinds": lambda: [(fn.__name__, sort_kind(fn)) for fn in (
            M.note_array_from_note_list, M.rest_array_from_rest_list, M.note_array_from_part_list, M.rest_array_from_part_list)],
        "limitDenominators": lambda: limit_denominators(N.create_divs_from_beats),
        "lexsortKeys": lambda: lexsort_keys(N.note_array_to_score),
        "tsCase": lambda: case_lists(N.note_array_to_score)["ts_case"],
        "ksCase": lambda: case_lists(N.note_array_to_score)["ks_case"],
        "tsLoopFields": lambda: loop_fields(N.note_array_to_score, "ts_case"),
        "ksLoopFields": lambda: loop_fields(N.note_array_to_score, "ks_case"),
        "rescaledColumns": lambda: [("note_array_from_part_list", rescaled_columns(M.note_array_from_part_list, True)),
                                    ("rest_array_from_part_list", rescaled_columns(M.rest_array_from_part_list, False))],
        "forcedOptions": lambda: forced_options(M.note_array_from_part_list),
        "emptyPartDivs": lambda: empty_part_divs(M.note_array_from_part_list),
        "collapseSums": lambda: collapse_sums(M.collapse_rests),
        "collapseAdjacency": lambda: collapse_adjacency(M.collapse_rests),
    }
    d, bad = {}, []
    for k in ITEMS:
        try:
            d[k] = todo[k]()
        except Exception as e:
            d[k] = []
            bad.append((k, "%s: %s" % (type(e).__name__, e)))
    return d, bad


def gen_c05():
    try:
        d, bad = extract()
    except Exception as e:  # never take the shared translator down
        d, bad = {k: [] for k in ITEMS}, [(k, "%s: %s" % (type(e).__name__, e)) for k in ITEMS]
    out = []
    w = out.append
    w("/- GENERATED by harness/translate_c05.py from the live partitura source (utils/music.py, score.py,")
    w("   musicanalysis/note_array_to_score.py).  Do not edit. -/")
    w("namespace Gen.C05\n")
    w("/-- the items whose source form could not be read (their theorems hold vacuously), with the reason -/")
    w("def unreadable : List (String × String) := %s\n" % _llist("(%s, %s)" % (_lstr(a), _lstr(b)) for a, b in bad))

    def groups(name, gs):
        w("/-- the dtype as the function builds it: (name the condition tests, \"\" = always; [(field, dtype)]) -/")
        w("def %s : List (String × List (String × String)) := [" % name)
        w(",\n".join("  (%s, %s)" % (_lstr(c), _llist("(%s, %s)" % (_lstr(a), _lstr(b)) for a, b in fs)) for c, fs in gs))
        w("]\n")

    groups("noteFields", d["noteFields"])
    groups("restFields", d["restFields"])
    for name in ("noteMaps", "restMaps", "noteListKw", "restListKw"):
        w("def %s : List (String × String) := %s\n" % (name, _llist("(%s, %s)" % (_lstr(a), _lstr(b)) for a, b in d[name])))
    w("/-- (function, keyword, default): `true` / `false` / `none` / `str:<text>` -/")
    w("def defaults : List (String × String × String) := [")
    w(",\n".join("  (%s, %s, %s)" % (_lstr(a), _lstr(b), _lstr(c)) for a, b, c in d["defaults"]))
    w("]\n")
    w("def voiceSentinels : List (String × List Int) := %s\n" % _llist(
        "(%s, %s)" % (_lstr(a), _llist(_lint(x) for x in b)) for a, b in d["voiceSentinels"]))
    w("def staffFallbacks : List (String × Int) := %s\n" % _llist("(%s, %s)" % (_lstr(a), _lint(b)) for a, b in d["staffFallbacks"]))
    w("def idPrefixFormats : List (String × String) := %s\n" % _llist("(%s, %s)" % (_lstr(a), _lstr(b)) for a, b in d["idPrefixFormats"]))
    w("def sortKinds : List (String × List String) := %s\n" % _llist(
        "(%s, %s)" % (_lstr(a), _llist(_lstr(x) for x in b)) for a, b in d["sortKinds"]))
    w("def limitDenominators : List Nat := %s\n" % _llist("%d" % x for x in d["limitDenominators"]))
    for name in ("lexsortKeys", "tsCase", "ksCase", "tsLoopFields", "ksLoopFields"):
        w("def %s : List String := %s\n" % (name, _llist(_lstr(x) for x in d[name])))
    w("def rescaledColumns : List (String × List String) := %s\n" % _llist(
        "(%s, %s)" % (_lstr(a), _llist(_lstr(x) for x in b)) for a, b in d["rescaledColumns"]))
    w("def forcedOptions : List (String × String) := %s\n" % _llist("(%s, %s)" % (_lstr(a), _lstr(b)) for a, b in d["forcedOptions"]))
    w("def emptyPartDivs : List (String × Int) := %s\n" % _llist("(%s, %s)" % (_lstr(a), _lint(b)) for a, b in d["emptyPartDivs"]))
    for name in ("collapseSums", "collapseAdjacency"):
        w("def %s : List String := %s\n" % (name, _llist(_lstr(x) for x in d[name])))
    w("end Gen.C05")
    return "\n".join(out) + "\n"


GENERATORS = {"C05Tables.lean": gen_c05}

if __name__ == "__main__":
    print(gen_c05())
