"""Shared check runner.

A property module (harness/props/cXX.py) provides

    PROPERTY      "C12"
    DRIVER        "drv_c12"                      lean_exe target (or None)
    PROPS         ["PartituraModel.Props.C12"]   Lean modules holding the property theorems
    TRUSTED       [str]                          trusted-base lines for the evidence
    PARTIAL       [str]                          what is not proved (optional)
    RULE          str                            how cases are generated / what is non-trivial
    cases(rng, tier) -> iterable of JSON-able case descriptions
    evaluate(desc) -> Eval                       runs the REAL implementation on the case
    finding_key(desc, failure) -> str            structural signature for known findings (optional)
    shrink(desc) -> iterable of smaller descs    (optional)

`Eval.requests[i]` is one line for the model driver, `Eval.impl[i]` what the
implementation produced for the same observation in the same canonical text
(or a callable judging the model's answer, for float tolerances),
`Eval.oracle` the list of property-oracle failures observed on the
implementation alone (independent of the model).
"""
import fcntl
import importlib
import json
import multiprocessing
import os
import random
import re
import subprocess
import sys
import time
import traceback
import warnings

ROOT = os.path.dirname(os.path.dirname(os.path.abspath(__file__)))
LEAN = os.path.join(ROOT, "lean")
EVID = os.path.join(ROOT, "evidence")
REPLAYS = os.path.join(ROOT, "replays")
PY = "/venv/bin/python"
ALLOWED_AXIOMS = {"propext", "Classical.choice", "Quot.sound"}
FORBIDDEN = re.compile(
    r"\bsorry\b|\badmit\b|^\s*axiom\s|\bnative_decide\b|\bbv_decide\b|implemented_by|\bunsafe\s|maxHeartbeats\s+0\b",
    re.M,
)


class Eval:
    __slots__ = ("requests", "impl", "oracle", "key", "info")

    def __init__(self, requests=None, impl=None, oracle=None, key=None, info=None):
        self.requests = requests or []
        self.impl = impl or []
        self.oracle = oracle or []
        self.key = key  # distinctness / non-triviality key (None = trivial)
        self.info = info or {}


def errname(e):
    """map an exception to a small enum"""
    n = type(e).__name__
    return "err:" + n


# ------------------------------------------------------------------ lean side
class BuildLock:
    def __enter__(self):
        os.makedirs(os.path.join(LEAN, ".lake"), exist_ok=True)
        self.f = open(os.path.join(LEAN, ".lake", "verif.lock"), "w")
        fcntl.flock(self.f, fcntl.LOCK_EX)
        return self

    def __exit__(self, *a):
        fcntl.flock(self.f, fcntl.LOCK_UN)
        self.f.close()


def sh(cmd, cwd=None, timeout=3600, input=None):
    p = subprocess.run(
        cmd, cwd=cwd, stdout=subprocess.PIPE, stderr=subprocess.STDOUT, text=True,
        timeout=timeout, input=input,
    )
    return p.returncode, p.stdout


def translate():
    env = dict(os.environ)
    env["PYTHONPATH"] = os.path.join(ROOT, "harness") + ":" + os.environ.get("VERIF_REPO", "/repo")
    env["PYTHONWARNINGS"] = "ignore"
    p = subprocess.run([PY, os.path.join(ROOT, "harness", "translate.py")], cwd=ROOT, env=env,
                       stdout=subprocess.PIPE, stderr=subprocess.STDOUT, text=True)
    rc, out = p.returncode, p.stdout
    if rc != 0:
        return False, out
    return True, out


def strip_comments(src):
    # remove /- ... -/ (nested) and -- comments and string literals
    out = []
    i, n, depth = 0, len(src), 0
    while i < n:
        if src.startswith("/-", i):
            depth += 1
            i += 2
        elif depth and src.startswith("-/", i):
            depth -= 1
            i += 2
        elif depth:
            if src[i] == "\n":
                out.append("\n")
            i += 1
        elif src.startswith("--", i):
            while i < n and src[i] != "\n":
                i += 1
        elif src[i] == '"':
            i += 1
            while i < n and src[i] != '"':
                i += 2 if src[i] == "\\" else 1
            i += 1
            out.append('""')
        else:
            out.append(src[i])
            i += 1
    return "".join(out)


def module_path(mod):
    return os.path.join(LEAN, *mod.split(".")) + ".lean"


def module_closure(mods):
    """all PartituraModel.* modules imported (transitively) by mods"""
    seen, todo = [], list(mods)
    while todo:
        m = todo.pop()
        if m in seen:
            continue
        seen.append(m)
        try:
            src = open(module_path(m)).read()
        except FileNotFoundError:
            continue
        for mm in re.findall(r"^import\s+(PartituraModel\.[\w.]+)", src, re.M):
            todo.append(mm)
    return seen


def theorems_of(mod):
    """[(name, line)] of the theorems declared in a Props module"""
    src = strip_comments(open(module_path(mod)).read())
    res = []
    ns = []
    for ln, line in enumerate(src.split("\n"), 1):
        m = re.match(r"\s*namespace\s+([\w.]+)", line)
        if m:
            ns.append(m.group(1))
        m = re.match(r"\s*end\s+([\w.]+)", line)
        if m and ns and ns[-1] == m.group(1):
            ns.pop()
        # private theorems cannot be named from the audit file; their axioms are reported
        # through the public theorems that use them
        m = re.match(r"\s*(?:@\[[^\]]*\]\s*)?(?:protected\s+)?theorem\s+([\w.']+)", line)
        if m:
            res.append((".".join(ns + [m.group(1)]), ln))
    return res


def lean_stage(mod_props, driver, log):
    """translate, build driver and property modules, audit.  Returns dict."""
    res = {"translate_ok": True, "driver_ok": True, "props_ok": True, "audit_ok": True,
           "broken": [], "theorems": [], "axioms": {}, "forbidden": [], "log": ""}
    with BuildLock():
        ok, out = translate()
        res["translate_ok"] = ok
        res["log"] += out[-2000:]
        if not ok:
            res["broken"].append("translator failed")
        if driver:
            rc, out = sh(["lake", "build", driver], cwd=LEAN)
            if rc != 0:
                res["driver_ok"] = False
                res["log"] += out[-4000:]
                res["broken"].append("model driver %s does not build" % driver)
        ths = []
        for m in mod_props:
            ths += [(m, n, ln) for n, ln in theorems_of(m)]
        res["theorems"] = [n for _, n, _ in ths]
        rc, out = sh(["lake", "build"] + list(mod_props), cwd=LEAN)
        if rc != 0:
            res["props_ok"] = False
            res["log"] += out[-6000:]
            # which theorems broke: map error lines to the enclosing theorem
            bad = set()
            for m in re.finditer(r"error: ([\w/.]+\.lean):(\d+):\d+", out):
                f, ln = m.group(1), int(m.group(2))
                cands = [(n, l) for mm, n, l in ths if module_path(mm).endswith(f) and l <= ln]
                if cands:
                    bad.add(max(cands, key=lambda x: x[1])[0])
                else:
                    bad.add("%s:%d" % (f, ln))
            if not bad:
                bad.add("build of %s failed" % ",".join(mod_props))
            res["broken"] += sorted(bad)
        # forbidden constructs in every module the property depends on
        for m in module_closure(list(mod_props)):
            try:
                src = strip_comments(open(module_path(m)).read())
            except FileNotFoundError:
                continue
            for mm in FORBIDDEN.finditer(src):
                res["forbidden"].append("%s: %s" % (m, mm.group(0).strip()))
        if res["props_ok"] and ths:
            audit = "\n".join("import %s" % m for m in mod_props) + "\n"
            audit += "\n".join("#print axioms %s" % n for _, n, _ in ths) + "\n"
            apath = os.path.join(LEAN, ".lake", "audit_%s.lean" % mod_props[0].split(".")[-1])
            open(apath, "w").write(audit)
            rc, out = sh(["lake", "env", "lean", apath], cwd=LEAN)
            if rc != 0:
                res["audit_ok"] = False
                res["log"] += out[-3000:]
            else:
                # "'name' depends on axioms: [a, b]" / "'name' does not depend on any axioms"
                for m in re.finditer(r"'([^']+)' depends on axioms: \[([^\]]*)\]", out.replace("\n", " ")):
                    res["axioms"][m.group(1)] = [a.strip() for a in m.group(2).split(",") if a.strip()]
                for m in re.finditer(r"'([^']+)' does not depend on any axioms", out):
                    res["axioms"][m.group(1)] = []
                for n in res["theorems"]:
                    if n not in res["axioms"]:
                        res["audit_ok"] = False
                        res["log"] += "\naudit: no axiom report for %s" % n
                    elif set(res["axioms"][n]) - ALLOWED_AXIOMS:
                        res["audit_ok"] = False
                        res["log"] += "\naudit: %s uses %s" % (n, res["axioms"][n])
    return res


def run_driver(driver, lines):
    exe = os.path.join(LEAN, ".lake", "build", "bin", driver)
    data = "\n".join(lines) + "\n"
    p = subprocess.run([exe], input=data, stdout=subprocess.PIPE, stderr=subprocess.PIPE, text=True)
    if p.returncode != 0:
        raise RuntimeError("driver %s failed: %s" % (driver, p.stderr[-2000:]))
    out = p.stdout.split("\n")
    if out and out[-1] == "":
        out.pop()
    if len(out) != len(lines):
        raise RuntimeError("driver %s answered %d lines for %d requests" % (driver, len(out), len(lines)))
    return out


# ------------------------------------------------------------------ evaluation
_MOD = None


# exceptions that say something about the machine, not about the implementation under test
INFRA_EXCEPTIONS = ("MemoryError", "OSError", "IOError", "BrokenPipeError", "FileNotFoundError", "PermissionError",
                    "TimeoutError", "KeyboardInterrupt", "ModuleNotFoundError", "ImportError", "BlockingIOError")


def _init_worker(modname):
    global _MOD
    warnings.filterwarnings("ignore")
    _MOD = importlib.import_module(modname)


def _eval_one(desc):
    try:
        ev = _MOD.evaluate(desc)
        # a callable is a judge (re-evaluated in the parent); anything else that is not text (None, a number: the
        # implementation returned a value of an unexpected type) is compared through its repr and so disagrees
        impl = [x if isinstance(x, (str, list, tuple)) else (("@judge", i) if callable(x) else "<%s>" % repr(x))
                for i, x in enumerate(ev.impl)]
        return {"requests": ev.requests, "impl": impl, "oracle": ev.oracle, "key": ev.key, "info": ev.info}
    except Exception as e:  # harness failure, not a verdict
        return {"harness_error": "%s: %s\n%s" % (type(e).__name__, e, traceback.format_exc()[-1500:])}


def evaluate_all(mod, descs, jobs):
    if jobs <= 1 or len(descs) < 8:
        _init_worker(mod.__name__)
        return [_eval_one(d) for d in descs]
    with multiprocessing.Pool(jobs, initializer=_init_worker, initargs=(mod.__name__,)) as pool:
        return pool.map(_eval_one, descs, chunksize=max(1, len(descs) // (jobs * 8)))


def parse_model_value(tok):
    """model text -> nested python structure of Fractions / strings"""
    from fractions import Fraction

    tok = tok.strip()
    pos = 0

    def parse():
        nonlocal pos
        if tok[pos] in "[(":
            close = "]" if tok[pos] == "[" else ")"
            pos += 1
            items = []
            while tok[pos] != close:
                items.append(parse())
                if tok[pos] == ",":
                    pos += 1
            pos += 1
            return items
        j = pos
        while j < len(tok) and tok[j] not in ",])":
            j += 1
        w = tok[pos:j]
        pos = j
        if re.fullmatch(r"-?\d+(/\d+)?", w):
            return Fraction(w)
        return w

    return parse()


def approx_judge(im, model_out):
    """im = ("@approx", values, rtol): values is a nested list of floats / strings / None (nan);
    the model's answer has the same shape with exact rationals; `nan` in the model = NaN"""
    _, values, rtol = im
    try:
        mv = parse_model_value(model_out)
    except Exception:
        return "unparsable model output, impl=%r" % (values,)

    def cmp(a, b):
        from fractions import Fraction

        if isinstance(a, (list, tuple)):
            if not isinstance(b, list) or len(a) != len(b):
                return False
            return all(cmp(x, y) for x, y in zip(a, b))
        if a is None or (isinstance(a, float) and a != a):
            return b == "nan"
        if isinstance(a, str):
            return a == b
        if not isinstance(b, Fraction):
            return False
        fb = float(b)
        return abs(float(a) - fb) <= rtol * max(1.0, abs(fb))

    return None if cmp(values, mv) else "float-mismatch impl=%r" % (values,)


def judge(mod, desc, idx, model_out):
    """re-evaluate a case in-process to apply a callable judge (float tolerance)"""
    try:
        ev = mod.evaluate(desc)
        f = ev.impl[idx]
        return f(model_out)
    except Exception as e:  # the observation cannot be judged: that is a disagreement, not a crash of the run
        return "unjudgeable: %s: %s" % (type(e).__name__, e)


# ------------------------------------------------------------------ known findings
def load_known():
    p = os.path.join(ROOT, "known_findings.json")
    try:
        return json.load(open(p))
    except FileNotFoundError:
        return []


# ------------------------------------------------------------------ main
def load_corpus(prop):
    """corpus/Cxx/*.json: hand-written edge cases and shrunk past failures; each file holds one case
    description or a list of them (or a replay file with a "case" key); they run before the random cases"""
    d = os.path.join(ROOT, "corpus", prop)
    out = []
    if os.path.isdir(d):
        for fn in sorted(os.listdir(d)):
            if fn.endswith(".json"):
                j = json.load(open(os.path.join(d, fn)))
                if isinstance(j, dict) and "case" in j and "property" in j:
                    j = j["case"]
                out += j if isinstance(j, list) else [j]
    return out


def write_replay(prop, payload):
    os.makedirs(REPLAYS, exist_ok=True)
    path = os.path.join(REPLAYS, "%s-%d-%d.json" % (prop, payload.get("seed", 0), int(time.time() * 1000) % 10**9))
    json.dump(payload, open(path, "w"), indent=1, default=str)
    return path


def shrink_case(mod, desc, still_fails, budget=200):
    if not hasattr(mod, "shrink"):
        return desc
    cur = desc
    n = 0
    improved = True
    while improved and n < budget:
        improved = False
        for cand in mod.shrink(cur):
            n += 1
            if n > budget:
                break
            try:
                if still_fails(cand):
                    cur = cand
                    improved = True
                    break
            except Exception:
                continue
    return cur


def main(modname, argv):
    import argparse

    ap = argparse.ArgumentParser()
    ap.add_argument("--tier", default=os.environ.get("VERIF_TIER", "quick"))
    ap.add_argument("--replay", default=None)
    ap.add_argument("--jobs", type=int, default=0)
    ap.add_argument("--no-lean", action="store_true", help="skip the Lean stage (debugging only; exit code 2)")
    args = ap.parse_args(argv)
    tier = args.tier if args.tier in ("quick", "thorough") else "quick"
    seed = int(os.environ.get("VERIF_SEED", "0") or 0)
    warnings.filterwarnings("ignore")
    t0 = time.time()
    mod = importlib.import_module(modname)
    prop = mod.PROPERTY
    jobs = args.jobs or (16 if tier == "thorough" else 4)

    if args.replay:
        return replay(mod, args.replay)

    # ---- Lean stage
    lean = {"translate_ok": True, "driver_ok": True, "props_ok": True, "audit_ok": True,
            "broken": [], "theorems": [], "axioms": {}, "forbidden": [], "log": "skipped"}
    if not args.no_lean:
        lean = lean_stage(mod.PROPS, mod.DRIVER, None)
    if lean["forbidden"] or not lean["audit_ok"]:
        print("INFRA: audit not clean: %s %s" % (lean["forbidden"], lean["log"][-1500:]))
        return 2
    checker_extra = []
    if tier == "thorough" and lean["props_ok"] and not args.no_lean and os.environ.get("VERIF_LEANCHECKER", "1") == "1":
        with BuildLock():
            rc, out = sh(["lake", "env", "leanchecker"] + list(mod.PROPS), cwd=LEAN, timeout=3000)
        checker_extra.append("leanchecker rc=%d" % rc)
        if rc != 0:
            print("INFRA: leanchecker rejected the compiled modules:\n" + out[-2000:])
            return 2

    # ---- correspondence + oracle on the implementation
    rng = random.Random(seed * 1000003 + 17)
    descs = load_corpus(prop) + list(mod.cases(rng, tier))
    # ---- escalation: the tree under check is not the pinned source (somebody edited partitura) -> the quick tier
    # draws ESCALATE more rounds of cases from further sub-seeds and uses more workers.  Never changes a verdict by itself.
    drifted = []
    try:
        import source_lock
        drifted = source_lock.drift(os.environ.get("VERIF_REPO", "/repo"))
    except Exception as e:  # the fingerprint is an optimisation hint only
        drifted = ["<fingerprint error: %s>" % e]
    escalated = 0
    if drifted and tier == "quick" and os.environ.get("VERIF_ESCALATE", "1") != "0":
        rounds = int(os.environ.get("VERIF_ESCALATE_ROUNDS", str(getattr(mod, "ESCALATE", 3))))
        seen = set(json.dumps(d, sort_keys=True, default=str) for d in descs)
        for k in range(1, rounds + 1):
            rk = random.Random((seed + 7001 * k) * 1000003 + 17)
            for d in mod.cases(rk, tier):
                key = json.dumps(d, sort_keys=True, default=str)
                if key not in seen:
                    seen.add(key)
                    descs.append(d)
                    escalated += 1
        jobs = args.jobs or min(16, max(jobs, (os.cpu_count() or 4)))
    results = evaluate_all(mod, descs, jobs)
    herr = [(d, r["harness_error"]) for d, r in zip(descs, results) if "harness_error" in r]
    infra = [h for h in herr if h[1].split(":")[0] in INFRA_EXCEPTIONS]
    if infra:
        print("INFRA: harness error on case %s:\n%s" % (json.dumps(infra[0][0], default=str)[:500], infra[0][1]))
        return 2
    # The harness code is fixed and never raises on the unchanged tree (every module maps the implementation's
    # exceptions to tokens itself).  An exception escaping `evaluate` therefore means the implementation now returns
    # something the harness cannot even observe (a tuple where a dict was, a missing attribute, ...): that is a
    # broken correspondence, handled like any other — search for a failing input, report either way.
    harness_broken = []
    if herr:
        harness_broken.append("correspondence(harness): evaluate could not observe the implementation on %d case(s), first: case=%s error=%s" % (
            len(herr), json.dumps(herr[0][0], default=str)[:600], herr[0][1][-700:]))
        for r in results:
            if "harness_error" in r:
                r.update({"requests": [], "impl": [], "oracle": [], "key": None, "info": None})

    mismatches = []  # (case index, obs index, request, impl, model)
    n_obs = 0
    if lean["driver_ok"] and mod.DRIVER and not args.no_lean:
        lines, owner = [], []
        for ci, r in enumerate(results):
            for oi, q in enumerate(r["requests"]):
                lines.append(q)
                owner.append((ci, oi))
        outs = run_driver(mod.DRIVER, lines) if lines else []
        n_obs = len(lines)
        for (ci, oi), q, mo in zip(owner, lines, outs):
            im = results[ci]["impl"][oi]
            if isinstance(im, (list, tuple)) and im and im[0] == "@judge":
                verdict = judge(mod, descs[ci], oi, mo)
                if verdict is not None:
                    mismatches.append((ci, oi, q, str(verdict), mo))
            elif isinstance(im, (list, tuple)) and im and im[0] == "@approx":
                verdict = approx_judge(im, mo)
                if verdict is not None:
                    mismatches.append((ci, oi, q, str(verdict), mo))
            elif im != mo:
                mismatches.append((ci, oi, q, im, mo))
    oracle_fail = [(ci, f) for ci, r in enumerate(results) for f in r["oracle"]]

    if os.environ.get("VERIF_DEBUG"):
        from collections import Counter
        fkd = getattr(mod, "finding_key", lambda d, f: f)
        c = Counter(fkd(descs[ci], f) for ci, f in oracle_fail)
        print("DEBUG oracle failures by key:", dict(c))
        seen = set()
        for ci, f in oracle_fail:
            kk = fkd(descs[ci], f)
            if kk not in seen:
                seen.add(kk)
                print("DEBUG oracle:", json.dumps(descs[ci], default=str)[:300], "->", f[:400])
        print("DEBUG mismatches:", len(mismatches))
        seenq = set()
        for m in mismatches:
            kq = m[2].split(" ")[0]
            if kq in seenq and len(seenq) < 40:
                continue
            seenq.add(kq)
            print("DEBUG mismatch: case=%s req=%r impl=%r model=%r" % (json.dumps(descs[m[0]], default=str)[:300], m[2][:300], str(m[3])[:300], m[4][:300]))
        print("DEBUG broken:", lean["broken"], lean["log"][-1500:] if lean["broken"] else "")

    # ---- extended search when an obligation or the correspondence broke but no failing input is at hand
    broken = list(lean["broken"]) + harness_broken
    if mismatches:
        broken.append("correspondence(%s): %d observation(s) differ, first: request=%r impl=%r model=%r" % (
            mod.DRIVER, len(mismatches), mismatches[0][2][:300], mismatches[0][3][:300], mismatches[0][4][:300]))
    searched = 0
    if broken and not oracle_fail:
        rng2 = random.Random(seed * 7919 + 101)
        extra = list(mod.cases(rng2, "thorough" if tier == "quick" else "search"))
        limit = getattr(mod, "SEARCH_LIMIT", 4000)
        extra = extra[:limit]
        res2 = evaluate_all(mod, extra, 16)
        searched = len(extra)
        for d, r in zip(extra, res2):
            if "harness_error" in r:
                continue
            for f in r["oracle"]:
                descs.append(d)
                results.append(r)
                oracle_fail.append((len(descs) - 1, f))

    # ---- known findings
    known = [k for k in load_known() if k.get("property") == prop and k.get("status") == "open"]
    fk = getattr(mod, "finding_key", lambda d, f: f)
    printed = set()
    unknown_fail = []
    for ci, f in oracle_fail:
        key = fk(descs[ci], f)
        hit = [k for k in known if k.get("signature") == key]
        if hit:
            if hit[0]["key"] not in printed:
                printed.add(hit[0]["key"])
                print("KNOWN-FINDING: property=%s %s (%s)" % (prop, hit[0]["what"], hit[0]["key"]))
        else:
            unknown_fail.append((ci, f))
    # a mismatch explained only by known findings does not count as broken correspondence
    if mismatches and hasattr(mod, "mismatch_known"):
        rest = [m for m in mismatches if not mod.mismatch_known(descs[m[0]], m, known)]
        if not rest:
            broken = [b for b in broken if not b.startswith("correspondence(")]

    # ---- evidence
    keys = set(r["key"] for r in results if r.get("key") is not None)
    samples = []
    for d, r in list(zip(descs, results))[:3]:
        samples.append({"case": d, "requests": r["requests"][:3], "impl": [str(x) for x in r["impl"][:3]]})
    for n in lean["theorems"][:5]:
        samples.append({"obligation": n, "axioms": lean["axioms"].get(n)})
    n_th = len(lean["theorems"])
    n_bad = len([b for b in lean["broken"]])
    violations = 0
    status = 0

    replay_path = None
    if unknown_fail:
        ci, f = unknown_fail[0]
        d = descs[ci]

        known_sigs = set(k.get("signature") for k in known)

        def still(c):
            # a case keeps failing only through failures that are not recorded findings
            return any(fk(c, f2) not in known_sigs for f2 in mod.evaluate(c).oracle)

        d2 = shrink_case(mod, d, still)
        ev2 = mod.evaluate(d2)
        if not ev2.oracle:
            d2, ev2 = d, mod.evaluate(d)
        fails2 = [f2 for f2 in ev2.oracle if fk(d2, f2) not in known_sigs] or ev2.oracle
        payload = {"property": prop, "seed": seed, "tier": tier, "kind": "failing-input",
                   "case": d2, "oracle_failures": fails2 or [f], "original_case": d,
                   "broken_obligations": broken,
                   "replay_cmd": "./check %s --replay <this file>" % prop}
        replay_path = write_replay(prop, payload)
        print("VIOLATION property=%s replay=%s" % (prop, replay_path))
        violations = len(unknown_fail)
        status = 1
    elif broken:
        payload = {"property": prop, "seed": seed, "tier": tier, "kind": "no-failing-input-found",
                   "broken_obligations": broken, "searched_cases": searched + len(descs),
                   "unobservable_case": (None if not herr else {"case": herr[0][0], "error": herr[0][1]}),
                   "first_mismatch": (None if not mismatches else {
                       "case": descs[mismatches[0][0]], "request": mismatches[0][2],
                       "impl": mismatches[0][3], "model": mismatches[0][4]}),
                   "lean_log": lean["log"][-3000:]}
        replay_path = write_replay(prop, payload)
        print("VIOLATION property=%s replay=%s no-failing-input-found" % (prop, replay_path))
        violations = 1
        status = 1

    level = getattr(mod, "LEVEL", "proof")
    cov = {
        "obligations": max(n_th, 0),
        "discharged": max(n_th - (0 if lean["props_ok"] else max(1, n_bad)), 0),
        "checker_cmd": "cd lean && lake build %s && lake env lean .lake/audit_%s.lean  (#print axioms per theorem)%s" % (
            " ".join(mod.PROPS), mod.PROPS[0].split(".")[-1], "; " + "; ".join(checker_extra) if checker_extra else ""),
        "trusted_base": ["Lean 4.33 kernel", "axioms: propext, Classical.choice, Quot.sound only (audited per theorem)",
                         "harness/translate.py (tables regenerated from /repo on every run)",
                         "correspondence check harness/props/%s.py (differential, not a proof)" % prop.lower()] + list(mod.TRUSTED),
        "theorems": lean["theorems"],
        "evaluations": len(descs),
        "distinct_nontrivial": len(keys),
        "rule": mod.RULE,
        "samples": samples,
        "traces_validated_against_impl": len(descs),
        "observations_compared": n_obs,
        "disagreements_checked": len(mismatches),
        "oracle_failures": len(oracle_fail),
        "known_findings_printed": sorted(printed),
        "partial": list(getattr(mod, "PARTIAL", [])),
        "broken_obligations": broken,
        "search_cases": searched,
        "source_drift": {"files_differing_from_pinned_source": drifted[:20], "escalated_extra_cases": escalated},
    }
    if hasattr(mod, "distribution"):
        try:
            cov["input_distribution"] = mod.distribution(descs, results)
        except Exception as e:  # never let reporting kill a verdict
            cov["input_distribution"] = "error: %s" % e
    ev = {"property_id": prop, "tier": tier, "seed": seed, "level": level, "coverage": cov,
          "assumptions": list(mod.TRUSTED), "wall_s": round(time.time() - t0, 2), "violations": violations}
    os.makedirs(EVID, exist_ok=True)
    json.dump(ev, open(os.path.join(EVID, "%s.json" % prop), "w"), indent=1, default=str)
    if status == 0:
        print("PASS property=%s tier=%s seed=%d cases=%d observations=%d theorems=%d wall=%.1fs" % (
            prop, tier, seed, len(descs), n_obs, n_th, time.time() - t0))
    return status


def replay(mod, path):
    payload = json.load(open(path))
    if payload.get("kind") == "no-failing-input-found":
        print("replay file names broken obligations only:")
        for b in payload.get("broken_obligations", []):
            print("  ", b)
        fm = payload.get("first_mismatch")
        if fm:
            ev = mod.evaluate(fm["case"])
            print("first mismatch case re-evaluated: impl=%s" % ([str(x) for x in ev.impl][:5],))
        return 1
    ev = mod.evaluate(payload["case"])
    fk = getattr(mod, "finding_key", lambda d, f: f)
    known_sigs = set(k.get("signature") for k in load_known()
                     if k.get("property") == mod.PROPERTY and k.get("status") == "open")
    fails = [f for f in ev.oracle if fk(payload["case"], f) not in known_sigs]
    if fails:
        print("REPRODUCED property=%s: %s" % (mod.PROPERTY, fails[:3]))
        return 1
    print("not reproduced (the implementation now satisfies the oracle on this case)")
    return 0
