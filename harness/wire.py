"""Python side of the line protocol (mirror of lean/PartituraModel/Wire.lean)."""
from fractions import Fraction
import numbers


def s(x):
    """percent-encoded string token"""
    x = str(x)
    if x == "":
        return "%"
    out = []
    for ch in x:
        if ch.isalnum() or ch in "_.#:+=<>!?@^&*;'\"|~`$":
            out.append(ch)
        elif ord(ch) < 256:
            out.append("%%%02x" % ord(ch))
        else:
            raise ValueError("non-latin1 char in wire string")
    r = "".join(out)
    # tokens that could be read as the `-` (none) marker or as a bare `%`
    if r == "-":
        return "%2d"
    return r


def i(x):
    return "%d" % int(x)


def q(x):
    """rational token from int / Fraction / float (exact binary value)"""
    if isinstance(x, float):
        x = Fraction(*x.as_integer_ratio())
    x = Fraction(x)
    return "%d" % x.numerator if x.denominator == 1 else "%d/%d" % (x.numerator, x.denominator)


def opt(f, x):
    return "-" if x is None else f(x)


def lst(f, xs):
    xs = list(xs)
    return " ".join([str(len(xs))] + [f(x) for x in xs])


def b(x):
    return "1" if x else "0"


# ---- canonical response text (what the Lean fmt* helpers print)
def f_list(f, xs):
    return "[" + ",".join(f(x) for x in xs) + "]"


def f_tuple(*xs):
    return "(" + ",".join(xs) + ")"


def f_opt(f, x):
    return "-" if x is None else f(x)


def f_int(x):
    return "%d" % int(x)


def f_rat(x):
    return q(x)


def f_bool(x):
    return "1" if x else "0"


def as_fraction(x):
    """exact value of a numpy/python number"""
    if isinstance(x, Fraction):
        return x
    if isinstance(x, numbers.Integral):
        return Fraction(int(x))
    return Fraction(*float(x).as_integer_ratio())
