"""Translator for C01 (round 6): class-query wrappers and rich comparison -> lean/PartituraModel/Gen/C01Views.lean.

Everything is read from the LIVE source of the tree under test, on every run:

  * the read-only `Part` properties that are nothing but one `iter_all` call (`notes`, `measures`, `rests`,
    `repeats`, `key_sigs`, `time_sigs`, `dynamics`, `tempo_directions`, `cadences`, `harmony`, `phrases`,
    `articulations`, ...): for every `property` object in `vars(Part)` whose getter body (after the docstring) is a
    single `return list(self.iter_all(C, ...))` or `return [e for e in self.iter_all(C, ...)]` the table holds
    (name, class id of C, include_subclasses as written / omitted).  Properties with a filter (`notes_tied`) or with
    further statements (`segments` calls `add_segments(self)` first) are listed by name in `otherViews` and are not
    modelled;
  * the six rich comparisons of `ComparableMixin` (`__lt__` ... `__ne__`): the comparison symbol of the lambda each
    hands to `_compare` (normalised to "first lambda parameter <sym> second"), the order in which `_compare` hands
    over the two keys, and that `TimePoint._cmpkey` returns `self.t`.

Model/TimelineY.lean evaluates the views through `iterAllX` and the comparisons through `cmpEval`;
Props/C01Y.lean states what they mean (`view_any_history`, `documented_views`, `timepoint_compare`, ...): an edit of
a class, a flag or a comparison symbol re-elaborates those theorems.  When something has an unexpected form the
table is emitted with `extractionOk := false`.
"""
import ast
import inspect
import textwrap

FLIP = {"<": ">", ">": "<", "<=": ">=", ">=": "<=", "==": "==", "!=": "!="}
SYM = {ast.Lt: "<", ast.LtE: "<=", ast.Eq: "==", ast.GtE: ">=", ast.Gt: ">", ast.NotEq: "!="}
DUNDERS = ["__lt__", "__le__", "__eq__", "__ge__", "__gt__", "__ne__"]


def _body(fn):
    tree = ast.parse(textwrap.dedent(inspect.getsource(fn)))
    f = tree.body[0]
    body = f.body
    if body and isinstance(body[0], ast.Expr) and isinstance(getattr(body[0], "value", None), ast.Constant) \
            and isinstance(body[0].value.value, str):
        body = body[1:]
    return f, body


def _iter_all_call(node):
    """`self.iter_all(...)` -> the Call node, else None"""
    if (isinstance(node, ast.Call) and isinstance(node.func, ast.Attribute) and node.func.attr == "iter_all"
            and isinstance(node.func.value, ast.Name) and node.func.value.id == "self"):
        return node
    return None


def _view_of(fn):
    """(class name, include_subclasses or None) when the getter is one plain iter_all call, else None"""
    _, body = _body(fn)
    if len(body) != 1 or not isinstance(body[0], ast.Return):
        return None
    v = body[0].value
    call = None
    if isinstance(v, ast.Call) and isinstance(v.func, ast.Name) and v.func.id == "list" and len(v.args) == 1 \
            and not v.keywords:
        call = _iter_all_call(v.args[0])
    elif isinstance(v, ast.ListComp) and len(v.generators) == 1:
        g = v.generators[0]
        if (not g.ifs and isinstance(g.target, ast.Name) and isinstance(v.elt, ast.Name)
                and v.elt.id == g.target.id and not g.is_async):
            call = _iter_all_call(g.iter)
    if call is None:
        return None
    cls = None
    incl = None
    if len(call.args) > 1:
        return None
    if call.args:
        if not isinstance(call.args[0], ast.Name):
            return None
        cls = call.args[0].id
    for kw in call.keywords:
        if kw.arg == "cls" and isinstance(kw.value, ast.Name) and cls is None:
            cls = kw.value.id
        elif kw.arg == "include_subclasses" and isinstance(kw.value, ast.Constant) and isinstance(kw.value.value, bool):
            incl = kw.value.value
        else:
            return None
    if cls is None:
        return None
    return cls, incl


def view_tables():
    import partitura.score as S
    import translate_classes as TC

    classes, _ = TC.timed_classes()
    cid = {c: i for i, c in enumerate(classes)}
    views, other = [], []
    for name, attr in vars(S.Part).items():
        if not isinstance(attr, property) or attr.fget is None:
            continue
        try:
            _, body = _body(attr.fget)
        except (OSError, TypeError, SyntaxError):
            continue
        if not any(_iter_all_call(n) is not None for st in body for n in ast.walk(st)):
            continue
        v = _view_of(attr.fget)
        cls = getattr(S, v[0], None) if v is not None else None
        if v is not None and cls in cid:
            views.append((name, cid[cls], v[1]))
            continue
        # the getter is written in another way: determine what it returns BEHAVIOURALLY (one object of every
        # timed class on a part; which classes come back?) - a refactoring of the getter must not matter
        pure = all(
            (_iter_all_call(n) is not None or (isinstance(n.func, ast.Name) and n.func.id in ("list", "tuple")))
            for st in body for n in ast.walk(st) if isinstance(n, ast.Call)
        ) and not any(isinstance(n, (ast.If, ast.IfExp)) or (isinstance(n, ast.comprehension) and n.ifs)
                      for st in body for n in ast.walk(st))
        pv = _probe_view(S, classes, name) if pure else None
        if pv is None:
            other.append(name)
        else:
            views.append((name, cid[pv[0]], pv[1]))
    return views, other


def _probe_view(S, classes, name):
    """(class, include_subclasses) such that `part.<name>` returns exactly the instances of that class (and, with the
    flag, of its subclasses) in time order and leaves the part alone; None when it does anything else"""
    import warnings

    try:
        with warnings.catch_warnings():
            warnings.simplefilter("ignore")
            p = S.Part("probe")
            objs = []
            for i, c in enumerate(classes):
                o = c.__new__(c)
                S.TimedObject.__init__(o)
                p.add(o, 2 * i, 2 * i + 1)
                objs.append(o)
            def snap():
                return [(tp.t, [id(x) for oo in tp.starting_objects.values() for x in oo],
                         [id(x) for oo in tp.ending_objects.values() for x in oo]) for tp in p._points]

            before = snap()
            res = list(getattr(p, name))
            after = snap()
    except Exception:
        return None
    if before != after or any(not any(r is o for o in objs) for r in res):
        return None
    if [id(r) for r in res] != [id(o) for o in objs if any(r is o for r in res)] or len(set(map(id, res))) != len(res):
        return None
    got = set(type(r) for r in res)
    for c in classes:
        if got == {c}:
            return (c, False)
        if got == set(d for d in classes if issubclass(d, c)) and len(got) > 1:
            return (c, True)
    return None


def compare_tables():
    import partitura.score as S
    from partitura.utils.generic import ComparableMixin

    lam = []
    for d in DUNDERS:
        fn = vars(ComparableMixin).get(d)
        if fn is None:
            raise ValueError("ComparableMixin has no %s" % d)
        f, body = _body(fn)
        if len(body) != 1 or not isinstance(body[0], ast.Return):
            raise ValueError("%s: body is not one return" % d)
        c = body[0].value
        if not (isinstance(c, ast.Call) and isinstance(c.func, ast.Attribute) and c.func.attr == "_compare"
                and len(c.args) == 2 and isinstance(c.args[1], ast.Lambda)):
            raise ValueError("%s: not self._compare(other, lambda ...)" % d)
        other_name = f.args.args[1].arg
        if not (isinstance(c.args[0], ast.Name) and c.args[0].id == other_name):
            raise ValueError("%s: first argument of _compare is not the other operand" % d)
        la = c.args[1]
        ps = [a.arg for a in la.args.args]
        b = la.body
        if not (len(ps) == 2 and isinstance(b, ast.Compare) and len(b.ops) == 1 and type(b.ops[0]) in SYM
                and isinstance(b.left, ast.Name) and isinstance(b.comparators[0], ast.Name)):
            raise ValueError("%s: lambda is not a single comparison of its two parameters" % d)
        sym = SYM[type(b.ops[0])]
        if (b.left.id, b.comparators[0].id) == (ps[0], ps[1]):
            pass
        elif (b.left.id, b.comparators[0].id) == (ps[1], ps[0]):
            sym = FLIP[sym]
        else:
            raise ValueError("%s: lambda compares something else" % d)
        lam.append((d, sym))
    # _compare: method(self._cmpkey(), other._cmpkey())
    f, body = _body(ComparableMixin._compare)
    calls = [n for st in body for n in ast.walk(st)
             if isinstance(n, ast.Call) and isinstance(n.func, ast.Name) and n.func.id == f.args.args[2].arg]
    if len(calls) != 1 or len(calls[0].args) != 2:
        raise ValueError("_compare: not one call of the method")

    def key_of(a):
        if (isinstance(a, ast.Call) and isinstance(a.func, ast.Attribute) and a.func.attr == "_cmpkey"
                and isinstance(a.func.value, ast.Name) and not a.args):
            return a.func.value.id
        raise ValueError("_compare: argument is not x._cmpkey()")

    order = (key_of(calls[0].args[0]), key_of(calls[0].args[1]))
    me, other = f.args.args[0].arg, f.args.args[1].arg
    if order == (me, other):
        swapped = False
    elif order == (other, me):
        swapped = True
    else:
        raise ValueError("_compare: keys of %r" % (order,))
    # TimePoint._cmpkey: return self.t
    f, body = _body(S.TimePoint._cmpkey)
    ok = (len(body) == 1 and isinstance(body[0], ast.Return) and isinstance(body[0].value, ast.Attribute)
          and body[0].value.attr == "t" and isinstance(body[0].value.value, ast.Name)
          and body[0].value.value.id == f.args.args[0].arg)
    if "_cmpkey" in vars(S.TimePoint) and any(d in vars(S.TimePoint) for d in DUNDERS):
        raise ValueError("TimePoint overrides a rich comparison")
    return lam, swapped, ok


def staves_tables():
    """the `for e in self.iter_all(C, include_subclasses=…)` loops of Part.compute_number_of_staves, in order, and
    the initial value of `max_staves`"""
    import partitura.score as S
    import translate_classes as TC

    classes, _ = TC.timed_classes()
    cid = {c: i for i, c in enumerate(classes)}
    f, body = _body(S.Part.compute_number_of_staves)
    qs = []
    init = None
    for st in body:
        if isinstance(st, ast.Assign) and len(st.targets) == 1 and isinstance(st.targets[0], ast.Name) \
                and isinstance(st.value, ast.Constant) and isinstance(st.value.value, int) and init is None and not qs:
            init = st.value.value
        elif isinstance(st, ast.For):
            call = _iter_all_call(st.iter)
            if call is None or len(call.args) != 1 or not isinstance(call.args[0], ast.Name):
                raise ValueError("compute_number_of_staves: loop is not over self.iter_all(C, ...)")
            incl = False
            for kw in call.keywords:
                if kw.arg == "include_subclasses" and isinstance(kw.value, ast.Constant) and isinstance(kw.value.value, bool):
                    incl = kw.value.value
                else:
                    raise ValueError("compute_number_of_staves: unexpected keyword %s" % kw.arg)
            cls = getattr(S, call.args[0].id, None)
            if cls not in cid:
                raise ValueError("compute_number_of_staves: %s is not a timed class" % call.args[0].id)
            qs.append((cid[cls], incl))
    if init is None or init < 0 or not qs:
        raise ValueError("compute_number_of_staves: no initial value / no loops")
    return init, qs


def _s(x):
    return '"%s"' % x.replace("\\", "\\\\").replace('"', '\\"')


def gen_c01views():
    ok, why = True, ""
    try:
        views, other = view_tables()
        lam, swapped, key_t = compare_tables()
        st_init, st_qs = staves_tables()
    except Exception as e:  # unexpected form: only the round-6 theorems stop building
        ok, why = False, "%s: %s" % (type(e).__name__, e)
        views, other, lam, swapped, key_t = [], [], [], False, False
        st_init, st_qs = 0, []
    out = []
    w = out.append
    w("/- GENERATED by harness/translate_c01views.py from the live partitura.score / partitura.utils.generic of the")
    w("   tree under test (the `Part` properties that are one `iter_all` call; the lambdas of ComparableMixin).")
    w("   Do not edit. -/")
    w("namespace Gen.C01Views\n")
    w("/-- false when the source no longer has a form the translator understands%s -/" % (
        "" if ok else " (" + why.replace("-/", "- /")[:200] + ")"))
    w("def extractionOk : Bool := %s\n" % ("true" if ok else "false"))
    w("/-- (property name, class id, `include_subclasses` as written; none = omitted): the getter is")
    w("`return list(self.iter_all(C, include_subclasses=…))` or the identity comprehension over it -/")
    w("def views : List (String × Nat × Option Bool) := [")
    w(",\n".join("  (%s, %d, %s)" % (_s(n), c, "none" if i is None else ("some true" if i else "some false"))
                 for n, c, i in views))
    w("]\n")
    w("/-- properties that call `iter_all` but filter the result or do something else as well (not modelled) -/")
    w("def otherViews : List String := [%s]\n" % ", ".join(_s(n) for n in other))
    w("/-- `ComparableMixin.__xx__(self, other)`: `self._compare(other, lambda s, o: s <sym> o)` -/")
    w("def cmpLambdas : List (String × String) := [%s]" % ", ".join("(%s, %s)" % (_s(d), _s(s)) for d, s in lam))
    w("/-- `_compare` calls `method(other._cmpkey(), self._cmpkey())` instead of `method(self._cmpkey(), other._cmpkey())` -/")
    w("def compareSwapped : Bool := %s" % ("true" if swapped else "false"))
    w("/-- `TimePoint._cmpkey` is `return self.t` -/")
    w("def cmpKeyIsT : Bool := %s\n" % ("true" if key_t else "false"))
    w("/-- `Part.compute_number_of_staves`: `max_staves = <init>`, then one loop per entry over")
    w("`self.iter_all(C, include_subclasses=…)` (class id, flag; an omitted flag is the default False) -/")
    w("def stavesInit : Nat := %d" % st_init)
    w("def stavesQueries : List (Nat × Bool) := [%s]\n" % ", ".join(
        "(%d, %s)" % (c, "true" if i else "false") for c, i in st_qs))
    w("end Gen.C01Views")
    return "\n".join(out) + "\n"


GENERATORS = {"C01Views.lean": gen_c01views}

if __name__ == "__main__":
    print(gen_c01views())
