#!/bin/bash
# usage: runseeds5.sh Cxx-i Cxx-j ...   (confirm demo + suite, run the check from the pristine snapshot)
cd /verif
for x in "$@"; do id=${x%-*}
 (cd /tmp && PYTHONPATH=/repo /venv/bin/python -W ignore /tmp/seed-$x/seed_demo.py >/dev/null 2>&1; r1=$?; PYTHONPATH=/tmp/seed-$x /venv/bin/python -W ignore /tmp/seed-$x/seed_demo.py >/dev/null 2>&1; echo "$x demo repo=$r1 seed=$?" > /tmp/demo-$x.out)
 (/venv/bin/python harness/suite_compare.py /tmp/seed-$x > /tmp/suite-$x.out 2>&1 &)
 (harness/seedrun5.sh /tmp/seed-$x $id quick > /tmp/seedrun-$x.out 2>&1 &)
 sleep 2
done
