"""Translator for C14: every constant the performed-part model needs, read from the LIVE partitura source
-> lean/PartituraModel/Gen/C14Tables.lean.

Nothing is matched against the text of the source (a local may be renamed, a literal rewritten, statements reordered):
keyword defaults come from `inspect.signature`, everything else is obtained by CALLING the live functions on small
probes and reading the result back:

  defaultThreshold / defaultPpq / defaultMpq   signature of PerformedPart.__init__
  adjustDefaultThreshold                       signature of adjust_offsets_w_sustain
  ensureUniqueDefault / uniqueIdDefault        signatures of Performance.__init__ / note_array_from_part_list
  pedalNumbers                                 the controller numbers 0..127 whose events extend a note held across them
  pedalDownAtThreshold / pedalDownAbove        is a pedal value == threshold / == threshold + 1 "down"
  closePadPedal / closePadOff                  the closing sentinel of a pedal that is never released, measured from the
                                               last pedal event / the last release
  velDefault trackDefault chanDefault idDefaultIsNone   read back from PerformedNote({pitch, note_on, note_off})
  missingOn / missingOff / soundOffFollowsOff  read back from a PerformedNote whose validators are switched off
  pitchFromMidi / midiFromPitch                the two pitch keys fill each other in
  acceptedKeys                                 the keys of KEY_UNIVERSE for which `note[key] = <valid value>` is no KeyError
  pitchLo pitchHi velLo velHi                  the values -3..131 the constructor accepts for pitch / velocity
  onLo onTickLo                                the least accepted note_on / note_on_tick out of -3..3
  noteArrayFields                              dtype of PerformedPart.note_array()
  fromArrayMandatory / fromArrayOptional       columns whose removal makes from_note_array raise / the others it reads
  fromArrayIgnored                             columns whose removal changes nothing
  fromArrayTrackDefault / ChanDefault / IdHead the values a rebuilt note gets without the column
  missingTrack                                 the track number a control without `track` is counted under (num_tracks)
  idPrefixHead / Width / Tail                  the id prefix of part i in Performance.note_array()  ("P", 2, "_")

The generator never raises (the shared translator must keep working for the other properties): what cannot be
obtained is emitted with the value of the unchanged source and `extractionOk` becomes `false` with the reasons in
`extractionNotes`; `C14.tables_extracted` (Props/C14Tables.lean) then no longer builds.
"""
import inspect
import re
import warnings

KEY_UNIVERSE = ["id", "pitch", "midi_pitch", "note_on", "note_off", "sound_off", "velocity", "track", "channel",
                "note_on_tick", "note_off_tick", "foo", "onset_sec", "duration_sec"]


def _lstr(s):
    out = ['"']
    for ch in str(s):
        if ch == '"':
            out.append('\\"')
        elif ch == "\\":
            out.append("\\\\")
        elif ord(ch) < 32 or ord(ch) > 126:
            out.append("\\u{%x}" % ord(ch))
        else:
            out.append(ch)
    out.append('"')
    return "".join(out)


def _lint(i):
    i = int(i)
    return "(%d)" % i if i < 0 else "%d" % i


def _lbool(b):
    return "true" if b else "false"


def _llist(items):
    return "[" + ", ".join(items) + "]"


def _lrat(x):
    from fractions import Fraction

    f = Fraction(x) if not isinstance(x, float) else Fraction(*x.as_integer_ratio())
    if f.denominator == 1:
        return "(%d : Rat)" % f.numerator
    return "((%d : Rat) / %d)" % (f.numerator, f.denominator)


class _Notes(list):
    def attempt(self, what, fn, fallback):
        try:
            with warnings.catch_warnings():
                warnings.simplefilter("ignore")
                v = fn()
            if v is None:
                raise ValueError("no value")
            return v
        except Exception as e:  # noqa
            self.append("%s: %s: %s" % (what, type(e).__name__, str(e)[:80]))
            return fallback


def _default(fn, name):
    p = inspect.signature(fn).parameters[name]
    if p.default is inspect.Parameter.empty:
        raise ValueError("no default for %s" % name)
    return p.default


def _note(**kw):
    d = dict(id="a", midi_pitch=60, note_on=0.0, note_off=1.0, velocity=64, track=0, channel=1)
    d.update(kw)
    return d


def _ctl(number, time, value, **kw):
    d = dict(type="cc", number=number, time=time, value=value, channel=1)
    d.update(kw)
    return d


def gen_c14():
    notes = _Notes()
    try:
        import partitura.performance as P
        import partitura.utils.music as M
    except Exception as e:  # noqa
        P = M = None
        notes.append("import: %s" % e)

    A = notes.attempt

    # ------------------------------------------------------------------ keyword defaults
    thr = A("defaultThreshold", lambda: int(_default(P.PerformedPart.__init__, "sustain_pedal_threshold")), 64)
    ppq = A("defaultPpq", lambda: int(_default(P.PerformedPart.__init__, "ppq")), 480)
    mpq = A("defaultMpq", lambda: int(_default(P.PerformedPart.__init__, "mpq")), 500000)
    athr = A("adjustDefaultThreshold", lambda: int(_default(P.adjust_offsets_w_sustain, "threshold")), 64)
    ens = A("ensureUniqueDefault", lambda: bool(_default(P.Performance.__init__, "ensure_unique_tracks")), True)
    uid = A("uniqueIdDefault", lambda: bool(_default(M.note_array_from_part_list, "unique_id_per_part")), True)

    # ------------------------------------------------------------------ the pedal
    def sound(controls, t=50, ns=None):
        ns = ns or [_note(note_on=0.0, note_off=2.0)]
        P.adjust_offsets_w_sustain(ns, controls, t)
        return [float(n["sound_off"]) for n in ns]

    def pedal_numbers():
        return [k for k in range(128) if sound([_ctl(k, 1.0, 100), _ctl(k, 5.0, 0)])[0] != 2.0]

    pnums = A("pedalNumbers", pedal_numbers, [64])
    pn = pnums[0] if pnums else 64
    at_thr = A("pedalDownAtThreshold", lambda: sound([_ctl(pn, 1.0, 50), _ctl(pn, 5.0, 0)])[0] != 2.0, False)
    above = A("pedalDownAbove", lambda: sound([_ctl(pn, 1.0, 51), _ctl(pn, 5.0, 0)])[0] != 2.0, True)
    # never released: the closing sentinel, measured from the last pedal event (7 > release 2) / the last release (2 > 1)
    pad_p = A("closePadPedal", lambda: sound([_ctl(pn, 1.0, 100), _ctl(pn, 7.0, 100)])[0] - 7.0, 1.0)
    pad_o = A("closePadOff", lambda: sound([_ctl(pn, 1.0, 100)])[0] - 2.0, 1.0)

    # ------------------------------------------------------------------ PerformedNote: defaults of missing keys
    def read_defaults():
        n = P.PerformedNote({"pitch": 60, "note_on": 0.0, "note_off": 1.0})
        return (int(n["velocity"]), int(n["track"]), int(n["channel"]), n["id"] is None, float(n["sound_off"]) == 1.0,
                int(n["midi_pitch"]) == 60)

    vel_d, tr_d, ch_d, id_none, so_follows, midi_from_pitch = A("note defaults", read_defaults, (60, 0, 1, True, True, True))
    pitch_from_midi = A("pitchFromMidi", lambda: int(P.PerformedNote({"midi_pitch": 61, "note_on": 0.0, "note_off": 1.0})["pitch"]) == 61, True)

    warnings_only = []

    def read_missing():
        # the same constructor with every validator switched off (whatever the validating methods are called)
        Lax = type("Lax", (P.PerformedNote,), {name: (lambda self, *a, **k: None) for name in dir(P.PerformedNote)
                                                if name.startswith("_validate")})
        n = Lax({"pitch": 60})
        return int(n["note_on"]), int(n["note_off"]), n["sound_off"] == n["note_off"]

    try:
        miss_on, miss_off, so_follows2 = read_missing()
    except Exception as e:  # noqa - not observable without the validators' names: keep the values of the unchanged source
        miss_on, miss_off, so_follows2 = -1, -1, True
        warnings_only.append("missing times not observable: %s" % str(e)[:60])
    so_follows = so_follows and so_follows2

    # ------------------------------------------------------------------ __setitem__: accepted keys, validators' ranges
    def accepted():
        good = {"id": "x", "pitch": 61, "midi_pitch": 61, "note_on": 0.5, "note_off": 3.0, "sound_off": 4.0, "velocity": 3,
                "track": 2, "channel": 2, "note_on_tick": 1, "note_off_tick": 5}
        out = []
        for k in KEY_UNIVERSE:
            n = P.PerformedNote({"pitch": 60, "note_on": 0.0, "note_off": 1.0})
            try:
                n[k] = good.get(k, 1)
                out.append(k)
            except KeyError:
                pass
        return out

    acc = A("acceptedKeys", accepted, ["id", "pitch", "note_on", "note_off", "sound_off", "velocity", "track", "channel",
                                       "note_on_tick", "note_off_tick"])

    def ok_range(key, lo, hi):
        good = []
        for v in range(lo, hi + 1):
            try:
                P.PerformedNote(dict({"pitch": 60, "note_on": 0.0, "note_off": 200.0}, **{key: v}))
                good.append(v)
            except ValueError:
                pass
        if not good or good != list(range(good[0], good[-1] + 1)):
            raise ValueError("accepted values of %s are no interval: %s" % (key, good[:5]))
        return good[0], good[-1]

    p_lo, p_hi = A("pitch range", lambda: ok_range("pitch", -3, 131), (0, 127))
    v_lo, v_hi = A("velocity range", lambda: ok_range("velocity", -3, 131), (0, 127))
    on_lo = A("onLo", lambda: ok_range("note_on", -3, 3)[0], 0)
    ont_lo = A("onTickLo", lambda: ok_range("note_on_tick", -3, 3)[0], 0)

    # ------------------------------------------------------------------ note_array / from_note_array
    def fields():
        na = P.PerformedPart([_note()]).note_array()
        return [(name, na.dtype[name].str.lstrip("<>=|")) for name in na.dtype.names]

    flds = A("noteArrayFields", fields, [("onset_sec", "f4"), ("duration_sec", "f4"), ("onset_tick", "i4"), ("duration_tick", "i4"),
                                          ("pitch", "i4"), ("velocity", "i4"), ("track", "i4"), ("channel", "i4"), ("id", "U256")])

    def from_array():
        pp = P.PerformedPart([_note(id="a", track=3, channel=5, velocity=70), _note(id="b", midi_pitch=62, note_on=1.0, note_off=2.5,
                                                                                    track=4, channel=6, velocity=71)], ppq=96, mpq=250000)
        na = pp.note_array()
        names = list(na.dtype.names)

        def view(q):
            return [(n["id"], int(n["pitch"]), float(n["note_on"]), float(n["note_off"]), float(n["sound_off"]),
                     int(n["velocity"]), int(n["track"]), int(n["channel"])) for n in q.notes]

        full = view(P.PerformedPart.from_note_array(na))
        mand, opt, ign = [], [], []
        dflt = {}
        for c in names:
            sub = na[[x for x in names if x != c]]
            try:
                v = view(P.PerformedPart.from_note_array(sub))
            except Exception:  # noqa
                mand.append(c)
                continue
            if v == full:
                ign.append(c)
            else:
                opt.append(c)
                dflt[c] = v
        q = P.PerformedPart.from_note_array(na)
        return mand, opt, ign, dflt, int(q.ppq), int(q.mpq), int(q.sustain_pedal_threshold)

    fa = A("from_note_array", from_array, None)
    if fa is None:
        fa_mand, fa_opt, fa_ign = ["onset_sec", "duration_sec", "pitch", "velocity"], ["track", "channel", "id"], ["onset_tick", "duration_tick"]
        fa_tr, fa_ch, fa_head = 0, 1, "n"
    else:
        fa_mand, fa_opt, fa_ign, dflt, qppq, qmpq, qthr = fa
        if (qppq, qmpq, qthr) != (ppq, mpq, thr):
            notes.append("from_note_array: the rebuilt part has ppq/mpq/threshold %s, the defaults are %s" % ((qppq, qmpq, qthr), (ppq, mpq, thr)))
        fa_tr = dflt["track"][0][6] if "track" in dflt else 0
        fa_ch = dflt["channel"][0][7] if "channel" in dflt else 1
        ids = [r[0] for r in dflt.get("id", [("n0",), ("n1",)])]
        m = [re.match(r"^(\D*)(\d+)$", str(i)) for i in ids]
        if all(m) and [int(x.group(2)) for x in m] == list(range(len(ids))) and len(set(x.group(1) for x in m)) == 1:
            fa_head = m[0].group(1)
        else:
            fa_head = "n"
            notes.append("from_note_array: ids without an id column are %s" % ids)

    # ------------------------------------------------------------------ tracks
    def missing_track():
        hits = []
        for t in range(-4, 5):
            pp = P.PerformedPart([], controls=[_ctl(pn, 0.0, 0), _ctl(pn, 0.0, 0, track=t)])
            if pp.num_tracks == 1:
                hits.append(t)
        if len(hits) != 1:
            raise ValueError("a control without track is counted under %s" % hits)
        return hits[0]

    miss_tr = A("missingTrack", missing_track, -1)

    def id_prefix():
        pps = [P.PerformedPart([_note(id="q")]) for _ in range(12)]
        ids = [str(x) for x in P.Performance(pps).note_array()["id"]]
        got = {}
        for s in ids:
            m = re.match(r"^(\D*)(\d+)(\D*)q$", s)
            if not m:
                raise ValueError("id %r" % s)
            got[int(m.group(2))] = (m.group(1), m.group(2), m.group(3))
        if sorted(got) != list(range(12)) or len(set((h, t) for h, _, t in got.values())) != 1:
            raise ValueError("ids %s" % ids[:3])
        width = len(got[0][1])
        if any(len(got[i][1]) != max(width, len(str(i))) for i in got):
            raise ValueError("the part number is not zero-padded to one width: %s" % ids[:3])
        return got[0][0], width, got[0][2]

    pre_h, pre_w, pre_t = A("id prefix", id_prefix, ("P", 2, "_"))

    # ------------------------------------------------------------------ emit
    out = []
    w = out.append
    w("/- GENERATED by harness/translate_c14.py from the live partitura source (performance.py, utils/music.py):")
    w("   keyword defaults by inspect.signature, everything else by calling the live functions on probes.  Do not edit. -/")
    w("namespace Gen.C14\n")
    w("/-- `PerformedPart.__init__`: defaults of `sustain_pedal_threshold`, `ppq`, `mpq` -/")
    w("def defaultThreshold : Int := %s" % _lint(thr))
    w("def defaultPpq : Nat := %d" % max(0, ppq))
    w("def defaultMpq : Nat := %d" % max(0, mpq))
    w("/-- `adjust_offsets_w_sustain`: default of `threshold` -/")
    w("def adjustDefaultThreshold : Int := %s" % _lint(athr))
    w("/-- `Performance.__init__(ensure_unique_tracks=…)`, `note_array_from_part_list(unique_id_per_part=…)` -/")
    w("def ensureUniqueDefault : Bool := %s" % _lbool(ens))
    w("def uniqueIdDefault : Bool := %s\n" % _lbool(uid))
    w("/-- the controller numbers (0..127) whose events hold a note: `x[\"number\"] == …` -/")
    w("def pedalNumbers : List Int := %s" % _llist(_lint(k) for k in pnums))
    w("def pedalNumber : Int := %s" % _lint(pn))
    w("/-- is a pedal value equal to the threshold / one above it \"down\" -/")
    w("def pedalDownAtThreshold : Bool := %s" % _lbool(at_thr))
    w("def pedalDownAbove : Bool := %s" % _lbool(above))
    w("/-- the closing sentinel of a pedal that is never released: seconds after the last pedal event / the last release -/")
    w("def closePadPedal : Rat := %s" % _lrat(pad_p))
    w("def closePadOff : Rat := %s\n" % _lrat(pad_o))
    w("/-- `PerformedNote(d)`: what a missing key is filled in with -/")
    w("def velDefault : Int := %s" % _lint(vel_d))
    w("def trackDefault : Int := %s" % _lint(tr_d))
    w("def chanDefault : Int := %s" % _lint(ch_d))
    w("def idDefaultIsNone : Bool := %s" % _lbool(id_none))
    w("def missingOn : Rat := %s" % _lrat(miss_on))
    w("def missingOff : Rat := %s" % _lrat(miss_off))
    w("def soundOffFollowsOff : Bool := %s" % _lbool(so_follows))
    w("def pitchFromMidi : Bool := %s" % _lbool(pitch_from_midi))
    w("def midiFromPitch : Bool := %s\n" % _lbool(midi_from_pitch))
    w("/-- the keys `note[key] = value` accepts, out of %s -/" % ", ".join(KEY_UNIVERSE))
    w("def keyUniverse : List String := %s" % _llist(_lstr(k) for k in KEY_UNIVERSE))
    w("def acceptedKeys : List String := %s" % _llist(_lstr(k) for k in acc))
    w("/-- the accepted values of pitch / velocity (an interval), the least accepted `note_on` / `note_on_tick` -/")
    w("def pitchLo : Int := %s" % _lint(p_lo))
    w("def pitchHi : Int := %s" % _lint(p_hi))
    w("def velLo : Int := %s" % _lint(v_lo))
    w("def velHi : Int := %s" % _lint(v_hi))
    w("def onLo : Int := %s" % _lint(on_lo))
    w("def onTickLo : Int := %s\n" % _lint(ont_lo))
    w("/-- the columns of `PerformedPart.note_array()` with their dtypes -/")
    w("def noteArrayFields : List (String × String) := %s" % _llist("(%s, %s)" % (_lstr(a), _lstr(b)) for a, b in flds))
    w("/-- `from_note_array`: columns it cannot do without / reads when present / ignores -/")
    w("def fromArrayMandatory : List String := %s" % _llist(_lstr(k) for k in fa_mand))
    w("def fromArrayOptional : List String := %s" % _llist(_lstr(k) for k in fa_opt))
    w("def fromArrayIgnored : List String := %s" % _llist(_lstr(k) for k in fa_ign))
    w("def fromArrayTrackDefault : Int := %s" % _lint(fa_tr))
    w("def fromArrayChanDefault : Int := %s" % _lint(fa_ch))
    w("def fromArrayIdHead : String := %s\n" % _lstr(fa_head))
    w("/-- `.get(\"track\", …)` of `num_tracks` / `sanitize_track_numbers` -/")
    w("def missingTrack : Int := %s" % _lint(miss_tr))
    w("/-- the id prefix of part i in `Performance.note_array()`: head, zero-padded width of i, tail -/")
    w("def idPrefixHead : String := %s" % _lstr(pre_h))
    w("def idPrefixWidth : Nat := %d" % pre_w)
    w("def idPrefixTail : String := %s\n" % _lstr(pre_t))
    w("/-- everything above could be obtained from the live source -/")
    w("def extractionOk : Bool := %s" % _lbool(not notes))
    w("def extractionNotes : List String := %s" % _llist(_lstr(n) for n in notes))
    w("/-- values that could not be observed and were assumed (no theorem depends on this list) -/")
    w("def extractionAssumed : List String := %s\n" % _llist(_lstr(n) for n in warnings_only))
    w("end Gen.C14")
    return "\n".join(out) + "\n"


# ---------------------------------------------------------------------------------- round 6: Gen/C14Order.lean
ORDER_KEYS = ["id", "pitch", "note_on", "note_off", "sound_off", "velocity", "track", "channel"]


def gen_c14_order():
    """the comparison protocol of PerformedNote (`<`, `==`, `hash`, `str`) and the constants of seconds_to_midi_ticks,
    obtained by CALLING the live code on probes (two notes that differ in exactly one key)"""
    notes = _Notes()
    out = []
    w = out.append
    w("/- GENERATED by harness/translate_c14.py (gen_c14_order) from the live partitura source (performance.py,")
    w("   utils/music.py) by calling the live functions on probes.  Do not edit. -/")
    w("namespace Gen.C14Order\n")

    def pair(key):
        import partitura.performance as P

        base = dict(id="a", pitch=60, note_on=1.0, note_off=2.0, sound_off=4.0, velocity=64, track=1, channel=1)
        hi = dict(base)
        hi[key] = {"id": "b", "pitch": 61, "note_on": 1.5, "note_off": 3.0, "sound_off": 5.0, "velocity": 65, "track": 2,
                   "channel": 2}[key]
        return P.PerformedNote(dict(base)), P.PerformedNote(hi)

    def order_keys():
        ks = []
        for k in ORDER_KEYS:
            a, b = pair(k)
            lt, gt = bool(a < b), bool(b > a)
            if lt != gt or bool(b < a) or bool(a >= b) == lt or bool(b <= a) == lt:
                raise ValueError("the four comparisons disagree on key %s" % k)
            if lt:
                ks.append(k)
        a, _ = pair("id")
        if bool(a < a) or not bool(a <= a) or bool(a > a) or not bool(a >= a):
            raise ValueError("`<` is not strict / `<=` not reflexive")
        return ks

    def hash_keys():
        ks = []
        for k in ORDER_KEYS:
            a, b = pair(k)
            if hash(a) != hash(b):
                ks.append(k)
        return ks

    def eq_blind():
        ks = []
        for k in ORDER_KEYS:
            a, b = pair(k)
            if bool(a == b):
                ks.append(k)
        a, _ = pair("id")
        c, _ = pair("id")
        if not bool(a == c) or bool(a == dict(a.pnote_dict)):
            raise ValueError("`==` of equal notes is false / of a note and a dict is true")
        return ks

    def str_head():
        a, _ = pair("id")
        s = str(a)
        if not s.endswith("a"):
            raise ValueError("str(note) does not end with the id")
        return s[:-1]

    def tick_scale():
        from partitura.utils.music import seconds_to_midi_ticks

        return int(seconds_to_midi_ticks(1, mpq=1, ppq=1))

    def tick_half_even():
        from partitura.utils.music import seconds_to_midi_ticks

        # with mpq = 2e6, ppq = 1 one second is half a tick
        got = [int(seconds_to_midi_ticks(t, mpq=2000000, ppq=1)) for t in (1, 3, 5, 7, -1, -3)]
        if got != [0, 2, 2, 4, 0, -2]:
            raise ValueError("ties are not rounded to even: %s" % got)
        return True

    def tick_defaults():
        from partitura.utils.music import seconds_to_midi_ticks, midi_ticks_to_seconds

        a = (_default(seconds_to_midi_ticks, "mpq"), _default(seconds_to_midi_ticks, "ppq"))
        b = (_default(midi_ticks_to_seconds, "mpq"), _default(midi_ticks_to_seconds, "ppq"))
        if a != b:
            raise ValueError("the two conversions have different defaults")
        return a

    oks = notes.attempt("orderKeys", order_keys, ["note_on"])
    hks = notes.attempt("hashKeys", hash_keys, ["id"])
    ebl = notes.attempt("eqBlindKeys", eq_blind, [])
    head = notes.attempt("strHead", str_head, "PerformedNote: ")
    scale = notes.attempt("tickScale", tick_scale, 1000000)
    he = notes.attempt("tickHalfEven", tick_half_even, True)
    tmpq, tppq = notes.attempt("tickDefaults", tick_defaults, (500000, 480))
    w("/-- the keys out of %s in which two notes must differ for `a < b` to hold (all else equal) -/" % ", ".join(ORDER_KEYS))
    w("def orderKeys : List String := %s" % _llist(_lstr(k) for k in oks))
    w("/-- the keys a difference in which changes `hash(note)` -/")
    w("def hashKeys : List String := %s" % _llist(_lstr(k) for k in hks))
    w("/-- the keys a difference in which `a == b` does not see -/")
    w("def eqBlindKeys : List String := %s" % _llist(_lstr(k) for k in ebl))
    w("/-- `str(note)` without the id -/")
    w("def strHead : String := %s\n" % _lstr(head))
    w("/-- `seconds_to_midi_ticks`: ticks of one second at mpq = ppq = 1; ties go to the even tick; keyword defaults -/")
    w("def tickScale : Nat := %d" % scale)
    w("def tickHalfEven : Bool := %s" % _lbool(he))
    w("def tickDefaultMpq : Nat := %d" % tmpq)
    w("def tickDefaultPpq : Nat := %d\n" % tppq)
    w("def extractionOk : Bool := %s" % _lbool(not notes))
    w("def extractionNotes : List String := %s\n" % _llist(_lstr(n) for n in notes))
    w("end Gen.C14Order")
    return "\n".join(out) + "\n"


GENERATORS = {"C14Tables.lean": gen_c14, "C14Order.lean": gen_c14_order}

if __name__ == "__main__":
    print(gen_c14())
