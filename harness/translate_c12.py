"""Translator for C12: the literals the conversion functions carry in their own bodies
-> lean/PartituraModel/Gen/C12Tables.lean   (namespace Gen.C12).

`harness/translate.py` regenerates the module-level tables (MIDI_BASE_CLASS, MAJOR_KEYS, LABEL_DURS, ...).  This file
reads, from the LIVE source (ast of `inspect.getsource`, nothing is executed except `re`'s own parser on the pattern
string and `inspect.signature`), what is written INSIDE the functions the property is anchored in:

  mode tuples        the `if mode in (...) / elif mode in (...) / else raise` chains of fifths_mode_to_key_name,
                     key_mode_to_int, key_int_to_mode, with what each branch selects (key list + suffix / int / str)
  fifths range       `if not LO <= fifths <= HI: raise` and the index offset of `keylist[fifths + OFF]`
  fifths_list        the list literal of key_name_to_fifths_mode
  ladders            the two quality ladders of Interval.change_quality and the numbers that use the first one
  note-name pattern  NOTE_NAME_PATT parsed by `re`: step class, accidental class, digit group
  arithmetic consts  12 / 1 of the pitch<->spelling formulas, 32 / 9 / 12 / 2 of the frequency formulas, the 1e6 of the
                     tick formulas, 60 and 10**6 of Tempo.microseconds_per_quarter with its default unit
  defaults           mpq / ppq / a4 / mode / direction / unit defaults (inspect.signature)

Names of locals do not matter (a returned local is resolved through the straight-line assignments of the body) and a
constant may be written as an int or a float (9 and 9.0 are the same rational).  The generator never raises: what
cannot be read is emitted as a neutral value, `extractionOk` becomes `false` with the reasons in `extractionNotes`,
and `C12.tables_extracted` (Props/C12Ext.lean) then no longer builds.
"""
import ast
import inspect
import textwrap
from fractions import Fraction


def _lstr(s):
    out = ['"']
    for ch in str(s):
        if ch == '"':
            out.append('\\"')
        elif ch == "\\":
            out.append("\\\\")
        elif ord(ch) < 32 or ord(ch) > 126:
            out.append("\\u{%x}" % ord(ch))
        else:
            out.append(ch)
    out.append('"')
    return "".join(out)


def _lchar(c):
    if c == "'":
        return "'\\''"
    if c == "\\":
        return "'\\\\'"
    if ord(c) < 32 or ord(c) > 126:
        return "(Char.ofNat %d)" % ord(c)
    return "'%s'" % c


def _lint(i):
    i = int(i)
    return "(%d)" % i if i < 0 else "%d" % i


def _frac(x):
    if isinstance(x, bool):
        return Fraction(int(x))
    if isinstance(x, float):
        return Fraction(*x.as_integer_ratio())
    return Fraction(x)


def _lrat(x):
    f = _frac(x)
    if f.denominator == 1:
        return "(%d : Rat)" % f.numerator
    return "((%d : Rat) / %d)" % (f.numerator, f.denominator)


def _llist(items):
    return "[" + ", ".join(items) + "]"


def _lit(v):
    """a Python literal as `PyLit`"""
    if v is None:
        return "PyLit.none"
    if isinstance(v, str):
        return "PyLit.str " + _lstr(v)
    if isinstance(v, (bool, int, float)):
        return "PyLit.num " + _lrat(v)
    raise ValueError("literal %r" % (v,))


class _Notes(list):
    pass


def _fn(fn):
    src = textwrap.dedent(inspect.getsource(fn))
    tree = ast.parse(src)
    for node in ast.walk(tree):
        if isinstance(node, (ast.FunctionDef, ast.AsyncFunctionDef)):
            return node
    raise ValueError("no function in source of %r" % fn)


def _num(node):
    """numeric value of a constant expression (literals, unary minus, + - * / ** of constants), else None"""
    try:
        if isinstance(node, ast.Constant) and isinstance(node.value, (int, float)) and not isinstance(node.value, bool):
            return _frac(node.value)
        if isinstance(node, ast.UnaryOp) and isinstance(node.op, ast.USub):
            v = _num(node.operand)
            return None if v is None else -v
        if isinstance(node, ast.BinOp):
            a, b = _num(node.left), _num(node.right)
            if a is None or b is None:
                return None
            if isinstance(node.op, ast.Add):
                return a + b
            if isinstance(node.op, ast.Sub):
                return a - b
            if isinstance(node.op, ast.Mult):
                return a * b
            if isinstance(node.op, ast.Div):
                return a / b
            if isinstance(node.op, ast.Pow) and b.denominator == 1 and 0 <= b <= 64:
                return a ** int(b)
        if isinstance(node, ast.Call) and isinstance(node.func, ast.Name) and node.func.id in ("float", "int") \
                and len(node.args) == 1:
            return _num(node.args[0])
    except Exception:
        return None
    return None


def _resolve(expr, env):
    """substitute straight-line locals"""
    class T(ast.NodeTransformer):
        def visit_Name(self, n):
            if isinstance(n.ctx, ast.Load) and n.id in env:
                return env[n.id]
            return n
    return T().visit(expr)


def _returned(fdef):
    """the returned expressions of a function, with earlier single assignments `x = e` substituted"""
    env, outs = {}, []

    def walk(stmts):
        for s in stmts:
            if isinstance(s, ast.Assign) and len(s.targets) == 1 and isinstance(s.targets[0], ast.Name):
                env[s.targets[0].id] = _resolve(s.value, env)
            elif isinstance(s, ast.Return) and s.value is not None:
                outs.append(_resolve(s.value, env))
            elif isinstance(s, ast.If):
                walk(s.body)
                walk(s.orelse)

    import copy
    walk(copy.deepcopy(fdef.body))
    return outs, env


def _constants(expr):
    """maximal constant sub-expressions of expr, in source order"""
    out = []

    def go(n):
        v = _num(n)
        if v is not None:
            out.append(v)
            return
        for c in ast.iter_child_nodes(n):
            go(c)

    go(expr)
    return out


def _calls_named(expr, name):
    out = []
    for n in ast.walk(expr):
        if isinstance(n, ast.Call):
            f = n.func
            if (isinstance(f, ast.Name) and f.id == name) or (isinstance(f, ast.Attribute) and f.attr == name):
                out.append(n)
    return out


# ------------------------------------------------------------------ pieces
def _mode_chain(fn, notes, kind):
    """[(tuple literals, payload)] for the `if mode in (...)` chain of fn; payload per kind:
       f2k -> (keylist name, suffix), kmi -> int, kim -> str"""
    out = []
    try:
        fdef = _fn(fn)
        par = fdef.args.args[-1].arg if kind == "f2k" else fdef.args.args[0].arg
        chain = None
        for s in fdef.body:
            if isinstance(s, ast.If) and isinstance(s.test, ast.Compare) and len(s.test.ops) == 1 \
                    and isinstance(s.test.ops[0], ast.In) and isinstance(s.test.left, ast.Name) and s.test.left.id == par:
                chain = s
                break
        if chain is None:
            raise ValueError("no `if %s in (...)` chain" % par)
        node = chain
        while True:
            if not (isinstance(node.test, ast.Compare) and len(node.test.ops) == 1 and isinstance(node.test.ops[0], ast.In)
                    and isinstance(node.test.left, ast.Name) and node.test.left.id == par):
                raise ValueError("unexpected test in the chain")
            lits = [ast.literal_eval(e) for e in node.test.comparators[0].elts]
            if kind == "f2k":
                asg = {}
                for b in node.body:
                    if isinstance(b, ast.Assign) and len(b.targets) == 1 and isinstance(b.targets[0], ast.Name):
                        asg[b.targets[0].id] = b.value
                lists = [v.id for v in asg.values() if isinstance(v, ast.Name)]
                sufs = [v.value for v in asg.values() if isinstance(v, ast.Constant) and isinstance(v.value, str)]
                if len(lists) != 1 or len(sufs) != 1 or lists[0] not in ("MAJOR_KEYS", "MINOR_KEYS"):
                    raise ValueError("branch body")
                payload = (lists[0], sufs[0])
            else:
                rets = [b for b in node.body if isinstance(b, ast.Return)]
                if len(rets) != 1:
                    raise ValueError("branch body")
                payload = ast.literal_eval(rets[0].value)
                if kind == "kmi" and (isinstance(payload, bool) or not isinstance(payload, int)):
                    raise ValueError("branch value")
                if kind == "kim" and not isinstance(payload, str):
                    raise ValueError("branch value")
            out.append((lits, payload))
            if len(node.orelse) == 1 and isinstance(node.orelse[0], ast.If):
                node = node.orelse[0]
                continue
            if not any(isinstance(x, ast.Raise) for x in node.orelse):
                raise ValueError("the chain does not end in `else: raise`")
            break
    except Exception as e:
        notes.append("%s: mode chain unreadable (%s)" % (getattr(fn, "__name__", fn), e))
        return []
    return out


def _fifths_range(fn, notes):
    lo = hi = off = 0
    try:
        fdef = _fn(fn)
        par = fdef.args.args[0].arg
        found = None
        for s in ast.walk(fdef):
            if isinstance(s, ast.If) and any(isinstance(x, ast.Raise) for x in s.body):
                t = s.test
                if isinstance(t, ast.UnaryOp) and isinstance(t.op, ast.Not) and isinstance(t.operand, ast.Compare):
                    c = t.operand
                    if len(c.ops) == 2 and all(isinstance(o, ast.LtE) for o in c.ops) and isinstance(c.comparators[0], ast.Name) \
                            and c.comparators[0].id == par:
                        found = (_num(c.left), _num(c.comparators[1]))
        if found is None or None in found:
            raise ValueError("no `if not LO <= %s <= HI: raise`" % par)
        lo, hi = int(found[0]), int(found[1])
        offs = []
        for n in ast.walk(fdef):
            if isinstance(n, ast.Subscript) and isinstance(n.slice, ast.BinOp) and isinstance(n.slice.op, ast.Add):
                l, r = n.slice.left, n.slice.right
                if isinstance(l, ast.Name) and l.id == par and _num(r) is not None:
                    offs.append(int(_num(r)))
                elif isinstance(r, ast.Name) and r.id == par and _num(l) is not None:
                    offs.append(int(_num(l)))
        if len(offs) != 1:
            raise ValueError("index offset")
        off = offs[0]
    except Exception as e:
        notes.append("fifths_mode_to_key_name: range unreadable (%s)" % e)
    return lo, hi, off


def _fifths_list(fn, notes):
    try:
        fdef = _fn(fn)
        lists = []
        for s in fdef.body:
            if isinstance(s, ast.Assign) and isinstance(s.value, ast.List) and s.value.elts \
                    and all(isinstance(e, ast.Constant) and isinstance(e.value, str) for e in s.value.elts):
                lists.append([e.value for e in s.value.elts])
        if len(lists) != 1:
            raise ValueError("%d list literals" % len(lists))
        return lists[0]
    except Exception as e:
        notes.append("key_name_to_fifths_mode: fifths_list unreadable (%s)" % e)
        return []


def _ladders(fn, notes):
    try:
        fdef = _fn(fn)
        env = {}
        for s in ast.walk(fdef):
            if isinstance(s, ast.Assign) and len(s.targets) == 1 and isinstance(s.targets[0], ast.Name) \
                    and isinstance(s.value, ast.List):
                try:
                    env[s.targets[0].id] = ast.literal_eval(s.value)
                except Exception:
                    pass
        for s in ast.walk(fdef):
            if isinstance(s, ast.IfExp) and isinstance(s.test, ast.Compare) and len(s.test.ops) == 1 \
                    and isinstance(s.test.ops[0], ast.In):
                nums = ast.literal_eval(s.test.comparators[0])

                def lst(n):
                    if isinstance(n, ast.Name):
                        return env[n.id]
                    return ast.literal_eval(n)

                a, b = lst(s.body), lst(s.orelse)
                if all(isinstance(x, str) for x in a + b) and all(isinstance(x, int) for x in nums):
                    return list(a), list(b), list(nums)
        raise ValueError("no `A if self.number in [...] else B`")
    except Exception as e:
        notes.append("Interval.change_quality: ladders unreadable (%s)" % e)
        return [], [], []


def _pattern(patt, notes):
    """([A-G]{1})([xb\\#]*)(\\d+) -> (lo, hi, acc chars)"""
    try:
        try:
            import re._parser as sp
            import re._constants as sc
        except ImportError:  # pragma: no cover
            import sre_parse as sp
            import sre_constants as sc
        p = list(sp.parse(patt.pattern, patt.flags & ~32))  # 32 = re.UNICODE (implicit for str patterns)
        if len(p) != 3 or any(op is not sc.SUBPATTERN for op, _ in p):
            raise ValueError("not three groups")
        bodies = [list(av[3]) for _, av in p]
        # group 1: one char of a single range, exactly once
        (op, av), = bodies[0]
        if op is sc.MAX_REPEAT:
            mn, mx, sub = av
            if (mn, mx) != (1, 1):
                raise ValueError("step repeat")
            (op, av), = list(sub)
        if op is not sc.IN or len(av) != 1 or av[0][0] is not sc.RANGE:
            raise ValueError("step class")
        lo, hi = av[0][1]
        # group 2: any number of chars of a literal set
        (op, av), = bodies[1]
        if op is not sc.MAX_REPEAT or av[0] != 0 or av[1] is not sc.MAXREPEAT:
            raise ValueError("accidental repeat")
        (op2, av2), = list(av[2])
        if op2 is not sc.IN or any(o is not sc.LITERAL for o, _ in av2):
            raise ValueError("accidental class")
        acc = [chr(c) for _, c in av2]
        # group 3: one or more digits
        (op, av), = bodies[2]
        if op is not sc.MAX_REPEAT or av[0] != 1 or av[1] is not sc.MAXREPEAT:
            raise ValueError("digit repeat")
        (op3, av3), = list(av[2])
        if not (op3 is sc.IN and len(av3) == 1 and av3[0] == (sc.CATEGORY, sc.CATEGORY_DIGIT)):
            raise ValueError("digit class")
        return chr(lo), chr(hi), acc
    except Exception as e:
        notes.append("NOTE_NAME_PATT unreadable (%s)" % e)
        return "A", "A", []


def _consts_of(fn, notes, what, pick):
    """constants of the (first) returned/assigned formula selected by `pick(fdef) -> expr`"""
    try:
        return pick(_fn(fn))
    except Exception as e:
        notes.append("%s unreadable (%s)" % (what, e))
        return None


def _s2m(fdef):
    outs, _ = _returned(fdef)
    cs = _constants(outs[0])
    # (octave + 1) * 12 + TABLE[...] + (alter or 0)
    if len(cs) != 3:
        raise ValueError("constants %r" % cs)
    return cs  # shift, octave size, missing alter


def _m2s(fdef):
    # octave = midi_pitch // 12 - 1 ; np.mod(midi_pitch, 12)
    fl = [n for n in ast.walk(fdef) if isinstance(n, ast.BinOp) and isinstance(n.op, ast.FloorDiv)]
    if len(fl) != 1 or _num(fl[0].right) is None:
        raise ValueError("floor division")
    size = _num(fl[0].right)
    sub = [n for n in ast.walk(fdef) if isinstance(n, ast.BinOp) and isinstance(n.op, ast.Sub)
           and any(x is fl[0] for x in ast.walk(n.left)) and _num(n.right) is not None]
    if len(sub) != 1:
        raise ValueError("octave shift")
    mods = _calls_named(fdef, "mod")
    pm = [n for n in ast.walk(fdef) if isinstance(n, ast.BinOp) and isinstance(n.op, ast.Mod)]
    if len(mods) == 1 and len(mods[0].args) == 2 and _num(mods[0].args[1]) is not None and not pm:
        mod = _num(mods[0].args[1])
    elif len(pm) == 1 and not mods and _num(pm[0].right) is not None:
        mod = _num(pm[0].right)
    else:
        raise ValueError("modulus")
    return [size, _num(sub[0].right), mod]


def _m2f(fdef):
    outs, _ = _returned(fdef)
    e = outs[0]
    pw = [n for n in ast.walk(e) if isinstance(n, ast.BinOp) and isinstance(n.op, ast.Pow) and _num(n) is None]
    if len(pw) != 1 or _num(pw[0].left) is None:
        raise ValueError("power")
    base = _num(pw[0].left)
    ex = pw[0].right  # (midi_pitch - 9) / 12
    if not (isinstance(ex, ast.BinOp) and isinstance(ex.op, ast.Div) and _num(ex.right) is not None
            and isinstance(ex.left, ast.BinOp) and isinstance(ex.left.op, ast.Sub) and _num(ex.left.right) is not None):
        raise ValueError("exponent")
    # the factor: a4 / 32
    dv = [n for n in ast.walk(e) if isinstance(n, ast.BinOp) and isinstance(n.op, ast.Div) and isinstance(n.left, ast.Name)
          and _num(n.right) is not None]
    whole = _constants(e)
    if len(dv) == 0 and len(whole) == 3:
        div = Fraction(1)  # the textbook form a4 * 2 ** ((p - 69) / 12)
    elif len(dv) == 1 and len(whole) == 4:
        div = _num(dv[0].right)
    else:
        raise ValueError("factor / constants %r" % whole)
    return [div, base, _num(ex.left.right), _num(ex.right)]  # 32, 2, 9, 12


def _f2m(fdef):
    rounds = _calls_named(fdef, "round")
    if len(rounds) != 1:
        raise ValueError("round")
    import copy
    _, env = _returned(fdef)
    e = _resolve(copy.deepcopy(rounds[0].args[0]), env)
    if not (isinstance(e, ast.BinOp) and isinstance(e.op, ast.Add) and _num(e.right) is not None
            and isinstance(e.left, ast.BinOp) and isinstance(e.left.op, ast.Mult) and _num(e.left.left) is not None):
        raise ValueError("12 * log2(...) + 9")
    logs = _calls_named(e.left.right, "log2")
    if len(logs) != 1 or e.left.right is not logs[0]:
        raise ValueError("log2")
    inner = _constants(logs[0].args[0])
    if len(inner) != 1:
        raise ValueError("scale")
    return [_num(e.left.left), inner[0], _num(e.right)]  # 12, 32, 9


def _one_const(fdef, fname):
    calls = _calls_named(fdef, fname) if fname else []
    if fname:
        if len(calls) != 1:
            raise ValueError(fname)
        import copy
        _, env = _returned(fdef)
        cs = _constants(_resolve(copy.deepcopy(calls[0].args[0]), env))
    else:
        outs, _ = _returned(fdef)
        cs = _constants(outs[0])
    if len(cs) != 1:
        raise ValueError("constants %r" % cs)
    return cs


def _tempo(prop):
    fdef = _fn(prop.fget)
    outs, _ = _returned(fdef)
    e = outs[0]
    calls = _calls_named(e, "to_quarter_tempo")
    if len(calls) != 1:
        raise ValueError("to_quarter_tempo call")
    u = calls[0].args[0]
    if not (isinstance(u, ast.BoolOp) and isinstance(u.op, ast.Or) and len(u.values) == 2
            and isinstance(u.values[1], ast.Constant) and isinstance(u.values[1].value, str)):
        raise ValueError("default unit")
    cs = _constants(e)
    if len(cs) != 2:
        raise ValueError("constants %r" % cs)
    if not _calls_named(e, "round"):
        raise ValueError("round")
    return cs, u.values[1].value


def _default(fn, name, notes, kinds):
    try:
        p = inspect.signature(fn).parameters[name]
        v = p.default
        if v is inspect.Parameter.empty:
            raise ValueError("no default")
        if not isinstance(v, kinds) or isinstance(v, bool):
            raise ValueError(repr(v))
        return v
    except Exception as e:
        notes.append("default %s of %s unreadable (%s)" % (name, getattr(fn, "__name__", fn), e))
        return None


def gen_c12():
    notes = _Notes()
    w = []
    out = w.append
    out("/- GENERATED by harness/translate_c12.py from the live partitura source (utils/music.py, utils/globals.py,")
    out("   score.py): the literals written inside the conversion functions.  Do not edit. -/")
    out("namespace Gen.C12\n")
    out("/-- a Python literal as `==` / `in` see it: numbers by value (`1`, `1.0`, `True` are one), strings, `None` -/")
    out("inductive PyLit where")
    out("  | str (s : String)")
    out("  | num (r : Rat)")
    out("  | none")
    out("  deriving DecidableEq, Repr\n")
    try:
        import partitura.utils.music as M
        import partitura.utils.globals as G
        import partitura.score as S
    except Exception as e:  # pragma: no cover
        notes.append("import failed: %s" % e)
        M = G = S = None

    f2k = _mode_chain(M.fifths_mode_to_key_name, notes, "f2k") if M else []
    kmi = _mode_chain(M.key_mode_to_int, notes, "kmi") if M else []
    kim = _mode_chain(M.key_int_to_mode, notes, "kim") if M else []
    out("/-- `fifths_mode_to_key_name`: the `if mode in (...)` chain: (tuple, key list is MINOR_KEYS, suffix) -/")
    out("def f2kModes : List (List PyLit × Bool × String) := " + _llist(
        ["(%s, %s, %s)" % (_llist([_lit(x) for x in t]), "true" if p[0] == "MINOR_KEYS" else "false", _lstr(p[1]))
         for t, p in f2k]) + "\n")
    out("/-- `key_mode_to_int`: (tuple, returned int) -/")
    out("def kmiModes : List (List PyLit × Int) := " + _llist(
        ["(%s, %s)" % (_llist([_lit(x) for x in t]), _lint(p)) for t, p in kmi]) + "\n")
    out("/-- `key_int_to_mode`: (tuple, returned string) -/")
    out("def kimModes : List (List PyLit × String) := " + _llist(
        ["(%s, %s)" % (_llist([_lit(x) for x in t]), _lstr(p)) for t, p in kim]) + "\n")

    lo, hi, off = _fifths_range(M.fifths_mode_to_key_name, notes) if M else (0, 0, 0)
    out("/-- `if not fifthsLo <= fifths <= fifthsHi: raise` and `keylist[fifths + fifthsOffset]` -/")
    out("def fifthsLo : Int := %s" % _lint(lo))
    out("def fifthsHi : Int := %s" % _lint(hi))
    out("def fifthsOffset : Int := %s\n" % _lint(off))
    dm = _default(M.fifths_mode_to_key_name, "mode", notes, (type(None), str, int)) if M else None
    out("/-- default of the `mode` parameter of `fifths_mode_to_key_name` -/")
    out("def f2kDefaultMode : PyLit := %s\n" % _lit(dm))

    fl = _fifths_list(M.key_name_to_fifths_mode, notes) if M else []
    out("/-- `fifths_list` of `key_name_to_fifths_mode` -/")
    out("def k2fFifthsList : List String := %s\n" % _llist([_lstr(x) for x in fl]))

    a, b, nums = _ladders(S.Interval.change_quality, notes) if S else ([], [], [])
    out("/-- `Interval.change_quality`: the ladder of the numbers in `cqPerfectNumbers`, the ladder of the others -/")
    out("def cqPerfectLadder : List String := %s" % _llist([_lstr(x) for x in a]))
    out("def cqOtherLadder : List String := %s" % _llist([_lstr(x) for x in b]))
    out("def cqPerfectNumbers : List Nat := %s\n" % _llist(["%d" % x for x in nums]))
    dd = _default(S.Interval.__init__, "direction", notes, (str,)) if S else None
    out("def ivDefaultDirection : String := %s\n" % _lstr(dd or ""))

    slo, shi, acc = _pattern(G.NOTE_NAME_PATT, notes) if G else ("A", "A", [])
    out("/-- `NOTE_NAME_PATT` = (one char of [stepLo-stepHi])(any number of chars of accChars)(one or more digits) -/")
    out("def noteStepLo : Char := %s" % _lchar(slo))
    out("def noteStepHi : Char := %s" % _lchar(shi))
    out("def noteAccChars : List Char := %s" % _llist([_lchar(c) for c in acc]))
    out("def notePattern : String := %s\n" % _lstr(G.NOTE_NAME_PATT.pattern if G else ""))

    def consts(names, cs, doc, typ="Rat"):
        ok = cs is not None and len(cs) == len(names)
        if ok and typ == "Int" and any(Fraction(c).denominator != 1 for c in cs):
            ok = False
        out("/-- %s -/" % doc)
        for i, nm in enumerate(names):
            if typ == "Int":
                out("def %s : Int := %s" % (nm, _lint(cs[i]) if ok else "0"))
            else:
                out("def %s : Rat := %s" % (nm, _lrat(cs[i]) if ok else "(0 : Rat)"))
        out("")
        if not ok and not any(doc.split("`")[1][:12] in n for n in notes):
            notes.append("constants of %s unreadable" % doc)

    consts(["s2mShift", "s2mOctave", "s2mNoAlter"],
           _consts_of(M.pitch_spelling_to_midi_pitch, notes, "pitch_spelling_to_midi_pitch", _s2m) if M else None,
           "`(octave + s2mShift) * s2mOctave + MIDI_BASE_CLASS[step.lower()] + (alter or s2mNoAlter)`", "Int")
    consts(["m2sOctave", "m2sShift", "m2sModulus"],
           _consts_of(M.midi_pitch_to_pitch_spelling, notes, "midi_pitch_to_pitch_spelling", _m2s) if M else None,
           "`octave = midi_pitch // m2sOctave - m2sShift`, table index `mod(midi_pitch, m2sModulus)`", "Int")
    consts(["m2fDiv", "m2fBase", "m2fRef", "m2fOctave"],
           _consts_of(M.midi_pitch_to_frequency, notes, "midi_pitch_to_frequency", _m2f) if M else None,
           "`(a4 / m2fDiv) * (m2fBase ** ((midi_pitch - m2fRef) / m2fOctave))`")
    consts(["f2mOctave", "f2mMul", "f2mRef"],
           _consts_of(M.frequency_to_midi_pitch, notes, "frequency_to_midi_pitch", _f2m) if M else None,
           "`round(f2mOctave * log2(f2mMul * freq / a4) + f2mRef)`")
    consts(["s2tMicro"], _consts_of(M.seconds_to_midi_ticks, notes, "seconds_to_midi_ticks",
                                    lambda f: _one_const(f, "round")) if M else None,
           "`round(s2tMicro * ppq * time_in_seconds / mpq)`")
    consts(["t2sMicro"], _consts_of(M.midi_ticks_to_seconds, notes, "midi_ticks_to_seconds",
                                    lambda f: _one_const(f, None)) if M else None,
           "`(mpq * midi_ticks) / (t2sMicro * ppq)`")
    tp = _consts_of(S.Tempo, notes, "Tempo.microseconds_per_quarter",
                    lambda _f: _tempo(S.Tempo.__dict__["microseconds_per_quarter"])) if S else None
    consts(["mpqMinute", "mpqMicro"], tp[0] if tp else None,
           "`round(mpqMinute * (mpqMicro / to_quarter_tempo(self.unit or mpqDefaultUnit, self.bpm)))`")
    out("def mpqDefaultUnit : String := %s\n" % _lstr(tp[1] if tp else ""))

    def nat_default(fn, name):
        v = _default(fn, name, notes, (int,)) if M else None
        return "%d" % v if isinstance(v, int) and v >= 0 else "0"

    out("/-- keyword defaults (inspect.signature) -/")
    out("def s2tDefaultMpq : Nat := %s" % nat_default(M.seconds_to_midi_ticks if M else None, "mpq"))
    out("def s2tDefaultPpq : Nat := %s" % nat_default(M.seconds_to_midi_ticks if M else None, "ppq"))
    out("def t2sDefaultMpq : Nat := %s" % nat_default(M.midi_ticks_to_seconds if M else None, "mpq"))
    out("def t2sDefaultPpq : Nat := %s" % nat_default(M.midi_ticks_to_seconds if M else None, "ppq"))
    a4a = _default(M.midi_pitch_to_frequency, "a4", notes, (int, float)) if M else None
    a4b = _default(M.frequency_to_midi_pitch, "a4", notes, (int, float)) if M else None
    out("def m2fDefaultA4 : Rat := %s" % _lrat(a4a or 0))
    out("def f2mDefaultA4 : Rat := %s\n" % _lrat(a4b or 0))

    out("def extractionOk : Bool := %s" % ("true" if not notes else "false"))
    out("def extractionNotes : List String := %s\n" % _llist([_lstr(n) for n in notes]))
    out("end Gen.C12")
    return "\n".join(w) + "\n"


GENERATORS = {"C12Tables.lean": gen_c12}

if __name__ == "__main__":
    print(gen_c12())
