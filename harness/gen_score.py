"""Shared helpers: abstract part descriptions -> real partitura Parts (public API only),
and a deep canonical fingerprint of parts / scores / performances for frame checks.

A part description is a JSON-able dict

  {"id": "P0", "divs": 4,
   "qd":  [[t, q], ...]                      further quarter-duration changes (optional)
   "ts":  [[t, beats, beat_type], ...]
   "ks":  [[t, fifths, mode|None], ...]
   "clefs": [[t, staff, sign, line, octave_change], ...]
   "notes": [{"id","t","dur","kind": "note"|"grace"|"rest"|"unp","step","alter","oct",
              "voice","staff","tie": id of the note this one is tied TO (optional)}]
   "measures": "auto" | [[start, end, number], ...] | None
   "extras": [[cls_name, start, end|None, kwargs], ...]   other timed objects (directions, repeats ...)
  }
"""
import math
import numbers
from fractions import Fraction

STEPS = "CDEFGAB"


# ---------------------------------------------------------------------- generation
def random_part_desc(rng, pid="P0", divs=None, n_measures=None, voices=2, staves=1, p_tie=0.15,
                     p_grace=0.08, p_rest=0.12, p_chord=0.25, p_unp=0.0, ts_changes=True, alters=(-2, -1, 0, 0, 0, 1, 2),
                     p_uneven=0.0):
    """p_uneven: probability that a chord member gets its own (shorter) duration, i.e. polyphony inside one voice"""
    divs = divs or rng.choice([1, 2, 3, 4, 6, 8, 12, 24])
    n_measures = n_measures or rng.randint(1, 5)
    ts_pool = [(4, 4), (3, 4), (2, 4), (6, 8), (5, 4), (2, 2), (3, 8), (9, 8)]
    d = {"id": pid, "divs": divs, "ts": [], "ks": [], "clefs": [], "notes": [], "measures": "auto", "extras": []}
    t = 0
    bars = []
    beats, bt = rng.choice(ts_pool)
    d["ts"].append([0, beats, bt])
    d["ks"].append([0, rng.randint(-7, 7), rng.choice(["major", "minor", None])])
    for s in range(1, staves + 1):
        d["clefs"].append([0, s, rng.choice(["G", "F", "C"]), rng.choice([2, 3, 4]), 0])
    for m in range(n_measures):
        if ts_changes and m > 0 and rng.random() < 0.3:
            beats, bt = rng.choice(ts_pool)
            d["ts"].append([t, beats, bt])
        blen = Fraction(4 * beats * divs, bt)
        if blen.denominator != 1:
            # keep bars on the division grid
            beats, bt = 4, 4
            d["ts"] = [x for x in d["ts"] if x[0] != t] + [[t, beats, bt]]
            blen = Fraction(4 * divs)
        bars.append((t, t + int(blen)))
        t += int(blen)
    nid = 0
    open_tie = {}  # (voice, staff) -> note dict waiting for its continuation
    for v in range(1, voices + 1):
        staff = rng.randint(1, staves)
        for (bs, be) in bars:
            pos = bs
            while pos < be:
                dur = min(rng.choice([1, 1, 2, 2, 3, 4, 6, 8]) * max(1, divs // rng.choice([1, 2, 4]) if divs >= 4 else 1), be - pos)
                dur = max(1, dur)
                r = rng.random()
                if r < p_rest:
                    d["notes"].append({"id": "r%d" % nid, "t": pos, "dur": dur, "kind": "rest", "voice": v, "staff": staff})
                    nid += 1
                    open_tie.pop(v, None)
                    pos += dur
                    continue
                if rng.random() < p_grace:
                    d["notes"].append({"id": "g%d" % nid, "t": pos, "dur": 0, "kind": "grace", "step": rng.choice(STEPS),
                                       "alter": rng.choice(alters), "oct": rng.randint(2, 6), "voice": v, "staff": staff,
                                       "grace_type": rng.choice(["grace", "acciaccatura", "appoggiatura"])})
                    nid += 1
                nchord = 1 + (rng.random() < p_chord) + (rng.random() < p_chord / 2)
                used = set()
                prev = open_tie.pop(v, None)
                for c in range(nchord):
                    if prev is not None and c == 0:
                        step, alter, octv = prev["step"], prev["alter"], prev["oct"]
                    else:
                        for _ in range(10):
                            step, alter, octv = rng.choice(STEPS), rng.choice(alters), rng.randint(2, 6)
                            if (step, octv) not in used:
                                break
                    used.add((step, octv))
                    kind = "unp" if rng.random() < p_unp else "note"
                    ndur = dur
                    if c > 0 and dur > 1 and rng.random() < p_uneven:
                        ndur = rng.randint(1, dur - 1)
                    n = {"id": "n%d" % nid, "t": pos, "dur": ndur, "kind": kind, "step": step, "alter": alter,
                         "oct": octv, "voice": v, "staff": staff}
                    nid += 1
                    if prev is not None and c == 0 and kind == "note":
                        prev["tie"] = n["id"]
                    d["notes"].append(n)
                    if c == 0 and kind == "note" and pos + dur < bars[-1][1] and rng.random() < p_tie:
                        open_tie[v] = n
                pos += dur
    return d


def random_score_desc(rng, nparts=None, **kw):
    nparts = nparts or rng.randint(1, 3)
    return {"parts": [random_part_desc(rng, pid="P%d" % i, **kw) for i in range(nparts)]}


# ---------------------------------------------------------------------- construction
def build_part(d):
    import partitura.score as S

    p = S.Part(d["id"], part_name=d.get("name", d["id"]), quarter_duration=d["divs"])
    for t, q in d.get("qd", []):
        p.set_quarter_duration(t, q)
    for t, b, bt in d.get("ts", []):
        p.add(S.TimeSignature(b, bt), t)
    for t, f, m in d.get("ks", []):
        p.add(S.KeySignature(f, m), t)
    for t, staff, sign, line, oc in d.get("clefs", []):
        p.add(S.Clef(staff, sign, line, oc), t)
    byid = {}
    for n in d.get("notes", []):
        kw = dict(id=n["id"], voice=n.get("voice"), staff=n.get("staff"))
        if n.get("symdur") is not None:
            kw["symbolic_duration"] = dict(n["symdur"])
        k = n["kind"]
        if k == "rest":
            o = S.Rest(**kw)
        elif k == "unp":
            o = S.UnpitchedNote(step=n["step"], octave=n["oct"], **kw)
        elif k == "grace":
            o = S.GraceNote(n.get("grace_type", "grace"), step=n["step"], octave=n["oct"], alter=n.get("alter"), **kw)
        else:
            o = S.Note(step=n["step"], octave=n["oct"], alter=n.get("alter"), **kw)
        p.add(o, n["t"], n["t"] + n["dur"])
        byid[n["id"]] = o
    for n in d.get("notes", []):
        if n.get("tie"):
            a, b = byid[n["id"]], byid[n["tie"]]
            a.tie_next = b
            b.tie_prev = a
    # grace notes: chain to the following main note of the same voice at the same time
    for n in d.get("notes", []):
        if n["kind"] == "grace":
            g = byid[n["id"]]
            for m in d["notes"]:
                if m["kind"] == "note" and m["t"] == n["t"] and m.get("voice") == n.get("voice"):
                    g.grace_next = byid[m["id"]]
                    break
    for cls, st, en, kw in d.get("extras", []):
        o = getattr(S, cls)(**kw)
        p.add(o, st, en)
    ms = d.get("measures", "auto")
    if ms == "auto":
        S.add_measures(p)
    elif ms:
        for st, en, num in ms:
            p.add(S.Measure(number=num), st, en)
    return p


def build_score(sd):
    import partitura.score as S

    return S.Score([build_part(pd) for pd in sd["parts"]], id=sd.get("id", "score"))


# ---------------------------------------------------------------------- fingerprint
def _prim(v):
    import numpy as np

    if v is None or isinstance(v, (bool, str)):
        return v
    if isinstance(v, numbers.Integral):
        return int(v)
    if isinstance(v, Fraction):
        return "F%s" % v
    if isinstance(v, (float, np.floating)):
        f = float(v)
        return "nan" if math.isnan(f) else f
    return None if v is None else NotImplemented


def part_objects(part):
    """every object registered on the part (as starting or as ending), in timeline order"""
    seen, out = set(), []
    for tp in part._points:
        for reg in (tp.starting_objects, tp.ending_objects):
            for cls, objs in reg.items():
                for o in objs:
                    if id(o) not in seen:
                        seen.add(id(o))
                        out.append(o)
    return out


def _canon(v, index, depth=0):
    import numpy as np
    import partitura.score as S

    pv = _prim(v)
    if pv is not NotImplemented:
        return pv
    if isinstance(v, S.TimedObject):
        return ["ref", index.get(id(v), "ext:%s:%s" % (type(v).__name__, getattr(v, "id", None)))]
    if isinstance(v, S.TimePoint):
        return ["tp", v.t]
    if isinstance(v, np.ndarray):
        return ["nd", str(v.dtype), v.shape, v.tolist() if v.size < 10000 else "big"]
    if isinstance(v, (list, tuple)):
        return [_canon(x, index, depth + 1) for x in v]
    if isinstance(v, (set, frozenset)):
        return sorted((_canon(x, index, depth + 1) for x in v), key=repr)
    if isinstance(v, dict):
        return sorted(([repr(k), _canon(x, index, depth + 1)] for k, x in v.items()), key=lambda kv: kv[0])
    if isinstance(v, type):
        return "class:" + v.__name__
    if callable(v):
        return "callable"
    if depth > 4:
        return "deep:" + type(v).__name__
    if hasattr(v, "__dict__"):
        return [type(v).__name__, sorted(([k, _canon(x, index, depth + 1)] for k, x in vars(v).items()), key=lambda kv: kv[0])]
    return "obj:" + type(v).__name__


# memoisation caches of derived values are not observable state of the argument
SKIP_PART_ATTRS = {"_points", "_quarter_map", "_number_of_staves"}


def fingerprint_part(part, with_ids=False):
    objs = part_objects(part)
    index = {id(o): i for i, o in enumerate(objs)}
    points = []
    for tp in part._points:
        points.append([
            tp.t, _prim(tp.quarter), None if tp.prev is None else tp.prev.t, None if tp.next is None else tp.next.t,
            [[c.__name__, [index[id(o)] for o in os_]] for c, os_ in tp.starting_objects.items() if len(os_)],
            [[c.__name__, [index[id(o)] for o in os_]] for c, os_ in tp.ending_objects.items() if len(os_)],
        ])
    ol = []
    for o in objs:
        attrs = sorted(([k, _canon(v, index)] for k, v in vars(o).items() if k not in ("start", "end")), key=lambda kv: kv[0])
        ol.append([type(o).__name__, None if o.start is None else o.start.t, None if o.end is None else o.end.t, attrs])
    pattrs = sorted(([k, _canon(v, index)] for k, v in vars(part).items()
                     if k not in SKIP_PART_ATTRS and not callable(v)), key=lambda kv: kv[0])
    fp = {"points": points, "objects": ol, "part": pattrs}
    if with_ids:
        fp["ids"] = [id(o) for o in objs] + [id(tp) for tp in part._points]
    return fp


def fingerprint_score(score, with_ids=False):
    import partitura.score as S

    if isinstance(score, S.Part):
        return {"part": fingerprint_part(score, with_ids)}
    parts = list(S.iter_parts(score)) if not isinstance(score, S.Score) else list(score.parts)
    fp = {"parts": [fingerprint_part(p, with_ids) for p in parts]}
    if isinstance(score, S.Score):
        fp["score"] = sorted(([k, _canon(v, {})] for k, v in vars(score).items()
                              if k not in ("parts", "part_structure")), key=lambda kv: kv[0])
        fp["structure"] = _structure(score.part_structure)
    return fp


def _structure(ps):
    import partitura.score as S

    out = []
    for x in ps:
        if isinstance(x, S.PartGroup):
            out.append(["group", x.group_symbol, x.group_name, x.number, _structure(x.children)])
        else:
            out.append(["part", x.id])
    return out


def fingerprint_performance(perf):
    import partitura.performance as P

    pps = perf.performedparts if isinstance(perf, P.Performance) else [perf]
    out = []
    for pp in pps:
        out.append({
            "notes": [sorted(([k, _prim(v)] for k, v in dict(n).items()), key=lambda kv: kv[0]) for n in pp.notes],
            "controls": [sorted(([k, _prim(v)] for k, v in c.items()), key=lambda kv: kv[0]) for c in pp.controls],
            "programs": [sorted(([k, _prim(v)] for k, v in c.items()), key=lambda kv: kv[0]) for c in pp.programs],
            "attrs": sorted(([k, _canon(v, {})] for k, v in vars(pp).items() if k not in ("notes", "controls", "programs")),
                            key=lambda kv: kv[0]),
        })
    return out


def sounding(part):
    """[(onset_div, duration_div (tied), midi pitch, id)] of the sounding notes, sorted"""
    out = []
    for n in part.notes_tied:
        out.append((n.start.t, n.duration_tied, n.midi_pitch, n.id))
    return sorted(out)
