"""Shared helpers: abstract part descriptions -> real partitura Parts (public API only),
and a deep canonical fingerprint of parts / scores / performances for frame checks.

A part description is a JSON-able dict

  {"id": "P0", "divs": 4,
   "qd":  [[t, q], ...]                      further quarter-duration changes (optional)
   "ts":  [[t, beats, beat_type], ...]
   "ks":  [[t, fifths, mode|None], ...]
   "clefs": [[t, staff, sign, line, octave_change], ...]
   "notes": [{"id","t","dur","kind": "note"|"grace"|"rest"|"unp","step","alter","oct",
              "voice","staff","tie": id of the note this one is tied TO (optional)}]
   "measures": "auto" | [[start, end, number], ...] | None
   "extras": [[cls_name, start, end|None, kwargs], ...]   other timed objects (directions, repeats ...)
  }
"""
import math
import numbers
from fractions import Fraction

STEPS = "CDEFGAB"


# ---------------------------------------------------------------------- generation
def random_part_desc(rng, pid="P0", divs=None, n_measures=None, voices=2, staves=1, p_tie=0.15,
                     p_grace=0.08, p_rest=0.12, p_chord=0.25, p_unp=0.0, ts_changes=True, alters=(-2, -1, 0, 0, 0, 1, 2),
                     p_uneven=0.0):
    """p_uneven: probability that a chord member gets its own (shorter) duration, i.e. polyphony inside one voice"""
    divs = divs or rng.choice([1, 2, 3, 4, 6, 8, 12, 24])
    n_measures = n_measures or rng.randint(1, 5)
    ts_pool = [(4, 4), (3, 4), (2, 4), (6, 8), (5, 4), (2, 2), (3, 8), (9, 8)]
    d = {"id": pid, "divs": divs, "ts": [], "ks": [], "clefs": [], "notes": [], "measures": "auto", "extras": []}
    t = 0
    bars = []
    beats, bt = rng.choice(ts_pool)
    d["ts"].append([0, beats, bt])
    d["ks"].append([0, rng.randint(-7, 7), rng.choice(["major", "minor", None])])
    for s in range(1, staves + 1):
        d["clefs"].append([0, s, rng.choice(["G", "F", "C"]), rng.choice([2, 3, 4]), 0])
    for m in range(n_measures):
        if ts_changes and m > 0 and rng.random() < 0.3:
            beats, bt = rng.choice(ts_pool)
            d["ts"].append([t, beats, bt])
        blen = Fraction(4 * beats * divs, bt)
        if blen.denominator != 1:
            # keep bars on the division grid
            beats, bt = 4, 4
            d["ts"] = [x for x in d["ts"] if x[0] != t] + [[t, beats, bt]]
            blen = Fraction(4 * divs)
        bars.append((t, t + int(blen)))
        t += int(blen)
    nid = 0
    open_tie = {}  # (voice, staff) -> note dict waiting for its continuation
    for v in range(1, voices + 1):
        staff = rng.randint(1, staves)
        for (bs, be) in bars:
            pos = bs
            while pos < be:
                dur = min(rng.choice([1, 1, 2, 2, 3, 4, 6, 8]) * max(1, divs // rng.choice([1, 2, 4]) if divs >= 4 else 1), be - pos)
                dur = max(1, dur)
                r = rng.random()
                if r < p_rest:
                    d["notes"].append({"id": "r%d" % nid, "t": pos, "dur": dur, "kind": "rest", "voice": v, "staff": staff})
                    nid += 1
                    open_tie.pop(v, None)
                    pos += dur
                    continue
                if rng.random() < p_grace:
                    d["notes"].append({"id": "g%d" % nid, "t": pos, "dur": 0, "kind": "grace", "step": rng.choice(STEPS),
                                       "alter": rng.choice(alters), "oct": rng.randint(2, 6), "voice": v, "staff": staff,
                                       "grace_type": rng.choice(["grace", "acciaccatura", "appoggiatura"])})
                    nid += 1
                nchord = 1 + (rng.random() < p_chord) + (rng.random() < p_chord / 2)
                used = set()
                prev = open_tie.pop(v, None)
                for c in range(nchord):
                    if prev is not None and c == 0:
                        step, alter, octv = prev["step"], prev["alter"], prev["oct"]
                    else:
                        for _ in range(10):
                            step, alter, octv = rng.choice(STEPS), rng.choice(alters), rng.randint(2, 6)
                            if (step, octv) not in used:
                                break
                    used.add((step, octv))
                    kind = "unp" if rng.random() < p_unp else "note"
                    ndur = dur
                    if c > 0 and dur > 1 and rng.random() < p_uneven:
                        ndur = rng.randint(1, dur - 1)
                    n = {"id": "n%d" % nid, "t": pos, "dur": ndur, "kind": kind, "step": step, "alter": alter,
                         "oct": octv, "voice": v, "staff": staff}
                    nid += 1
                    if prev is not None and c == 0 and kind == "note":
                        prev["tie"] = n["id"]
                    d["notes"].append(n)
                    if c == 0 and kind == "note" and pos + dur < bars[-1][1] and rng.random() < p_tie:
                        open_tie[v] = n
                pos += dur
    return d


def random_score_desc(rng, nparts=None, **kw):
    nparts = nparts or rng.randint(1, 3)
    return {"parts": [random_part_desc(rng, pid="P%d" % i, **kw) for i in range(nparts)]}


# ---------------------------------------------------------------------- construction
def warm_readers(p, full=False):
    """read-only views of a part, called in the middle of a construction history ("warm" builds).  None of them may
    change what any later reader returns (C20) and every later reader must describe the part as it is THEN (C02, C05,
    C10, ...): a memo that one of these leaves behind and that a later edit does not invalidate is what warm builds
    are there to expose.  Exceptions are swallowed: a half-built part may legitimately be refused."""
    import numpy as np

    def tryit(f):
        try:
            return f()
        except Exception:
            return None

    ts = [tp.t for tp in p._points][:6] or [0]
    xs = np.array(ts, dtype=float)
    for name in ("beat_map", "quarter_map", "quarter_duration_map", "time_signature_map", "key_signature_map",
                 "measure_map", "measure_number_map", "metrical_position_map", "clef_map"):
        m = tryit(lambda: getattr(p, name))
        if m is not None:
            tryit(lambda: m(xs))
            tryit(lambda: m(ts[0]))
    for name in ("inv_beat_map", "inv_quarter_map"):
        m = tryit(lambda: getattr(p, name))
        if m is not None:
            tryit(lambda: m(np.array([0.0, 1.0])))
    tryit(lambda: p.number_of_staves)
    tryit(lambda: p.notes_tied)
    tryit(lambda: [n.midi_pitch for n in p.notes])
    tryit(lambda: [n.symbolic_duration for n in p.iter_all(__import__("partitura").score.GenericNote, include_subclasses=True)])
    tryit(lambda: [n.duration_tied for n in p.notes])
    tryit(lambda: p.note_array())
    tryit(lambda: p.rest_array())
    if full:
        tryit(lambda: p.note_array(include_pitch_spelling=True, include_key_signature=True, include_time_signature=True,
                                   include_metrical_position=True, include_grace_notes=True, include_staff=True,
                                   include_divs_per_quarter=True))
        tryit(lambda: p.pretty())
        tryit(lambda: [str(o) for o in p.iter_all()])


def build_part(d):
    """`d["warm"]` (optional int bit mask) interleaves `warm_readers` with the construction steps: bit 0 after the
    signatures, 1 after the notes (before ties / grace links), 2 after the ties, 3 after the extras, 4 after the
    measures; bit 5 makes the readers "full" (pretty / str / every note-array column); bit 6 re-adds the notes, every
    other one with a wrong end, reads, removes them and adds them again where they belong (an edit history); bit 7
    sets the ties last of all, after a read (no Part.add / Part.remove follows them).  The finished
    part must be indistinguishable from the one built without `warm`."""
    import partitura.score as S

    warm = int(d.get("warm") or 0)
    full = bool(warm & 32)

    def W(bit):
        if warm & (1 << bit):
            warm_readers(p, full)

    p = S.Part(d["id"], part_name=d.get("name", d["id"]), quarter_duration=d["divs"])
    for t, q in d.get("qd", []):
        p.set_quarter_duration(t, q)
    for t, b, bt in d.get("ts", []):
        p.add(S.TimeSignature(b, bt), t)
    for t, f, m in d.get("ks", []):
        p.add(S.KeySignature(f, m), t)
    for t, staff, sign, line, oc in d.get("clefs", []):
        p.add(S.Clef(staff, sign, line, oc), t)
    W(0)
    byid = {}
    for n in d.get("notes", []):
        kw = dict(id=n["id"], voice=n.get("voice"), staff=n.get("staff"))
        if n.get("symdur") is not None:
            kw["symbolic_duration"] = dict(n["symdur"])
        k = n["kind"]
        if k == "rest":
            o = S.Rest(**kw)
        elif k == "unp":
            o = S.UnpitchedNote(step=n["step"], octave=n["oct"], **kw)
        elif k == "grace":
            o = S.GraceNote(n.get("grace_type", "grace"), step=n["step"], octave=n["oct"], alter=n.get("alter"), **kw)
        else:
            o = S.Note(step=n["step"], octave=n["oct"], alter=n.get("alter"), **kw)
        p.add(o, n["t"], n["t"] + n["dur"])
        byid[n["id"]] = o
    if warm & 64:
        # every non-grace note (all of them, re-added in the original order, so that the order inside each
        # time point's per-class list is that of the plain build)
        churn = [n for n in d.get("notes", []) if n["kind"] != "grace"]
        for i, n in enumerate(churn):
            p.remove(byid[n["id"]])
            p.add(byid[n["id"]], n["t"], n["t"] + n["dur"] + (1 + i % 3 if i % 2 == 0 else 0))
        warm_readers(p, full)
        for n in churn:
            p.remove(byid[n["id"]])
        for n in churn:
            p.add(byid[n["id"]], n["t"], n["t"] + n["dur"])
    W(1)

    def set_ties():
        for n in d.get("notes", []):
            if n.get("tie"):
                a, b = byid[n["id"]], byid[n["tie"]]
                a.tie_next = b
                b.tie_prev = a

    if not warm & 128:
        set_ties()
    # grace notes: chain to the following main note of the same voice at the same time
    for n in d.get("notes", []):
        if n["kind"] == "grace":
            g = byid[n["id"]]
            for m in d["notes"]:
                if m["kind"] == "note" and m["t"] == n["t"] and m.get("voice") == n.get("voice"):
                    g.grace_next = byid[m["id"]]
                    break
    W(2)
    for cls, st, en, kw in d.get("extras", []):
        o = getattr(S, cls)(**kw)
        p.add(o, st, en)
    W(3)
    ms = d.get("measures", "auto")
    if ms == "auto":
        S.add_measures(p)
    elif ms:
        for st, en, num in ms:
            p.add(S.Measure(number=num), st, en)
    W(4)
    if warm & 128:
        # ties are plain attribute assignments on notes that are already in the timeline: made as the very LAST step
        # (after a read), nothing that goes through Part.add / Part.remove follows them
        warm_readers(p, full)
        set_ties()
    return p


def build_score(sd):
    import partitura.score as S

    return S.Score([build_part(pd) for pd in sd["parts"]], id=sd.get("id", "score"))


# ---------------------------------------------------------------------- fingerprint
def _prim(v):
    import numpy as np

    if v is None or isinstance(v, (bool, str)):
        return v
    if isinstance(v, numbers.Integral):
        return int(v)
    if isinstance(v, Fraction):
        return "F%s" % v
    if isinstance(v, (float, np.floating)):
        f = float(v)
        return "nan" if math.isnan(f) else f
    return None if v is None else NotImplemented


def part_objects(part):
    """every object registered on the part (as starting or as ending), in timeline order"""
    seen, out = set(), []
    for tp in part._points:
        for reg in (tp.starting_objects, tp.ending_objects):
            # classes in name order: the key order of the per-point dictionaries is not observable (iteration goes
            # through the subclass tree) and depends on which classes were merely looked up before
            for cls, objs in sorted(reg.items(), key=lambda kv: kv[0].__name__):
                for o in objs:
                    if id(o) not in seen:
                        seen.add(id(o))
                        out.append(o)
    return out


def _canon(v, index, depth=0):
    import numpy as np
    import partitura.score as S

    pv = _prim(v)
    if pv is not NotImplemented:
        return pv
    if isinstance(v, S.TimedObject):
        return ["ref", index.get(id(v), "ext:%s:%s" % (type(v).__name__, getattr(v, "id", None)))]
    if isinstance(v, S.TimePoint):
        return ["tp", v.t]
    if isinstance(v, np.ndarray):
        return ["nd", str(v.dtype), v.shape, v.tolist() if v.size < 10000 else "big"]
    if isinstance(v, (list, tuple)):
        return [_canon(x, index, depth + 1) for x in v]
    if isinstance(v, (set, frozenset)):
        return sorted((_canon(x, index, depth + 1) for x in v), key=repr)
    if isinstance(v, dict):
        return sorted(([repr(k), _canon(x, index, depth + 1)] for k, x in v.items()), key=lambda kv: kv[0])
    if isinstance(v, type):
        return "class:" + v.__name__
    if callable(v):
        return "callable"
    if depth > 4:
        return "deep:" + type(v).__name__
    if hasattr(v, "__dict__"):
        return [type(v).__name__, sorted(([k, _canon(x, index, depth + 1)] for k, x in vars(v).items()), key=lambda kv: kv[0])]
    return "obj:" + type(v).__name__


# memoisation caches of derived values are not observable state of the argument
SKIP_PART_ATTRS = {"_points", "_quarter_map", "_number_of_staves"}
# private attributes that ARE state of a part / of a timed object in the pinned source; any other underscore
# attribute is a lazily created memo (not observable state: what it changes, if anything, shows in the results of
# the readers, which the checks compare), so that a harmless memoisation does not raise an alarm
STATE_PRIVATE_PART = {"_quarter_times", "_quarter_durations", "_use_musical_beat"}
STATE_PRIVATE_OBJ = {"_sym_dur", "_start_note", "_end_note", "_ref_attrs"}


def _part_attr_counts(k):
    return k not in SKIP_PART_ATTRS and (not k.startswith("_") or k in STATE_PRIVATE_PART)


def _obj_attr_counts(k):
    return k not in ("start", "end") and (not k.startswith("_") or k in STATE_PRIVATE_OBJ)


def fingerprint_part(part, with_ids=False):
    objs = part_objects(part)
    index = {id(o): i for i, o in enumerate(objs)}
    points = []
    for tp in part._points:
        points.append([
            tp.t, _prim(tp.quarter), None if tp.prev is None else tp.prev.t, None if tp.next is None else tp.next.t,
            sorted([c.__name__, [index[id(o)] for o in os_]] for c, os_ in tp.starting_objects.items() if len(os_)),
            sorted([c.__name__, [index[id(o)] for o in os_]] for c, os_ in tp.ending_objects.items() if len(os_)),
        ])
    ol = []
    for o in objs:
        attrs = sorted(([k, _canon(v, index)] for k, v in vars(o).items() if _obj_attr_counts(k)), key=lambda kv: kv[0])
        ol.append([type(o).__name__, None if o.start is None else o.start.t, None if o.end is None else o.end.t, attrs])
    pattrs = sorted(([k, _canon(v, index)] for k, v in vars(part).items()
                     if _part_attr_counts(k) and not callable(v)), key=lambda kv: kv[0])
    fp = {"points": points, "objects": ol, "part": pattrs}
    if with_ids:
        fp["ids"] = [id(o) for o in objs] + [id(tp) for tp in part._points]
    return fp


def fingerprint_score(score, with_ids=False):
    import partitura.score as S

    if isinstance(score, S.Part):
        return {"part": fingerprint_part(score, with_ids)}
    parts = list(S.iter_parts(score)) if not isinstance(score, S.Score) else list(score.parts)
    fp = {"parts": [fingerprint_part(p, with_ids) for p in parts]}
    if isinstance(score, S.Score):
        fp["score"] = sorted(([k, _canon(v, {})] for k, v in vars(score).items()
                              if k not in ("parts", "part_structure")), key=lambda kv: kv[0])
        fp["structure"] = _structure(score.part_structure)
    return fp


def _structure(ps):
    import partitura.score as S

    out = []
    for x in ps:
        if isinstance(x, S.PartGroup):
            out.append(["group", x.group_symbol, x.group_name, x.number, _structure(x.children)])
        else:
            out.append(["part", x.id])
    return out


def fingerprint_performance(perf):
    import partitura.performance as P

    pps = perf.performedparts if isinstance(perf, P.Performance) else [perf]
    out = []
    for pp in pps:
        out.append({
            "notes": [sorted(([k, _prim(v)] for k, v in dict(n).items()), key=lambda kv: kv[0]) for n in pp.notes],
            "controls": [sorted(([k, _prim(v)] for k, v in c.items()), key=lambda kv: kv[0]) for c in pp.controls],
            "programs": [sorted(([k, _prim(v)] for k, v in c.items()), key=lambda kv: kv[0]) for c in pp.programs],
            "attrs": sorted(([k, _canon(v, {})] for k, v in vars(pp).items() if k not in ("notes", "controls", "programs")),
                            key=lambda kv: kv[0]),
        })
    return out


def sounding(part):
    """[(onset_div, duration_div (tied), midi pitch, id)] of the sounding notes, sorted"""
    out = []
    for n in part.notes_tied:
        out.append((n.start.t, n.duration_tied, n.midi_pitch, n.id))
    return sorted(out)
