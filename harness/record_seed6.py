"""coordinator helper (round 6): harness/record_seed6.py Cxx-y [provenance]  — reads /tmp/confirm-Cxx-y.out written by
confirm_seed6.sh, refuses unless the demo is 0 on /repo and 1 on the seed and the 228 baseline tests pass, and records
seeded/<id>/{patch.diff,demo.py,meta.json} with the verdict of the check; removes the worktree (KEEP_WT=1 keeps it)."""
import json, os, re, shutil, subprocess, sys
x = sys.argv[1]; prov = sys.argv[2] if len(sys.argv) > 2 else None
out = open("/tmp/confirm-%s.out" % x).read()
wt = "/tmp/seed-" + x; d = "/verif/seeded/" + x
assert "%s demo-on-repo=0" % x in out and "%s demo-on-seed=1" % x in out, "demo not confirmed"
assert '"baseline_missing": []' in out or os.path.exists(d + "/meta.json"), "suite not confirmed"
assert "REBASE-FAILED" not in out
if "no-failing-input-found" in out: det = "no-failing-input-found"
elif re.search(r"^VIOLATION", out, re.M): det = "detected"
elif re.search(r"^PASS", out, re.M): det = "missed"
else: sys.exit("no verdict in confirm output")
orc = re.findall(r"^oracle: (.*)$", out, re.M); brk = re.findall(r"^broken: (.*)$", out, re.M)
how = []
if orc: how.append("oracle clause " + orc[0][:220])
for b in brk[:2]:
    m = re.match(r"(correspondence\(\w+\)): (\d+) observation\(s\) differ, first: request='(\S+)", b)
    how.append("%s stream %s (%s obs)" % (m.group(1), m.group(3), m.group(2)) if m else "obligation " + b[:80])
how = "; ".join(how) or ("PASS: " + re.search(r"^PASS.*$", out, re.M).group(0) if det == "missed" else "")
if det == "detected": how += "; failing-input"
os.makedirs(d, exist_ok=True)
os.path.exists(wt + "/seed_patch.diff") and shutil.copy(wt + "/seed_patch.diff", d + "/patch.diff"); shutil.copy(wt + "/seed_demo.py", d + "/demo.py")
a = json.load(open(wt + "/seed_meta.json"))
meta = {"property": a["property"], "id": x, "summary": a["summary"], "needs_to_manifest": a["needs_to_manifest"],
        "files_changed": a.get("files_changed"),
        "confirmed_by_coordinator": {
            "demo": "PYTHONPATH=/repo python demo.py -> exit 0; PYTHONPATH=<worktree with patch.diff applied> python demo.py -> exit 1",
            "suite": "harness/suite_compare.py <worktree>: all 228 baseline tests of /root/.vp/BASELINE.json still pass (248 passed)",
            "check": "harness/confirm_seed6.sh %s (isolated copy of /verif, VERIF_REPO=<worktree>, quick tier, /repo at %s)" % (x, subprocess.run(["git", "-C", "/repo", "rev-parse", "--short", "HEAD"], capture_output=True, text=True).stdout.strip())},
        "detection": det, "detected_by": how}
if prov: meta["provenance"] = prov
old = d + "/meta.json"
if os.path.exists(old):
    o = json.load(open(old))
    meta["first_sight"] = o.get("first_sight") or {"detected": "caught", "no-failing-input-found": "nfif"}.get(o["detection"], o["detection"])
    if o.get("first_sight_detail") or o["detection"] != "detected": meta["first_sight_detail"] = o.get("first_sight_detail") or o.get("detected_by")
else:
    meta["first_sight"] = {"detected": "caught", "no-failing-input-found": "nfif"}.get(det, det)
json.dump(meta, open(d + "/meta.json", "w"), indent=1)
if os.environ.get("KEEP_WT") != "1": subprocess.run(["git", "-C", "/repo", "worktree", "remove", "--force", wt])
print("recorded", x, det, "|", how[:160])
