"""Translator for C17 (round 6): the literals of the MIDI score importer (partitura/io/importmidi.py)
-> lean/PartituraModel/Gen/C17MidiTables.lean.

* `noteHash`: the expression `note_hash(channel, pitch)` returns, translated operator by operator (`+ - * // % << | & ^`,
  integer constants, the two parameters) - `C17.note_hash_injective` is proved over the whole 16 x 128 table of it;
* `MIDI_RELEVANT`: the set of message types the loop of `load_score_midi` does not skip (ast: `relevant = {...}`);
* the defaults of `load_score_midi` (`inspect.signature`): part_voice_assign_mode, quantization_unit, estimate_voice_info,
  estimate_key, assign_note_ids;
* `MIDI_MODES`: the constants `mode == <n>` of the if/elif chain of `assign_group_part_voice` in source order;
* the format strings of the note ids (`"n{}".format(i)`) and part ids (`"P{}".format(part_nr + 1)`, with the offset);
* `MIDI_ESTIMATE_VOICES_MONO`: the default of `estimate_voices(monophonic_voices=...)` the importer relies on.
Nothing is executed besides importing the modules.  The generator never raises: what cannot be read is emitted with its
last known value and named in `C17MIDI_PINNED` (which breaks `C17.midi_tables_extracted`).
"""
import ast
import inspect
import textwrap

PINNED = {
    "NOTE_HASH": "((channel * 128) + pitch)",
    "NOTE_HASH_PARAMS": ["channel", "pitch"],
    "MIDI_RELEVANT": ["time_signature", "key_signature", "set_tempo", "note_on", "note_off"],
    "MIDI_DEFAULT_MODE": 0,
    "MIDI_DEFAULT_QU": None,
    "MIDI_DEFAULT_VOICE": False,
    "MIDI_DEFAULT_KEY": False,
    "MIDI_DEFAULT_IDS": True,
    "MIDI_MODES": [0, 1, 2, 3, 4, 5],
    "MIDI_NOTE_ID_FORMAT": "n{}",
    "MIDI_PART_ID_FORMAT": "P{}",
    "MIDI_PART_ID_OFFSET": 1,
    "MIDI_ESTIMATE_VOICES_MONO": True,
}

_OPS = {ast.Add: "+", ast.Sub: "-", ast.Mult: "*", ast.FloorDiv: "/", ast.Mod: "%", ast.LShift: "<<<", ast.BitOr: "|||",
        ast.BitAnd: "&&&", ast.BitXor: "^^^"}


def _expr(node, params):
    if isinstance(node, ast.Constant) and isinstance(node.value, int) and not isinstance(node.value, bool) and node.value >= 0:
        return "%d" % node.value
    if isinstance(node, ast.Name) and node.id in params:
        return node.id
    if isinstance(node, ast.BinOp) and type(node.op) in _OPS:
        return "(%s %s %s)" % (_expr(node.left, params), _OPS[type(node.op)], _expr(node.right, params))
    raise RuntimeError("note_hash: cannot translate %s" % ast.dump(node)[:80])


def _fn_ast(fn):
    return ast.parse(textwrap.dedent(inspect.getsource(inspect.unwrap(fn)))).body[0]


def _note_hash(IM):
    f = _fn_ast(IM.note_hash)
    params = [a.arg for a in f.args.args]
    if len(params) != 2:
        raise RuntimeError("note_hash takes %d parameters" % len(params))
    rets = [n for n in ast.walk(f) if isinstance(n, ast.Return)]
    if len(rets) != 1 or len([s for s in f.body if not (isinstance(s, ast.Expr) and isinstance(s.value, ast.Constant))]) != 1:
        raise RuntimeError("note_hash is not a single return statement")
    return [_expr(rets[0].value, params), params]


def _relevant(IM):
    f = _fn_ast(IM.load_score_midi)
    for n in ast.walk(f):
        if isinstance(n, ast.Assign) and len(n.targets) == 1 and isinstance(n.targets[0], ast.Name) and n.targets[0].id == "relevant":
            v = n.value
            if isinstance(v, ast.Call) and len(v.args) == 1:
                v = v.args[0]
            if isinstance(v, (ast.Set, ast.Tuple, ast.List)) and all(isinstance(e, ast.Constant) and isinstance(e.value, str) for e in v.elts):
                return [[e.value for e in v.elts]]
    raise RuntimeError("`relevant = {...}` not found in load_score_midi")


def _defaults(IM):
    sig = inspect.signature(inspect.unwrap(IM.load_score_midi))
    p = sig.parameters
    mode = p["part_voice_assign_mode"].default
    qu = p["quantization_unit"].default
    ev, ek, ids = p["estimate_voice_info"].default, p["estimate_key"].default, p["assign_note_ids"].default
    if not (isinstance(mode, int) and (qu is None or isinstance(qu, int)) and all(isinstance(x, bool) for x in (ev, ek, ids))):
        raise RuntimeError("unexpected defaults of load_score_midi")
    return [int(mode), qu, ev, ek, ids]


def _modes(IM):
    f = _fn_ast(IM.assign_group_part_voice)
    mode_param = f.args.args[0].arg
    out = []
    for n in ast.walk(f):
        if isinstance(n, ast.Compare) and isinstance(n.left, ast.Name) and n.left.id == mode_param and len(n.ops) == 1 \
                and isinstance(n.ops[0], ast.Eq) and isinstance(n.comparators[0], ast.Constant):
            out.append((n.lineno, int(n.comparators[0].value)))
    if not out:
        raise RuntimeError("no `mode == <n>` in assign_group_part_voice")
    return [[v for _, v in sorted(out)]]


def _formats(IM):
    f = _fn_ast(IM.load_score_midi)
    nid = pid = off = None
    for n in ast.walk(f):
        if isinstance(n, ast.Assign) and isinstance(n.targets[0], ast.Name) and n.targets[0].id == "note_ids" \
                and isinstance(n.value, ast.ListComp) and isinstance(n.value.elt, ast.Call) \
                and isinstance(n.value.elt.func, ast.Attribute) and n.value.elt.func.attr == "format" \
                and isinstance(n.value.elt.func.value, ast.Constant):
            nid = n.value.elt.func.value.value
        if isinstance(n, ast.Call) and isinstance(n.func, ast.Name) and n.func.id == "create_part":
            for kw in n.keywords:
                if kw.arg == "part_id" and isinstance(kw.value, ast.Call) and isinstance(kw.value.func, ast.Attribute) \
                        and kw.value.func.attr == "format" and isinstance(kw.value.func.value, ast.Constant):
                    pid = kw.value.func.value.value
                    a = kw.value.args[0]
                    if isinstance(a, ast.BinOp) and isinstance(a.op, ast.Add) and isinstance(a.right, ast.Constant):
                        off = int(a.right.value)
                    elif isinstance(a, ast.Name):
                        off = 0
    if nid is None or pid is None or off is None or nid.count("{}") != 1 or pid.count("{}") != 1:
        raise RuntimeError("id formats of load_score_midi not found")
    return [nid, pid, off]


def _mono_default(VS):
    d = inspect.signature(VS.estimate_voices).parameters["monophonic_voices"].default
    if not isinstance(d, bool):
        raise RuntimeError("estimate_voices(monophonic_voices=%r)" % (d,))
    return [d]


def extract():
    vals = dict(PINNED)
    pinned = []

    def attempt(names, fn):
        try:
            got = fn()
            for nm, v in zip(names, got):
                vals[nm] = v
        except Exception as e:
            for nm in names:
                pinned.append((nm, "%s: %s" % (type(e).__name__, str(e)[:160].replace("\n", " "))))

    try:
        import partitura.io.importmidi as IM
        import partitura.musicanalysis.voice_separation as VS
    except Exception as e:
        return vals, [(nm, "import failed: %s" % type(e).__name__) for nm in sorted(PINNED)]
    attempt(["NOTE_HASH", "NOTE_HASH_PARAMS"], lambda: _note_hash(IM))
    attempt(["MIDI_RELEVANT"], lambda: _relevant(IM))
    attempt(["MIDI_DEFAULT_MODE", "MIDI_DEFAULT_QU", "MIDI_DEFAULT_VOICE", "MIDI_DEFAULT_KEY", "MIDI_DEFAULT_IDS"], lambda: _defaults(IM))
    attempt(["MIDI_MODES"], lambda: _modes(IM))
    attempt(["MIDI_NOTE_ID_FORMAT", "MIDI_PART_ID_FORMAT", "MIDI_PART_ID_OFFSET"], lambda: _formats(IM))
    attempt(["MIDI_ESTIMATE_VOICES_MONO"], lambda: _mono_default(VS))
    return vals, pinned


def _lstr(s):
    return '"%s"' % str(s).replace("\\", "\\\\").replace('"', '\\"')


def _lbool(b):
    return "true" if b else "false"


def gen_c17midi():
    vals, pinned = extract()
    out = []
    w = out.append
    w("/- GENERATED by harness/translate_c17midi.py from /repo (partitura/io/importmidi.py, voice_separation.py).  Do not edit. -/")
    w("namespace Gen\n")
    a, b = vals["NOTE_HASH_PARAMS"]
    w("/-- `note_hash(%s, %s)`: the key under which `load_score_midi` remembers a sounding note -/" % (a, b))
    w("def noteHash (%s %s : Nat) : Nat := %s\n" % (a, b, vals["NOTE_HASH"]))
    w("/-- `relevant`: the message types the loop of `load_score_midi` does not skip -/")
    w("def MIDI_RELEVANT : List String := [%s]\n" % ", ".join(_lstr(s) for s in vals["MIDI_RELEVANT"]))
    w("/-- defaults of `load_score_midi` -/")
    w("def MIDI_DEFAULT_MODE : Nat := %d" % vals["MIDI_DEFAULT_MODE"])
    w("def MIDI_DEFAULT_QU : Option Nat := %s" % ("none" if vals["MIDI_DEFAULT_QU"] is None else "some %d" % vals["MIDI_DEFAULT_QU"]))
    w("def MIDI_DEFAULT_VOICE : Bool := %s" % _lbool(vals["MIDI_DEFAULT_VOICE"]))
    w("def MIDI_DEFAULT_KEY : Bool := %s" % _lbool(vals["MIDI_DEFAULT_KEY"]))
    w("def MIDI_DEFAULT_IDS : Bool := %s\n" % _lbool(vals["MIDI_DEFAULT_IDS"]))
    w("/-- the constants of the `mode == <n>` chain of `assign_group_part_voice`, in source order -/")
    w("def MIDI_MODES : List Nat := [%s]\n" % ", ".join("%d" % m for m in vals["MIDI_MODES"]))
    w("/-- `\"n{}\".format(i)` and `\"P{}\".format(part_nr + <offset>)` -/")
    w("def MIDI_NOTE_ID_FORMAT : String := %s" % _lstr(vals["MIDI_NOTE_ID_FORMAT"]))
    w("def MIDI_PART_ID_FORMAT : String := %s" % _lstr(vals["MIDI_PART_ID_FORMAT"]))
    w("def MIDI_PART_ID_OFFSET : Nat := %d\n" % vals["MIDI_PART_ID_OFFSET"])
    w("/-- default of `estimate_voices(monophonic_voices=...)`, which the importer calls without the argument -/")
    w("def MIDI_ESTIMATE_VOICES_MONO : Bool := %s\n" % _lbool(vals["MIDI_ESTIMATE_VOICES_MONO"]))
    w("/-- the values above that could NOT be read from the source (empty on a tree the translator understands) -/")
    w("def C17MIDI_PINNED : List (String × String) := [%s]\n" % ", ".join("(%s, %s)" % (_lstr(n), _lstr(r)) for n, r in pinned))
    w("end Gen")
    return "\n".join(out) + "\n"


GENERATORS = {"C17MidiTables.lean": gen_c17midi}

if __name__ == "__main__":
    print(gen_c17midi())
