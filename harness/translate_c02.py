"""Translator for C02: the literal data of `Part._time_interpolator`, of the four public map properties, of
`Part.quarter_duration_map`, `Part.__init__` and of the wrapper `partitura.utils.generic.interp1d`
-> lean/PartituraModel/Gen/C02Source.lean.

The LIVE source is parsed (ast); nothing is matched by the names of locals (a local may be renamed freely), the three
flags of `_time_interpolator` are identified by their POSITION in the signature (quarter, inv, musical_beat):

  tiDefaults            default values of the three flags
  beatMapFlags b ...    the flags each public property passes when `_use_musical_beat` is b (positional or keyword
                        arguments, constants or `self._use_musical_beat`; an `if self._use_musical_beat` is decided)
  curDivInit/curBtInit  the values the carry-forward loop over the sorted key points starts with (the variables are
                        found through the `if kp[i] is None: kp[i] = v else: v = kp[i]` statements of the loop)
  facNotated/facMusical the beat factor stored at a time-signature start, as a Lean expression in the attributes of the
                        signature (beats, beat_type, musical_beats), for musical_beat False / True
  normalDur q m         the length of a full bar the pickup test compares with: the statements between the lookup of the
                        time signature and the comparison are executed symbolically for every (quarter, musical_beat)
  pickupTol             `some (rtol, atol)` when the test is `a < n and not np.isclose(a, n[, rtol, atol])` (numpy's
                        defaults when not given), `none` when it is the bare `a < n`
  partQuarterDefault, quarterTimesInit      `Part.__init__`
  wrap* / qdm*          keyword defaults of the wrapper and the arguments `quarter_duration_map` passes to it (whether
                        a single entry is duplicated first is NOT recorded: the wrapper makes both variants equal)

When the source no longer has the expected form the file is emitted with `extractionOk := false` and the fallback
values of the current tree, so that only the C02 source theorems stop building (`C02.source_extracted`).
"""
import ast
import inspect
import textwrap
from fractions import Fraction


class Unexpected(Exception):
    pass


ATTRS = {"beats": "beats", "beat_type": "beatType", "musical_beats": "mb"}


def _fn_ast(obj):
    src = textwrap.dedent(inspect.getsource(obj))
    node = ast.parse(src).body[0]
    if not isinstance(node, ast.FunctionDef):
        raise Unexpected("function expected")
    return node


def _const_bool(node):
    if isinstance(node, ast.Constant) and isinstance(node.value, bool):
        return node.value
    raise Unexpected("boolean constant expected: %s" % ast.dump(node)[:80])


def _is_self_attr(node, name):
    return isinstance(node, ast.Attribute) and isinstance(node.value, ast.Name) and node.value.id == "self" and node.attr == name


# ------------------------------------------------------------------ public properties -> flags
def _flag_value(node, musical):
    """a flag argument: a constant, `self._use_musical_beat`, `not <flag>`, `bool(<flag>)`"""
    if isinstance(node, ast.Constant) and isinstance(node.value, bool):
        return node.value
    if _is_self_attr(node, "_use_musical_beat"):
        return musical
    if isinstance(node, ast.UnaryOp) and isinstance(node.op, ast.Not):
        return not _flag_value(node.operand, musical)
    if isinstance(node, ast.Call) and isinstance(node.func, ast.Name) and node.func.id == "bool" and len(node.args) == 1:
        return _flag_value(node.args[0], musical)
    raise Unexpected("flag argument not understood: %s" % ast.dump(node)[:80])


def _returned_call(stmts, musical, env):
    """the `self._time_interpolator(...)` call the statements return when `_use_musical_beat` is `musical`"""
    for st in stmts:
        if isinstance(st, ast.Expr) and isinstance(st.value, ast.Constant):
            continue  # docstring
        if isinstance(st, ast.Assign) and len(st.targets) == 1 and isinstance(st.targets[0], ast.Name):
            env[st.targets[0].id] = st.value
            continue
        if isinstance(st, ast.If):
            branch = st.body if _flag_value(_resolve(st.test, env), musical) else st.orelse
            r = _returned_call(branch, musical, env)
            if r is not None:
                return r
            continue
        if isinstance(st, ast.Return):
            v = _resolve(st.value, env)
            if isinstance(v, ast.IfExp):
                v = v.body if _flag_value(_resolve(v.test, env), musical) else v.orelse
            if (isinstance(v, ast.Call) and isinstance(v.func, ast.Attribute) and v.func.attr == "_time_interpolator"
                    and isinstance(v.func.value, ast.Name) and v.func.value.id == "self"):
                return v, env
            raise Unexpected("return of something else than self._time_interpolator(...)")
        raise Unexpected("statement not understood in a map property: %s" % type(st).__name__)
    return None


def _resolve(node, env):
    if isinstance(node, ast.Name) and node.id in env:
        return _resolve(env[node.id], env)
    return node


def property_flags(prop, params, defaults):
    fn = _fn_ast(prop.fget)
    out = []
    for musical in (False, True):
        r = _returned_call(fn.body, musical, {})
        if r is None:
            raise Unexpected("no return in %s" % fn.name)
        call, env = r
        vals = dict(zip(params, defaults))
        if len(call.args) > len(params):
            raise Unexpected("too many positional arguments")
        for name, a in zip(params, call.args):
            vals[name] = _flag_value(_resolve(a, env), musical)
        for kw in call.keywords:
            if kw.arg not in vals:
                raise Unexpected("unknown keyword %r" % kw.arg)
            vals[kw.arg] = _flag_value(_resolve(kw.value, env), musical)
        out.append(tuple(vals[n] for n in params))
    return out


# ------------------------------------------------------------------ expressions in the attributes of a signature
def _expr(node, tsvar, env):
    """python arithmetic over `<tsvar>.beats / .beat_type / .musical_beats`, numbers and already bound names -> Lean"""
    if isinstance(node, ast.Constant) and isinstance(node.value, (int, float)) and not isinstance(node.value, bool):
        f = Fraction(repr(node.value)) if isinstance(node.value, float) else Fraction(node.value)
        return "(%d : Rat)" % f.numerator if f.denominator == 1 else "((%d : Rat) / %d)" % (f.numerator, f.denominator)
    if isinstance(node, ast.Attribute) and isinstance(node.value, ast.Name) and node.value.id == tsvar and node.attr in ATTRS:
        return ATTRS[node.attr]
    if isinstance(node, ast.Name) and node.id in env:
        return env[node.id]
    if isinstance(node, ast.BinOp) and type(node.op) in (ast.Add, ast.Sub, ast.Mult, ast.Div):
        op = {ast.Add: "+", ast.Sub: "-", ast.Mult: "*", ast.Div: "/"}[type(node.op)]
        return "(%s %s %s)" % (_expr(node.left, tsvar, env), op, _expr(node.right, tsvar, env))
    if isinstance(node, ast.Call) and isinstance(node.func, ast.Name) and node.func.id == "float" and len(node.args) == 1:
        return _expr(node.args[0], tsvar, env)
    raise Unexpected("expression not understood: %s" % ast.dump(node)[:100])


def _flag_test(node, flags):
    """truth value of a test that only mentions the (bound) flags"""
    if isinstance(node, ast.Name) and node.id in flags:
        return flags[node.id]
    if isinstance(node, ast.UnaryOp) and isinstance(node.op, ast.Not):
        return not _flag_test(node.operand, flags)
    if isinstance(node, ast.BoolOp):
        vs = [_flag_test(v, flags) for v in node.values]
        return all(vs) if isinstance(node.op, ast.And) else any(vs)
    raise Unexpected("test not over the flags: %s" % ast.dump(node)[:80])


def _exec(stmts, tsvar, env, flags):
    """symbolic execution of straight-line assignments and `if <flags>` over expressions of the signature"""
    for st in stmts:
        if isinstance(st, ast.Pass) or (isinstance(st, ast.Expr) and isinstance(st.value, ast.Constant)):
            continue
        if isinstance(st, ast.Assign) and len(st.targets) == 1 and isinstance(st.targets[0], ast.Name):
            env[st.targets[0].id] = _expr_or_ifexp(st.value, tsvar, env, flags)
        elif isinstance(st, ast.AugAssign) and isinstance(st.target, ast.Name) and st.target.id in env:
            op = {ast.Add: "+", ast.Sub: "-", ast.Mult: "*", ast.Div: "/"}.get(type(st.op))
            if op is None:
                raise Unexpected("augmented assignment")
            env[st.target.id] = "(%s %s %s)" % (env[st.target.id], op, _expr_or_ifexp(st.value, tsvar, env, flags))
        elif isinstance(st, ast.If):
            _exec(st.body if _flag_test(st.test, flags) else st.orelse, tsvar, env, flags)
        else:
            raise Unexpected("statement not understood: %s" % type(st).__name__)


def _expr_or_ifexp(node, tsvar, env, flags):
    if isinstance(node, ast.IfExp):
        return _expr_or_ifexp(node.body if _flag_test(node.test, flags) else node.orelse, tsvar, env, flags)
    return _expr(node, tsvar, env)


def _walk_stmts(stmts):
    for st in stmts:
        yield st
        for f in ("body", "orelse"):
            sub = getattr(st, f, None)
            if isinstance(sub, list):
                yield from _walk_stmts(sub)


def _is_sub_const(node, i):
    return (isinstance(node, ast.Subscript) and isinstance(node.slice, ast.Constant) and node.slice.value == i)


def time_interpolator_data():
    import numpy as np
    import partitura.score as S

    fn = _fn_ast(S.Part._time_interpolator)
    args = fn.args.args
    if len(args) != 4 or len(fn.args.defaults) != 3:
        raise Unexpected("signature of _time_interpolator")
    params = [a.arg for a in args[1:]]
    defaults = [_const_bool(d) for d in fn.args.defaults]
    pq, pinv, pmus = params

    # ---- the carry-forward loop and its two carriers
    carriers = {}
    loop = None
    for st in _walk_stmts(fn.body):
        if isinstance(st, ast.For):
            found = {}
            for s2 in st.body:
                if (isinstance(s2, ast.If) and isinstance(s2.test, ast.Compare) and len(s2.test.ops) == 1
                        and isinstance(s2.test.ops[0], ast.Is) and isinstance(s2.test.comparators[0], ast.Constant)
                        and s2.test.comparators[0].value is None and len(s2.orelse) == 1
                        and isinstance(s2.orelse[0], ast.Assign) and isinstance(s2.orelse[0].targets[0], ast.Name)):
                    for i in (0, 1):
                        if _is_sub_const(s2.test.left, i) and _is_sub_const(s2.orelse[0].value, i):
                            found[i] = s2.orelse[0].targets[0].id
            if set(found) == {0, 1}:
                loop, carriers = st, found
    if loop is None:
        raise Unexpected("carry-forward loop not found")
    init = {}
    for st in fn.body:
        if st is loop:
            break
        if isinstance(st, ast.Assign) and len(st.targets) == 1 and isinstance(st.targets[0], ast.Name):
            if st.targets[0].id in carriers.values():
                init[st.targets[0].id] = _expr(st.value, "", {})
    if set(init) != set(carriers.values()):
        raise Unexpected("initial values of the carriers")

    # ---- the factor written at a signature start: `for ts in self.iter_all(TimeSignature)` under `if not quarter`
    fac = {}
    for st in _walk_stmts(fn.body):
        if (isinstance(st, ast.For) and isinstance(st.iter, ast.Call) and isinstance(st.iter.func, ast.Attribute)
                and st.iter.func.attr == "iter_all" and isinstance(st.target, ast.Name)):
            tsvar = st.target.id
            for mus in (False, True):
                flags = {pq: False, pinv: False, pmus: mus}
                stored = []

                def run(stmts):
                    for s2 in stmts:
                        if isinstance(s2, ast.If):
                            run(s2.body if _flag_test(s2.test, flags) else s2.orelse)
                        elif (isinstance(s2, ast.Assign) and len(s2.targets) == 1 and _is_sub_const(s2.targets[0], 1)):
                            stored.append(_expr(s2.value, tsvar, {}))
                        elif isinstance(s2, ast.Expr) and isinstance(s2.value, ast.Constant):
                            pass
                        else:
                            raise Unexpected("statement in the signature loop: %s" % type(s2).__name__)

                run(st.body)
                if len(stored) != 1:
                    raise Unexpected("factor assignment")
                fac[mus] = stored[0]
    if set(fac) != {False, True}:
        raise Unexpected("signature loop not found")

    # ---- the pickup test
    normal, tol = {}, "?"
    block = None
    for st in _walk_stmts(fn.body):
        if isinstance(st, ast.If) and st.body:
            last = st.body[-1]
            if isinstance(last, ast.If):
                cmp_ = [n for n in ast.walk(last.test) if isinstance(n, ast.Compare) and len(n.ops) == 1 and isinstance(n.ops[0], ast.Lt)]
                aug = [s2 for s2 in last.body if isinstance(s2, ast.AugAssign) and isinstance(s2.op, ast.Sub)]
                if len(cmp_) == 1 and aug and isinstance(st.test, ast.Name):
                    block, tsvar, test, cmp1 = st, st.test.id, last.test, cmp_[0]
    if block is None:
        raise Unexpected("pickup test not found")
    if not (isinstance(cmp1.left, ast.Name) and isinstance(cmp1.comparators[0], ast.Name)):
        raise Unexpected("pickup comparison")
    act, nrm = cmp1.left.id, cmp1.comparators[0].id
    for q in (False, True):
        for mus in (False, True):
            env = {}
            _exec(block.body[:-1], tsvar, env, {pq: q, pinv: False, pmus: mus})
            if nrm not in env:
                raise Unexpected("normal duration not assigned")
            normal[(q, mus)] = env[nrm]
    if isinstance(test, ast.Compare):
        tol = None
    elif (isinstance(test, ast.BoolOp) and isinstance(test.op, ast.And) and len(test.values) == 2 and test.values[0] is cmp1
          and isinstance(test.values[1], ast.UnaryOp) and isinstance(test.values[1].op, ast.Not)
          and isinstance(test.values[1].operand, ast.Call)):
        call = test.values[1].operand
        f = call.func
        if not (isinstance(f, ast.Attribute) and f.attr == "isclose" and len(call.args) >= 2
                and isinstance(call.args[0], ast.Name) and isinstance(call.args[1], ast.Name)
                and {call.args[0].id, call.args[1].id} == {act, nrm}):
            raise Unexpected("tolerance call")
        sig = inspect.signature(np.isclose)
        vals = {"rtol": sig.parameters["rtol"].default, "atol": sig.parameters["atol"].default}
        # numpy's formula is |a - b| <= atol + rtol * |b|: b must be the bar length
        vals["b_is_normal"] = call.args[1].id == nrm
        extra = list(call.args[2:])
        for name, a in zip(("rtol", "atol"), extra):
            vals[name] = ast.literal_eval(a)
        for kw in call.keywords:
            if kw.arg in ("rtol", "atol"):
                vals[kw.arg] = ast.literal_eval(kw.value)
            elif kw.arg != "equal_nan":
                raise Unexpected("keyword of isclose")
        if not vals["b_is_normal"]:
            raise Unexpected("isclose(normal, actual): reference value is the measured length")
        tol = (Fraction(repr(float(vals["rtol"]))), Fraction(repr(float(vals["atol"]))))
    else:
        raise Unexpected("pickup test: %s" % ast.dump(test)[:100])
    return {"params": params, "defaults": defaults, "init": (init[carriers[0]], init[carriers[1]]), "fac": fac,
            "normal": normal, "tol": tol}


def part_init_data():
    import partitura.score as S

    fn = _fn_ast(S.Part.__init__)
    names = [a.arg for a in fn.args.args]
    defaults = dict(zip(names[len(names) - len(fn.args.defaults):], fn.args.defaults))
    qd = ast.literal_eval(defaults["quarter_duration"])
    qt = None
    for st in _walk_stmts(fn.body):
        if (isinstance(st, ast.Assign) and len(st.targets) == 1 and _is_self_attr(st.targets[0], "_quarter_times")):
            qt = ast.literal_eval(st.value)
    if qt is None or not isinstance(qd, int):
        raise Unexpected("Part.__init__")
    return qd, [int(v) for v in qt]


def wrapper_data():
    import partitura.score as S
    from partitura.utils import generic

    sig = inspect.signature(generic.interp1d)
    d = {k: v.default for k, v in sig.parameters.items()}
    fill = d["fill_value"]
    wrap = {"kind": d["kind"], "bounds_error": bool(d["bounds_error"]), "fill_nan": isinstance(fill, float) and fill != fill,
            "assume_sorted": bool(d["assume_sorted"]), "dtype_none": d["dtype"] is None}
    # quarter_duration_map: the keyword arguments of the returned call
    fn = _fn_ast(S.Part.quarter_duration_map.fget)
    ret = [st for st in _walk_stmts(fn.body) if isinstance(st, ast.Return)]
    if len(ret) != 1 or not isinstance(ret[0].value, ast.Call):
        raise Unexpected("quarter_duration_map")
    call = ret[0].value
    kws = {kw.arg: kw.value for kw in call.keywords}
    kind = ast.literal_eval(kws["kind"]) if "kind" in kws else wrap["kind"]
    be = ast.literal_eval(kws["bounds_error"]) if "bounds_error" in kws else wrap["bounds_error"]
    fill = ast.unparse(kws["fill_value"]) if "fill_value" in kws else "nan"
    # the fill values: (<y>[0], <y>[-1]) of one and the same array
    ends = False
    fv = kws.get("fill_value")
    if isinstance(fv, ast.Tuple) and len(fv.elts) == 2 and all(isinstance(e, ast.Subscript) and isinstance(e.value, ast.Name) for e in fv.elts):
        try:
            idx = [ast.literal_eval(e.slice) for e in fv.elts]
            ends = idx == [0, -1] and fv.elts[0].value.id == fv.elts[1].value.id
        except ValueError:
            ends = False
    return wrap, {"kind": kind, "bounds_error": bool(be), "fill_ends": ends}


FALLBACK = {
    "defaults": [False, False, False],
    "flags": {"beat_map": [(False, False, False), (False, False, True)], "inv_beat_map": [(False, True, False), (False, True, True)],
              "quarter_map": [(True, False, False)] * 2, "inv_quarter_map": [(True, True, False)] * 2},
    "init": ("(1 : Rat)", "(1 : Rat)"),
    "fac": {False: "(beatType / (4 : Rat))", True: "((beatType / (4 : Rat)) * (mb / beats))"},
    "normal": {(False, False): "beats", (True, False): "(beats * ((4 : Rat) / beatType))", (False, True): "mb", (True, True): "mb"},
    "tol": (Fraction(1, 100000), Fraction(1, 100000000)),
    "part": (1, [0]),
    "wrap": {"kind": "linear", "bounds_error": False, "fill_nan": True, "assume_sorted": False, "dtype_none": True},
    "qdm": {"kind": "previous", "bounds_error": False, "fill_ends": True},
}


def _b(v):
    return "true" if v else "false"


def _flags(t):
    return "(%s, %s, %s)" % tuple(_b(v) for v in t)


def _ratlit(f):
    return "(%d : Rat)" % f.numerator if f.denominator == 1 else "((%d : Rat) / %d)" % (f.numerator, f.denominator)


def gen_c02():
    from translate import lstr

    data = dict(FALLBACK)
    ok, why = True, ""
    try:
        import partitura.score as S

        ti = time_interpolator_data()
        data.update({"defaults": ti["defaults"], "init": ti["init"], "fac": ti["fac"], "normal": ti["normal"], "tol": ti["tol"]})
        data["flags"] = {nm: property_flags(getattr(S.Part, nm), ti["params"], ti["defaults"])
                         for nm in ("beat_map", "inv_beat_map", "quarter_map", "inv_quarter_map")}
        data["part"] = part_init_data()
        data["wrap"], data["qdm"] = wrapper_data()
    except Exception as e:  # Unexpected, but also any surprise of the parser: only C02's source theorems stop building
        ok, why = False, "%s: %s" % (type(e).__name__, e)
    out = ["/- GENERATED by harness/translate_c02.py from the live source (partitura/score.py: Part._time_interpolator,",
           "   beat_map, inv_beat_map, quarter_map, inv_quarter_map, quarter_duration_map, Part.__init__;",
           "   partitura/utils/generic.py: interp1d; numpy.isclose defaults).  Do not edit. -/",
           "set_option linter.unusedVariables false\n",
           "namespace Gen.C02\n",
           "/-- the source had the expected form%s -/" % ("" if ok else " — NO: " + why.replace("-/", "- /")),
           "def extractionOk : Bool := %s\n" % _b(ok),
           "/-- defaults of `_time_interpolator(self, quarter, inv, musical_beat)` -/",
           "def tiDefaults : Bool × Bool × Bool := %s\n" % _flags(data["defaults"]),
           "/-! flags (quarter, inv, musical_beat) each public property passes, by `_use_musical_beat` -/"]
    for nm, lean in (("beat_map", "beatMapFlags"), ("inv_beat_map", "invBeatMapFlags"), ("quarter_map", "quarterMapFlags"),
                     ("inv_quarter_map", "invQuarterMapFlags")):
        f0, f1 = data["flags"][nm]
        out.append("def %s (musical : Bool) : Bool × Bool × Bool := if musical then %s else %s" % (lean, _flags(f1), _flags(f0)))
    out += ["",
            "/-- values the carry-forward loop starts with (divisions, beat factor) -/",
            "def curDivInit : Rat := %s" % data["init"][0],
            "def curBtInit : Rat := %s\n" % data["init"][1],
            "/-- beat factor stored at a signature start, notated / musical beats -/",
            "def facNotated (beats beatType mb : Rat) : Rat := %s" % data["fac"][False],
            "def facMusical (beats beatType mb : Rat) : Rat := %s\n" % data["fac"][True],
            "/-- length of a full bar in the pickup test, by (quarter, musical_beat) -/",
            "def normalDur (quarter musical : Bool) (beats beatType mb : Rat) : Rat :=",
            "  match quarter, musical with",
            "  | false, false => %s" % data["normal"][(False, False)],
            "  | true, false => %s" % data["normal"][(True, False)],
            "  | false, true => %s" % data["normal"][(False, True)],
            "  | true, true => %s\n" % data["normal"][(True, True)],
            "/-- `(rtol, atol)` of the `np.isclose` that guards the pickup test (`none`: bare `<`) -/",
            "def pickupTol : Option (Rat × Rat) := %s\n" % (
                "none" if data["tol"] is None else "some (%s, %s)" % (_ratlit(data["tol"][0]), _ratlit(data["tol"][1]))),
            "/-- `Part(id, ..., quarter_duration=…)` default and the initial `_quarter_times` -/",
            "def partQuarterDefault : Nat := %d" % data["part"][0],
            "def quarterTimesInit : List Int := [%s]\n" % ", ".join("(%d)" % v if v < 0 else "%d" % v for v in data["part"][1]),
            "/-- keyword defaults of `partitura.utils.generic.interp1d` -/",
            "def wrapKind : String := %s" % lstr(str(data["wrap"]["kind"])),
            "def wrapBoundsError : Bool := %s" % _b(data["wrap"]["bounds_error"]),
            "def wrapFillNaN : Bool := %s" % _b(data["wrap"]["fill_nan"]),
            "def wrapAssumeSorted : Bool := %s" % _b(data["wrap"]["assume_sorted"]),
            "def wrapDtypeNone : Bool := %s\n" % _b(data["wrap"]["dtype_none"]),
            "/-- what `quarter_duration_map` passes to it -/",
            "def qdmKind : String := %s" % lstr(str(data["qdm"]["kind"])),
            "def qdmBoundsError : Bool := %s" % _b(data["qdm"]["bounds_error"]),
            "def qdmFillEnds : Bool := %s\n" % _b(data["qdm"]["fill_ends"]),
            "end Gen.C02"]
    return "\n".join(out) + "\n"


# ------------------------------------------------------------------ round 6: decision tables by PROBING the live functions
def _probe_part(S, musical):
    """a real part with a 6/8 (numerator in MUSICAL_BEATS) and a 7/8 (not) signature whose musical beats are set to a
    sentinel, in the given mode"""
    p = S.Part("P0", quarter_duration=4)
    a, b = S.TimeSignature(6, 8), S.TimeSignature(7, 8)
    p.add(a, 0)
    p.add(b, 24)
    p.add(S.Note(step="C", octave=4, voice=1, id="n0"), 0, 48)
    a.musical_beats = b.musical_beats = 99
    p._use_musical_beat = musical
    return p, a, b


def switch_rows():
    """(op, musical before, argument kind) -> (musical after, effect, raised) for the three musical-beat calls.
    op 0 use_musical_beat / 1 use_notated_beat / 2 set_musical_beat_per_ts; argument 0 `{}` / 1 a non-empty dict / 2 not a
    dict / 3 no argument; effect 0 musical beats untouched / 1 set from the given table (defaults for missing keys) / 2 all
    set to the defaults"""
    import warnings

    import partitura.score as S

    rows = []
    names = ["use_musical_beat", "use_notated_beat", "set_musical_beat_per_ts"]
    for op, nm in enumerate(names):
        for musical in (False, True):
            for ak in ((3,) if op == 1 else (0, 1, 2, 3)):
                p, a, b = _probe_part(S, musical)
                args = {0: ({},), 1: ({"6/8": 5},), 2: ([("6/8", 5)],), 3: ()}[ak]
                raised = False
                with warnings.catch_warnings():
                    warnings.simplefilter("ignore")
                    try:
                        getattr(p, nm)(*args)
                    except TypeError:
                        raised = True
                got = (a.musical_beats, b.musical_beats)
                d6 = S.MUSICAL_BEATS.get(6, 6)
                if got == (99, 99):
                    eff = 0
                elif got == (5, 7) and ak == 1:
                    eff = 1
                elif got == (d6, 7):
                    eff = 2
                else:
                    raise Unexpected("%s(%r) in mode %r left the musical beats %r" % (nm, args, musical, got))
                rows.append((op, musical, ak, bool(p._use_musical_beat), eff, raised))
    return rows


def assign_rows():
    """which value a signature gets: (key in the table, numerator in MUSICAL_BEATS) -> 0 the table's / 1 MUSICAL_BEATS' / 2
    the numerator - for set_musical_beat_per_ts, and (numerator in MUSICAL_BEATS) -> 1 / 2 for TimeSignature();
    plus the keys the function looks up for a 7/16 and a 12/8 signature"""
    import partitura.score as S

    if 6 not in S.MUSICAL_BEATS or 7 in S.MUSICAL_BEATS or S.MUSICAL_BEATS[6] in (6, 55):
        raise Unexpected("MUSICAL_BEATS no longer has 6 (or has 7): the probe signatures do not separate the cases")
    rows = []
    for in_tbl in (False, True):
        p, a, b = _probe_part(S, False)
        p.set_musical_beat_per_ts({"6/8": 55, "7/8": 66} if in_tbl else {"5/8": 44})
        for in_def, ts, given in ((True, a, 55), (False, b, 66)):
            v = ts.musical_beats
            which = 0 if (in_tbl and v == given) else 1 if (in_def and v == S.MUSICAL_BEATS[6]) else 2 if v == ts.beats else None
            if which is None:
                raise Unexpected("set_musical_beat_per_ts gave %r to %d/%d" % (v, ts.beats, ts.beat_type))
            rows.append((in_tbl, in_def, which))
    init = []
    for in_def, n in ((True, 6), (False, 7)):
        v = S.TimeSignature(n, 8).musical_beats
        which = 1 if (in_def and v == S.MUSICAL_BEATS[6]) else 2 if v == n else None
        if which is None:
            raise Unexpected("TimeSignature(%d, 8).musical_beats = %r" % (n, v))
        init.append((in_def, which))

    class Rec(dict):
        asked = []

        def __contains__(self, k):
            Rec.asked.append(k)
            return dict.__contains__(self, k)

    p = S.Part("P0")
    p.add(S.TimeSignature(7, 16), 0)
    p.add(S.TimeSignature(12, 8), 8)
    p.set_musical_beat_per_ts(Rec())
    return rows, init, [str(k) for k in Rec.asked]


def qd_probe():
    """quarter_durations(start, end): is a change AT `start` / AT `end` listed?  and the decision table of
    set_quarter_duration: (value stored just before t: none / equal / different, entry stored at t: none / equal /
    different) -> 0 nothing / 1 insert / 2 replace"""
    import partitura.score as S

    p = S.Part("P0", quarter_duration=4)
    p.set_quarter_duration(10, 5)
    p.set_quarter_duration(20, 6)
    times = lambda a, b: [int(r[0]) for r in p.quarter_durations(a, b)]
    if times(None, None) != [0, 10, 20]:
        raise Unexpected("quarter_durations() = %r" % (times(None, None),))
    start_incl = 10 in times(10, None)
    end_incl = 10 in times(None, 10)
    if times(10, None) != ([10, 20] if start_incl else [20]) or times(None, 10) != ([0, 10] if end_incl else [0]):
        raise Unexpected("quarter_durations bounds")
    rows = []
    for pk in (0, 1, 2):
        for ak in (0, 1, 2):
            q = S.Part("P0", quarter_duration=4)
            ts = ([] if pk == 0 else [5]) + ([] if ak == 0 else [10]) + [20]
            vs = ([] if pk == 0 else [7 if pk == 1 else 3]) + ([] if ak == 0 else [7 if ak == 1 else 3]) + [9]
            q._quarter_times, q._quarter_durations = list(ts), list(vs)
            q.set_quarter_duration(10, 7)
            t2, v2 = [int(x) for x in q._quarter_times], [int(x) for x in q._quarter_durations]
            pre = len(ts) - 1 - (0 if ak == 0 else 1)
            if (t2, v2) == (ts, vs):
                act = 0
            elif ak == 0 and t2 == ts[:pre] + [10] + ts[pre:] and v2 == vs[:pre] + [7] + vs[pre:]:
                act = 1
            elif ak != 0 and t2 == ts and v2 == vs[:pre] + [7] + vs[pre + 1:]:
                act = 2
            else:
                raise Unexpected("set_quarter_duration(10, 7) on %r/%r gave %r/%r" % (ts, vs, t2, v2))
            rows.append((pk, ak, act))
    return start_incl, end_incl, rows


API_FALLBACK = {
    "switch": [(0, False, 0, True, 0, False), (0, False, 1, True, 1, False), (0, False, 2, True, 0, True), (0, False, 3, True, 0, False),
               (0, True, 0, True, 0, False), (0, True, 1, True, 0, False), (0, True, 2, True, 0, False), (0, True, 3, True, 0, False),
               (1, False, 3, False, 0, False), (1, True, 3, False, 2, False),
               (2, False, 0, False, 2, False), (2, False, 1, False, 1, False), (2, False, 2, False, 0, True), (2, False, 3, False, 2, False),
               (2, True, 0, True, 2, False), (2, True, 1, True, 1, False), (2, True, 2, True, 0, True), (2, True, 3, True, 2, False)],
    "assign": [(False, True, 1), (False, False, 2), (True, True, 0), (True, False, 0)],
    "init": [(True, 1), (False, 2)],
    "keys": ["7/16", "12/8"],
    "qd": (True, False, [(0, 0, 1), (0, 1, 0), (0, 2, 2), (1, 0, 0), (1, 1, 0), (1, 2, 2), (2, 0, 1), (2, 1, 0), (2, 2, 2)]),
}


def gen_c02api():
    from translate import lstr

    data = dict(API_FALLBACK)
    ok, why = True, ""
    try:
        data["switch"] = switch_rows()
        data["assign"], data["init"], data["keys"] = assign_rows()
        data["qd"] = qd_probe()
    except Exception as e:
        ok, why = False, "%s: %s" % (type(e).__name__, e)
    si, ei, qrows = data["qd"]
    out = ["/- GENERATED by harness/translate_c02.py by PROBING the live functions (partitura/score.py: Part.use_musical_beat,",
           "   use_notated_beat, set_musical_beat_per_ts, TimeSignature.__init__, Part.quarter_durations,",
           "   Part.set_quarter_duration).  Do not edit. -/",
           "namespace Gen.C02Api\n",
           "/-- the probes ran as expected%s -/" % ("" if ok else " — NO: " + why.replace("-/", "- /")),
           "def probesOk : Bool := %s\n" % _b(ok),
           "/-- (op, musical before, argument kind, musical after, effect, raised): op 0 use_musical_beat / 1 use_notated_beat /",
           "    2 set_musical_beat_per_ts; argument 0 `{}` / 1 non-empty dict / 2 not a dict / 3 omitted; effect 0 musical beats",
           "    untouched / 1 set from the table given / 2 all set to the defaults -/",
           "def switchRows : List (Nat × Bool × Nat × Bool × Nat × Bool) := [%s]\n" % ", ".join(
               "(%d, %s, %d, %s, %d, %s)" % (o, _b(m), a, _b(m2), e, _b(r)) for o, m, a, m2, e, r in data["switch"]),
           "/-- set_musical_beat_per_ts on one signature: (key in the table, numerator in MUSICAL_BEATS) -> 0 the table's value /",
           "    1 MUSICAL_BEATS[numerator] / 2 the numerator -/",
           "def assignRows : List (Bool × Bool × Nat) := [%s]\n" % ", ".join("(%s, %s, %d)" % (_b(a), _b(b), w) for a, b, w in data["assign"]),
           "/-- TimeSignature(beats, beat_type).musical_beats: (numerator in MUSICAL_BEATS) -> 1 / 2 as above -/",
           "def initRows : List (Bool × Nat) := [%s]\n" % ", ".join("(%s, %d)" % (_b(a), w) for a, w in data["init"]),
           "/-- the keys looked up in the table for a 7/16 and a 12/8 signature -/",
           "def keysAsked : List String := [%s]\n" % ", ".join(lstr(k) for k in data["keys"]),
           "/-- quarter_durations(start, end): a change AT start / AT end is listed -/",
           "def qdStartInclusive : Bool := %s" % _b(si),
           "def qdEndInclusive : Bool := %s\n" % _b(ei),
           "/-- set_quarter_duration(t, q): (value stored just before t: 0 none / 1 = q / 2 other, entry stored at t: 0 none /",
           "    1 = q / 2 other) -> 0 nothing / 1 insert (t, q) / 2 replace the entry at t -/",
           "def setQDRows : List (Nat × Nat × Nat) := [%s]\n" % ", ".join("(%d, %d, %d)" % r for r in qrows),
           "end Gen.C02Api"]
    return "\n".join(out) + "\n"


GENERATORS = {"C02Source.lean": gen_c02, "C02Api.lean": gen_c02api}

if __name__ == "__main__":
    print(gen_c02())
    print(gen_c02api())
