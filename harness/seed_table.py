"""prints the markdown table of seeded changes from seeded/*/meta.json (used for DESIGN.md section 11)"""
import json, glob, os, re, sys
rows = []
for f in sorted(glob.glob(os.path.join(os.path.dirname(__file__), "..", "seeded", "*", "meta.json"))):
    m = json.load(open(f))
    rnd = {"a": 1, "b": 1, "c": 2, "d": 2, "e": 3, "f": 3, "g": 4, "h": 4, "i": 5, "j": 5}.get(m["id"][-1], 6)
    if len(sys.argv) > 1 and int(sys.argv[1]) != rnd:
        continue
    summ = re.split(r"(?<=[a-z\)])\. ", m["summary"].replace("\n", " "))[0][:170]
    det = m["detection"]
    how = m["detected_by"].replace("\n", " ")
    how = how[:230] + ("…" if len(how) > 230 else "")
    rows.append("| %s | %s | %s%s |" % (m["id"], summ.replace("|", "/"), "**%s** — " % det if det not in ("caught", "detected") else "", how.replace("|", "/")))
print("| seed | what breaks | caught by |\n|---|---|---|")
print("\n".join(rows))
