"""Shared helper: limit the CPU time of a call, not its wall-clock time.

A wall-clock alarm (signal.alarm) turns a slow machine — twenty checks running side by side, a cold file cache, a
first import of scipy — into a 'timeout', i.e. into a false alarm on code that is fine, and when it fires inside an
`import` it leaves half-initialised modules behind.  ITIMER_PROF counts the user+system CPU time THIS process spends,
so a call that really does not terminate (it burns CPU) is still stopped, while waiting for a core costs nothing.

    from cpulimit import run_limited, CpuTimeout
    try:    r = run_limited(20, f, x, y)
    except CpuTimeout: ...          # f used more than 20 s of CPU
"""
import signal


class CpuTimeout(BaseException):
    """BaseException on purpose: `except Exception` in the code under test must not swallow it"""


def run_limited(cpu_seconds, f, *a, **kw):
    def h(sig, frm):
        raise CpuTimeout("more than %s s of CPU time" % cpu_seconds)

    try:
        old = signal.signal(signal.SIGPROF, h)
    except ValueError:  # not in the main thread: no limit
        return f(*a, **kw)
    signal.setitimer(signal.ITIMER_PROF, cpu_seconds)
    try:
        return f(*a, **kw)
    finally:
        signal.setitimer(signal.ITIMER_PROF, 0)
        signal.signal(signal.SIGPROF, old)
