"""Translator for C11 (round 5): the literal constants of the measure / tie / duration code, read off the LIVE source
-> lean/PartituraModel/Gen/C11Consts.lean.  The model (Model/Durations.lean, Model/Measures.lean, Model/Sanitize.lean,
Driver/C11.lean) USES these definitions, so editing a constant in the source re-elaborates the theorems and changes what
the driver answers.

Where a constant is observable it is obtained from the live function (signature defaults, probe calls), so that renaming a
local or rewriting an expression does not matter; the two that are not observable from outside are read from the syntax
tree with a tolerant search:

* estimateEps          default of `eps` of `estimate_symbolic_duration` (signature)
* tupletMaxQuarters    the bound of `elif qdur > 4`: the integer between the longest duration for which a tuplet is still
                       guessed and the shortest for which it is not, probed at 960 divisions (3839/960 .. 3841/960)
* tupletFirstNormal    `normal_notes` of the guess for one third of a quarter (the search starts at 2; a start at 1 is not
                       observable: a ratio with one normal note is a table value)
* findTieSplitMaxSplits  default of `max_splits` of `find_tie_split` (signature)
* tieNotesMaxSplits    the split limit `tie_notes` passes to `find_tie_split` (syntax tree: the call's fourth argument, a
                       literal or a local bound to a literal; the default above when the call passes none)
* sanitizeTieTolerance default of `tie_tolerance` of `sanitize_part` (signature)
* addMeasuresDefaultBeats  beats per bar `add_measures` assumes before the first time signature (probe: a part whose first
                       signature comes late; the length of the first measure it adds, in beats)
* addMeasuresSnap      the distance below which `add_measures` takes a bar end for the integer next to it (syntax tree: the
                       float literal below 1e-3 compared with `<`)

The generator never raises; what cannot be read is emitted as the value the model had before with `extractionOk := false`
and the reason in `notes`, and `C11.consts_extracted` (Props/C11Sound.lean) no longer builds.
"""
import ast
import inspect
import textwrap
import warnings
from fractions import Fraction


def _q(f, *a, **kw):
    with warnings.catch_warnings():
        warnings.simplefilter("ignore")
        return f(*a, **kw)


def _lrat(x):
    x = Fraction(x)
    if x.denominator == 1:
        return "(%d : Rat)" % x.numerator
    return "((%d : Rat) / %d)" % (x.numerator, x.denominator)


def _lstr(s):
    return '"' + "".join(ch if 32 <= ord(ch) < 127 and ch not in '"\\' else " " for ch in str(s)) + '"'


def _frac_of_float(x):
    """the decimal the authors wrote (shortest repr), e.g. 10**-3 -> 1/1000, 1e-6 -> 1/1000000"""
    return Fraction(repr(float(x)))


def _tree(f):
    return ast.parse(textwrap.dedent(inspect.getsource(f)))


def _num(node, env=None):
    """value of a numeric constant expression (literals, + - * / **, unary minus, locals bound to such), else None"""
    env = env or {}
    if isinstance(node, ast.Constant) and isinstance(node.value, (int, float)) and not isinstance(node.value, bool):
        return node.value
    if isinstance(node, ast.Name) and node.id in env:
        return env[node.id]
    if isinstance(node, ast.UnaryOp) and isinstance(node.op, (ast.USub, ast.UAdd)):
        x = _num(node.operand, env)
        return None if x is None else (-x if isinstance(node.op, ast.USub) else x)
    if isinstance(node, ast.BinOp) and isinstance(node.op, (ast.Add, ast.Sub, ast.Mult, ast.Div, ast.Pow)):
        a, b = _num(node.left, env), _num(node.right, env)
        if a is None or b is None:
            return None
        try:
            return {ast.Add: lambda: a + b, ast.Sub: lambda: a - b, ast.Mult: lambda: a * b, ast.Div: lambda: a / b,
                    ast.Pow: lambda: a ** b}[type(node.op)]()
        except Exception:
            return None
    return None


def _const_env(tree):
    """locals bound once to a literal number"""
    env, seen = {}, {}
    for n in ast.walk(tree):
        if isinstance(n, ast.Assign) and len(n.targets) == 1 and isinstance(n.targets[0], ast.Name):
            name = n.targets[0].id
            seen[name] = seen.get(name, 0) + 1
            if _num(n.value) is not None:
                env[name] = _num(n.value)
    return {k: v for k, v in env.items() if seen.get(k) == 1}


def gen_c11consts():
    notes = []
    v = dict(estimateEps=Fraction(1, 1000), tupletMaxQuarters=Fraction(4), tupletFirstNormal=2, findTieSplitMaxSplits=3,
             tieNotesMaxSplits=3, sanitizeTieTolerance=0, addMeasuresDefaultBeats=4, addMeasuresSnap=Fraction(1, 1000000))
    try:
        import partitura.score as S
        import partitura.utils.music as M

        # ---- signature defaults
        for key, fn, par, conv in [("estimateEps", M.estimate_symbolic_duration, "eps", _frac_of_float),
                                   ("findTieSplitMaxSplits", M.find_tie_split, "max_splits", int),
                                   ("sanitizeTieTolerance", S.sanitize_part, "tie_tolerance", int)]:
            try:
                d = inspect.signature(fn).parameters[par].default
                if d is inspect.Parameter.empty or isinstance(d, bool) or conv(d) != d and conv is int or conv(d) < 0:
                    raise ValueError("default %r" % (d,))
                v[key] = conv(d)
            except Exception as e:
                notes.append("%s: default of %s unreadable (%s: %s)" % (key, par, type(e).__name__, e))
        # ---- the bound of the tuplet guess
        try:
            lo = _q(M.estimate_symbolic_duration, 3839, 960)
            hi = _q(M.estimate_symbolic_duration, 3841, 960)
            far = _q(M.estimate_symbolic_duration, 5 * 960 + 1, 960)
            if lo and lo.get("actual_notes") and not hi and not far:
                v["tupletMaxQuarters"] = Fraction(4)
            else:
                # look for the bound on the grid of 1/960 (the first non-table duration that gets no guess)
                k = next((k for k in range(961, 8 * 960) if k % 960 and not _q(M.estimate_symbolic_duration, k, 960)
                          and not any(_q(M.estimate_symbolic_duration, j, 960) for j in range(k + 1, k + 6) if j % 960)), None)
                if k is None:
                    raise ValueError("no bound found below 8 quarters")
                v["tupletMaxQuarters"] = Fraction(round(Fraction(k, 960)))
        except Exception as e:
            notes.append("tupletMaxQuarters unreadable (%s: %s)" % (type(e).__name__, e))
        try:
            r = _q(M.estimate_symbolic_duration, 1, 3)
            v["tupletFirstNormal"] = int(r["normal_notes"])
        except Exception as e:
            notes.append("tupletFirstNormal unreadable (%s: %s)" % (type(e).__name__, e))
        # ---- tie_notes: the limit passed to find_tie_split
        try:
            tree = _tree(S.tie_notes)
            env = _const_env(tree)
            calls = [n for n in ast.walk(tree) if isinstance(n, ast.Call) and (
                (isinstance(n.func, ast.Name) and n.func.id == "find_tie_split") or
                (isinstance(n.func, ast.Attribute) and n.func.attr == "find_tie_split"))]
            if not calls:
                raise ValueError("no call of find_tie_split")
            vals = set()
            for c in calls:
                arg = c.args[3] if len(c.args) > 3 else next((k.value for k in c.keywords if k.arg == "max_splits"), None)
                if arg is None:
                    vals.add(v["findTieSplitMaxSplits"])
                elif isinstance(_num(arg, env), int):
                    vals.add(_num(arg, env))
                else:
                    raise ValueError("limit is not a literal: %s" % ast.dump(arg)[:60])
            if len(vals) != 1:
                raise ValueError("different limits %r" % (sorted(vals),))
            v["tieNotesMaxSplits"] = vals.pop()
        except Exception as e:
            notes.append("tieNotesMaxSplits unreadable (%s: %s)" % (type(e).__name__, e))
        # ---- add_measures: default beats (probe) and the snapping distance (syntax tree)
        try:
            p = S.Part("P0", quarter_duration=1)
            p.add(S.TimeSignature(3, 4), 16)
            p.add(S.Note("C", 4, id="n0"), 0, 22)
            _q(S.add_measures, p)
            ms = sorted((m.start.t, m.end.t) for m in p.iter_all(S.Measure))
            first = [e - s for s, e in ms if e <= 16]
            if not first or len(set(first[:-1] or first)) != 1 or 16 % first[0]:
                raise ValueError("measures before the first signature: %r" % (ms,))
            v["addMeasuresDefaultBeats"] = int(first[0])
        except Exception as e:
            notes.append("addMeasuresDefaultBeats unreadable (%s: %s)" % (type(e).__name__, e))
        try:
            tree = _tree(S.add_measures)
            env = _const_env(tree)
            found = set()
            for n in ast.walk(tree):
                if isinstance(n, ast.Compare) and len(n.ops) == 1 and isinstance(n.ops[0], (ast.Lt, ast.LtE, ast.Gt, ast.GtE)):
                    for side in (n.left, n.comparators[0]):
                        val = _num(side, env)
                        if isinstance(val, float) and 0 < val < 1e-3:
                            found.add(_frac_of_float(val))
            if len(found) != 1:
                raise ValueError("snapping distance: candidates %r" % (sorted(found),))
            v["addMeasuresSnap"] = found.pop()
        except Exception as e:
            notes.append("addMeasuresSnap unreadable (%s: %s)" % (type(e).__name__, e))
    except Exception as e:  # partitura not importable
        notes.append("source unreadable (%s: %s)" % (type(e).__name__, e))
    out = ["/- GENERATED by harness/translate_c11.py from the live partitura source - do not edit. -/",
           "namespace Gen.C11", ""]
    out.append("/-- default of `eps` of `estimate_symbolic_duration` -/")
    out.append("def estimateEps : Rat := %s" % _lrat(v["estimateEps"]))
    out.append("/-- `elif qdur > 4`: above this many quarters no tuplet is guessed -/")
    out.append("def tupletMaxQuarters : Rat := %s" % _lrat(v["tupletMaxQuarters"]))
    out.append("/-- `normal_notes` guessed for a third of a quarter (the search starts here) -/")
    out.append("def tupletFirstNormal : Nat := %d" % v["tupletFirstNormal"])
    out.append("/-- default of `max_splits` of `find_tie_split` -/")
    out.append("def findTieSplitMaxSplits : Nat := %d" % v["findTieSplitMaxSplits"])
    out.append("/-- the limit `tie_notes` passes to `find_tie_split` -/")
    out.append("def tieNotesMaxSplits : Nat := %d" % v["tieNotesMaxSplits"])
    out.append("/-- default of `tie_tolerance` of `sanitize_part` -/")
    out.append("def sanitizeTieTolerance : Nat := %d" % v["sanitizeTieTolerance"])
    out.append("/-- beats per bar `add_measures` assumes before the first time signature -/")
    out.append("def addMeasuresDefaultBeats : Nat := %d" % v["addMeasuresDefaultBeats"])
    out.append("/-- a bar end closer than this to an integer time is that time -/")
    out.append("def addMeasuresSnap : Rat := %s" % _lrat(v["addMeasuresSnap"]))
    out.append("def extractionOk : Bool := %s" % ("true" if not notes else "false"))
    out.append("def notes : List String := [%s]" % ", ".join(_lstr(n) for n in notes))
    out += ["", "end Gen.C11", ""]
    return "\n".join(out)


GENERATORS = {"C11Consts.lean": gen_c11consts}

if __name__ == "__main__":
    print(gen_c11consts())
