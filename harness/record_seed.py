"""coordinator helper: harness/record_seed.py <Cxx-a> <detection> <detected_by>  -> seeded/<id>/{patch.diff,demo.py,meta.json}; removes the worktree"""
import json, os, shutil, subprocess, sys
x, res, how = sys.argv[1], sys.argv[2], sys.argv[3]
wt = "/tmp/seed-" + x
d = "/verif/seeded/" + x
os.makedirs(d, exist_ok=True)
shutil.copy(wt + "/seed_patch.diff", d + "/patch.diff")
shutil.copy(wt + "/seed_demo.py", d + "/demo.py")
a = json.load(open(wt + "/seed_meta.json"))
meta = {"property": a["property"], "id": x, "summary": a["summary"], "needs_to_manifest": a["needs_to_manifest"],
        "files_changed": a.get("files_changed"),
        "confirmed_by_coordinator": {
            "demo": "PYTHONPATH=/repo python demo.py -> exit 0; PYTHONPATH=<worktree with patch.diff applied> python demo.py -> exit 1",
            "suite": "harness/suite_compare.py <worktree>: all 228 baseline tests of /root/.vp/BASELINE.json still pass",
            "check": "harness/seedrun.sh <worktree> %s quick (isolated copy of /verif, VERIF_REPO=<worktree>)" % a["property"]},
        "detection": res, "detected_by": how}
json.dump(meta, open(d + "/meta.json", "w"), indent=1)
if os.environ.get("KEEP_WT") != "1": subprocess.run(["git", "-C", "/repo", "worktree", "remove", "--force", wt])
print("recorded", x)
