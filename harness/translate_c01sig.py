"""Translator for C01: the argument conventions of the timeline API -> lean/PartituraModel/Gen/C01Sig.lean.

Everything is read from the LIVE `partitura.score` of the tree under test, on every run:

  * default values of the keyword arguments of `Part.__init__` (quarter_duration), `Part.add` (start, end),
    `Part.remove` (which), `Part.iter_all` (cls, start, end, include_subclasses, mode), `TimePoint.iter_prev` /
    `iter_next` (eq, include_subclasses), `TimePoint.iter_starting` / `iter_ending` (include_subclasses) and
    `Part.quarter_durations` (start, end) - through `inspect.signature`;
  * the initial quarter table of a fresh `Part` (`_quarter_times`, and that `_quarter_durations` is the argument);
  * which `which` strings make `Part.remove` act on the start side / the end side, and which `mode` strings make
    `Part.iter_all` look at starting / ending objects: determined BEHAVIOURALLY on a two-object part for every
    string constant that occurs in the source of the function plus one string that does not (so the way the
    test is written - tuple, set, chain of `==` - does not matter, only what it accepts).

Model/TimelineX.lean interprets omitted arguments and the `which` / `mode` strings through these tables, and
Props/C01X.lean states what the conventions are (`remove_default_both`, `which_table`, `mode_table`, ...): an edit
of a default or of an accepted string re-elaborates those theorems.  When something has an unexpected form the
table is emitted with `extractionOk := false` (only the C01 convention theorems stop building).
"""
import ast
import inspect
import textwrap
import warnings

UNKNOWN = "«neither»"   # a string that is certainly not a constant of the source


def _consts(fn):
    src = textwrap.dedent(inspect.getsource(fn))
    tree = ast.parse(src)
    f = tree.body[0]
    body = f.body
    # skip the docstring
    if body and isinstance(body[0], ast.Expr) and isinstance(getattr(body[0], "value", None), ast.Constant) \
            and isinstance(body[0].value.value, str):
        body = body[1:]
    out = []
    for st in body:
        for n in ast.walk(st):
            if isinstance(n, ast.Constant) and isinstance(n.value, str) and len(n.value) <= 24 and n.value not in out:
                out.append(n.value)
    for d in f.args.defaults + [d for d in f.args.kw_defaults if d is not None]:
        if isinstance(d, ast.Constant) and isinstance(d.value, str) and d.value not in out:
            out.append(d.value)
    return out


def _default(fn, name):
    p = inspect.signature(fn).parameters.get(name)
    if p is None:
        raise ValueError("%s has no parameter %s" % (fn.__qualname__, name))
    return p.default


def signature_tables():
    import partitura.score as S

    t = {"ok": True, "why": ""}

    def opt_int(v):
        if v is None:
            return None
        if isinstance(v, int) and not isinstance(v, bool):
            return v
        raise ValueError("default %r is neither None nor an int" % (v,))

    def boolean(v):
        if isinstance(v, bool):
            return v
        raise ValueError("default %r is not a bool" % (v,))

    def string(v):
        if isinstance(v, str):
            return v
        raise ValueError("default %r is not a string" % (v,))

    t["partQuarterDefault"] = opt_int(_default(S.Part.__init__, "quarter_duration"))
    if t["partQuarterDefault"] is None or t["partQuarterDefault"] < 0:
        raise ValueError("Part(quarter_duration) default")
    p = S.Part("sig", quarter_duration=7)
    t["partInitTimes"] = [int(x) for x in p._quarter_times]
    if list(p._quarter_durations) != [7] * len(t["partInitTimes"]):
        raise ValueError("fresh Part: _quarter_durations is not the argument")
    t["addStartDefault"] = opt_int(_default(S.Part.add, "start"))
    t["addEndDefault"] = opt_int(_default(S.Part.add, "end"))
    t["removeWhichDefault"] = string(_default(S.Part.remove, "which"))
    t["iterAllClsDefaultNone"] = _default(S.Part.iter_all, "cls") is None
    t["iterAllStartDefault"] = opt_int(_default(S.Part.iter_all, "start"))
    t["iterAllEndDefault"] = opt_int(_default(S.Part.iter_all, "end"))
    t["iterAllInclDefault"] = boolean(_default(S.Part.iter_all, "include_subclasses"))
    t["iterAllModeDefault"] = string(_default(S.Part.iter_all, "mode"))
    t["iterPrevEqDefault"] = boolean(_default(S.TimePoint.iter_prev, "eq"))
    t["iterPrevInclDefault"] = boolean(_default(S.TimePoint.iter_prev, "include_subclasses"))
    t["iterNextEqDefault"] = boolean(_default(S.TimePoint.iter_next, "eq"))
    t["iterNextInclDefault"] = boolean(_default(S.TimePoint.iter_next, "include_subclasses"))
    t["iterStartingInclDefault"] = boolean(_default(S.TimePoint.iter_starting, "include_subclasses"))
    t["iterEndingInclDefault"] = boolean(_default(S.TimePoint.iter_ending, "include_subclasses"))
    t["qdsStartDefault"] = opt_int(_default(S.Part.quarter_durations, "start"))
    t["qdsEndDefault"] = opt_int(_default(S.Part.quarter_durations, "end"))

    # ---- behaviour of the `which` strings of Part.remove
    def remove_acts(w):
        q = S.Part("sig")
        o, keep = S.TimedObject(), S.TimedObject()
        q.add(o, 1, 2)
        q.add(keep, 1, 2)
        q.remove(o, w)
        return (o.start is None, o.end is None)

    cand = _consts(S.Part.remove)
    cand = [c for c in cand if " " not in c] + [UNKNOWN]
    acts = {}
    for w in cand:
        try:
            acts[w] = remove_acts(w)
        except Exception:
            acts[w] = None
    if acts[UNKNOWN] is None or acts.get(t["removeWhichDefault"]) is None:
        raise ValueError("Part.remove raises on an unknown which string, or its default is not one of its constants")
    t["removeStartWhich"] = [w for w in cand if w != UNKNOWN and acts[w] is not None and acts[w][0]]
    t["removeEndWhich"] = [w for w in cand if w != UNKNOWN and acts[w] is not None and acts[w][1]]
    t["removeUnknownStart"], t["removeUnknownEnd"] = acts[UNKNOWN]
    if t["removeWhichDefault"] not in cand:
        raise ValueError("default of which is not a constant of Part.remove")

    # ---- behaviour of the `mode` strings of Part.iter_all
    def mode_acts(m):
        q = S.Part("sig")
        a, b = S.TimedObject(), S.TimedObject()
        q.add(a, 1, None)
        q.add(b, None, 1)
        with warnings.catch_warnings():
            warnings.simplefilter("ignore")
            r = list(q.iter_all(S.TimedObject, mode=m))
        if len(r) == 1 and r[0] is a:
            return "starting"
        if len(r) == 1 and r[0] is b:
            return "ending"
        raise ValueError("iter_all(mode=%r) is neither the starting nor the ending view" % (m,))

    cand = [c for c in _consts(S.Part.iter_all) if " " not in c and "{" not in c] + [UNKNOWN]
    kinds = {m: mode_acts(m) for m in cand}
    t["iterAllStartingModes"] = [m for m in cand if m != UNKNOWN and kinds[m] == "starting"]
    t["iterAllEndingModes"] = [m for m in cand if m != UNKNOWN and kinds[m] == "ending"]
    t["iterAllUnknownModeEnding"] = kinds[UNKNOWN] == "ending"
    if t["iterAllModeDefault"] not in cand:
        raise ValueError("default of mode is not a constant of Part.iter_all")
    return t


def _ls(xs):
    return "[" + ", ".join('"%s"' % x.replace("\\", "\\\\").replace('"', '\\"') for x in xs) + "]"


def _oi(v):
    return "none" if v is None else ("some (%d)" % v)


def _b(v):
    return "true" if v else "false"


FALLBACK = {
    "partQuarterDefault": 0, "partInitTimes": [], "addStartDefault": None, "addEndDefault": None,
    "removeWhichDefault": "", "iterAllClsDefaultNone": False, "iterAllStartDefault": None, "iterAllEndDefault": None,
    "iterAllInclDefault": False, "iterAllModeDefault": "", "iterPrevEqDefault": False, "iterPrevInclDefault": False,
    "iterNextEqDefault": False, "iterNextInclDefault": False, "iterStartingInclDefault": False,
    "iterEndingInclDefault": False, "qdsStartDefault": None, "qdsEndDefault": None, "removeStartWhich": [],
    "removeEndWhich": [], "removeUnknownStart": False, "removeUnknownEnd": False, "iterAllStartingModes": [],
    "iterAllEndingModes": [], "iterAllUnknownModeEnding": False,
}


def gen_c01sig():
    try:
        with warnings.catch_warnings():
            warnings.simplefilter("ignore")
            t = signature_tables()
    except Exception as e:  # unexpected form: only the convention theorems stop building
        t = dict(FALLBACK, ok=False, why="%s: %s" % (type(e).__name__, e))
    out = []
    w = out.append
    w("/- GENERATED by harness/translate_c01sig.py from the live partitura.score of the tree under test")
    w("   (signatures of Part.__init__/add/remove/iter_all/quarter_durations, TimePoint.iter_*; behaviour of the")
    w("   `which` strings of Part.remove and of the `mode` strings of Part.iter_all).  Do not edit. -/")
    w("namespace Gen.C01Sig\n")
    w("/-- false when the source no longer has a form the translator understands%s -/" % (
        "" if t["ok"] else " (" + t["why"].replace("-/", "- /")[:200] + ")"))
    w("def extractionOk : Bool := %s\n" % _b(t["ok"]))
    w("/-- `Part.__init__(..., quarter_duration=<this>)` -/")
    w("def partQuarterDefault : Nat := %d" % t["partQuarterDefault"])
    w("/-- `_quarter_times` of a fresh part (its `_quarter_durations` is the argument, once per time) -/")
    w("def partInitTimes : List Int := [%s]\n" % ", ".join("%d" % x for x in t["partInitTimes"]))
    w("/-- `Part.add(o, start=<this>, end=<this>)` (none = None) -/")
    w("def addStartDefault : Option Int := %s" % _oi(t["addStartDefault"]))
    w("def addEndDefault : Option Int := %s\n" % _oi(t["addEndDefault"]))
    w("/-- `Part.remove(o, which=<this>)` -/")
    w("def removeWhichDefault : String := %s" % _ls([t["removeWhichDefault"]])[1:-1])
    w("/-- the string constants of `Part.remove` under which it deregisters the start side / the end side -/")
    w("def removeStartWhich : List String := %s" % _ls(t["removeStartWhich"]))
    w("def removeEndWhich : List String := %s" % _ls(t["removeEndWhich"]))
    w("/-- what any other string does (start side, end side) -/")
    w("def removeUnknownStart : Bool := %s" % _b(t["removeUnknownStart"]))
    w("def removeUnknownEnd : Bool := %s\n" % _b(t["removeUnknownEnd"]))
    w("/-- `Part.iter_all(cls=None, start=…, end=…, include_subclasses=…, mode=…)` -/")
    w("def iterAllClsDefaultNone : Bool := %s" % _b(t["iterAllClsDefaultNone"]))
    w("def iterAllStartDefault : Option Int := %s" % _oi(t["iterAllStartDefault"]))
    w("def iterAllEndDefault : Option Int := %s" % _oi(t["iterAllEndDefault"]))
    w("def iterAllInclDefault : Bool := %s" % _b(t["iterAllInclDefault"]))
    w("def iterAllModeDefault : String := %s" % _ls([t["iterAllModeDefault"]])[1:-1])
    w("/-- the string constants of `Part.iter_all` that select the starting / the ending registries -/")
    w("def iterAllStartingModes : List String := %s" % _ls(t["iterAllStartingModes"]))
    w("def iterAllEndingModes : List String := %s" % _ls(t["iterAllEndingModes"]))
    w("/-- any other string: true = ending registries, false = starting registries -/")
    w("def iterAllUnknownModeEnding : Bool := %s\n" % _b(t["iterAllUnknownModeEnding"]))
    w("/-- `TimePoint.iter_prev/iter_next(cls, eq=…, include_subclasses=…)`, `iter_starting/iter_ending(cls, include_subclasses=…)` -/")
    w("def iterPrevEqDefault : Bool := %s" % _b(t["iterPrevEqDefault"]))
    w("def iterPrevInclDefault : Bool := %s" % _b(t["iterPrevInclDefault"]))
    w("def iterNextEqDefault : Bool := %s" % _b(t["iterNextEqDefault"]))
    w("def iterNextInclDefault : Bool := %s" % _b(t["iterNextInclDefault"]))
    w("def iterStartingInclDefault : Bool := %s" % _b(t["iterStartingInclDefault"]))
    w("def iterEndingInclDefault : Bool := %s\n" % _b(t["iterEndingInclDefault"]))
    w("/-- `Part.quarter_durations(start=…, end=…)` -/")
    w("def qdsStartDefault : Option Int := %s" % _oi(t["qdsStartDefault"]))
    w("def qdsEndDefault : Option Int := %s\n" % _oi(t["qdsEndDefault"]))
    w("end Gen.C01Sig")
    return "\n".join(out) + "\n"


GENERATORS = {"C01Sig.lean": gen_c01sig}

if __name__ == "__main__":
    print(gen_c01sig())
